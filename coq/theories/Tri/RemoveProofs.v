(* Tri/RemoveProofs.v -- theorems about the executable model of vertex removal (Tri/Remove.v).

   PART 1  list facts about Vec::swap_remove (`swap_remove_list`) and its relation to Vmap/Model.v (`vm_remove`)
   PART 2  frame / size facts of every function of the model: what each does to the lengths of the four tables and to
           the (position, payload) part of the vertex table
   PART 3  main theorems
             remove_vertex_full_vertices    one vertex less; the returned record is the removed entry
             remove_vertex_full_vtable      the vertex table of the result is the swap-remove of the vertex table
             remove_vertex_vm_remove        ... which is exactly Vmap.Model.vm_remove on the (key, payload) view
             remove_interior_counts         interior vertex of a link-level well-formed DCEL: V-1, E-3, F-2
             remove_hull_counts             hull vertex: E - (strip length), F - (inner faces of the strip)
             cdt_remove_vertex_*            the same for ConstrainedDelaunayTriangulation::remove
   No axioms. *)
From Coq Require Import ZArith List Bool Arith Lia.
From SpadeV Require Import Geom.Pred Obs.State Obs.Spec Obs.SpecProp Vmap.Model Dcel.Raw Dcel.WfCore Gen.DcelOps
  Query.Hull Tri.Legalize Tri.Insert Tri.Remove Dcel.ProofsFlip.
Import ListNotations.

(* ================================================================================================ *)
(* PART 1.  Vec::swap_remove                                                                         *)
(* ================================================================================================ *)

Lemma removelast_len : forall A (l : list A), length (removelast l) = length l - 1.
Proof.
  induction l as [|a [|b t] IH]; cbn [removelast length] in *; try lia.
Qed.

Lemma swap_remove_list_length : forall A (dflt : A) i l, length (swap_remove_list dflt i l) = length l - 1.
Proof.
  intros A dflt i l. unfold swap_remove_list.
  destruct (i =? length l - 1); [|rewrite snth_length]; apply removelast_len.
Qed.

Lemma map_removelast : forall A B (f : A -> B) l, map f (removelast l) = removelast (map f l).
Proof.
  induction l as [|a [|b t] IH]; cbn [removelast map] in *; try reflexivity.
  f_equal. exact IH.
Qed.

Lemma map_set_nth : forall A B (f : A -> B) i x l, map f (set_nth i x l) = set_nth i (f x) (map f l).
Proof.
  intros A B f i x l. revert i. induction l as [|a t IH]; intros [|i]; cbn [set_nth map]; try reflexivity.
  f_equal. apply IH.
Qed.

Lemma map_swap_remove_list : forall A B (f : A -> B) dflt i l,
  map f (swap_remove_list dflt i l) = swap_remove_list (f dflt) i (map f l).
Proof.
  intros A B f dflt i l. unfold swap_remove_list. rewrite map_length.
  destruct (i =? length l - 1).
  - apply map_removelast.
  - rewrite map_set_nth, map_removelast, map_nth. reflexivity.
Qed.

Lemma set_nth_same_image : forall A B (f : A -> B) i x l d0,
  (i < length l -> f x = f (nth i l d0)) -> map f (set_nth i x l) = map f l.
Proof.
  intros A B f i x l d0. revert i. induction l as [|a t IH]; intros [|i] H; cbn [set_nth map length nth] in *; try reflexivity.
  - f_equal. apply H. lia.
  - f_equal. apply IH. intros L. apply H. lia.
Qed.

(* the default element is irrelevant when the list is not empty *)
Lemma swap_remove_list_dflt : forall A (d1 d2 : A) i l, l <> [] -> swap_remove_list d1 i l = swap_remove_list d2 i l.
Proof.
  intros A d1 d2 i l N. unfold swap_remove_list.
  destruct (i =? length l - 1); [reflexivity|].
  f_equal. apply nth_indep. destruct l; [congruence|cbn [length]; lia].
Qed.

(* Vmap/Model.v: the state component of vm_remove is swap_remove_list, the removed binding is the i-th *)
Lemma vm_remove_swap_remove_list : forall (st : vstate) i st' x,
  vm_remove st i = Some (st', x) -> st' = swap_remove_list x i st /\ nth_error st i = Some x.
Proof.
  intros st i st' x H. unfold vm_remove in H.
  destruct (nth_error st i) as [y|] eqn:E; [|discriminate].
  inversion H; subst. split; reflexivity.
Qed.

Lemma swap_remove_list_vm_remove : forall (st : vstate) i x,
  nth_error st i = Some x -> vm_remove st i = Some (swap_remove_list x i st, x).
Proof.
  intros st i x H. unfold vm_remove. rewrite H. reflexivity.
Qed.

(* ================================================================================================ *)
(* PART 2.  frame and size facts                                                                     *)
(* ================================================================================================ *)

(* the part of a vertex entry that removal must not touch: position bits and payload *)
Definition vproj (r : vrec) : Z * Z * Z := (v_x r, v_y r, v_data r).
Definition vtable (d : dcel) : list (Z * Z * Z) := map vproj (d_verts d).

(* d' has the same (position, payload) table and the same table lengths as d *)
Definition Keep (d d' : dcel) : Prop :=
  vtable d' = vtable d /\ length (d_hedges d') = length (d_hedges d) /\
  length (d_faces d') = length (d_faces d) /\ length (d_flags d') = length (d_flags d).

Lemma Keep_refl : forall d, Keep d d.
Proof. intros d. repeat split. Qed.

Lemma Keep_trans : forall a b c, Keep a b -> Keep b c -> Keep a c.
Proof. intros a b c (A1 & A2 & A3 & A4) (B1 & B2 & B3 & B4). repeat split; congruence. Qed.

Lemma Keep_verts_len : forall d d', Keep d d' -> length (d_verts d') = length (d_verts d).
Proof.
  intros d d' (H & _). unfold vtable in H.
  rewrite <- (map_length vproj (d_verts d')), H, map_length. reflexivity.
Qed.

Lemma vtable_set_out_edge : forall d v o, vtable (set_out_edge d v o) = vtable d.
Proof.
  intros d v o. unfold vtable, set_out_edge. cbn [d_verts].
  apply set_nth_same_image with (d0 := dflt_v). intros _. reflexivity.
Qed.

Lemma vtable_upd_h : forall d a f, vtable (upd_h d a f) = vtable d.
Proof. reflexivity. Qed.
Lemma vtable_set_next : forall d a x, vtable (set_next d a x) = vtable d.  Proof. reflexivity. Qed.
Lemma vtable_set_prev : forall d a x, vtable (set_prev d a x) = vtable d.  Proof. reflexivity. Qed.
Lemma vtable_set_face : forall d a x, vtable (set_face d a x) = vtable d.  Proof. reflexivity. Qed.
Lemma vtable_set_origin : forall d a x, vtable (set_origin d a x) = vtable d.  Proof. reflexivity. Qed.
Lemma vtable_set_adjacent_edge : forall d f o, vtable (set_adjacent_edge d f o) = vtable d.  Proof. reflexivity. Qed.
Lemma vtable_push_edge : forall d h0 h1, vtable (push_edge d h0 h1) = vtable d.  Proof. reflexivity. Qed.
Lemma vtable_push_face : forall d o, vtable (push_face d o) = vtable d.  Proof. reflexivity. Qed.

#[local] Hint Rewrite vtable_set_out_edge vtable_set_next vtable_set_prev vtable_set_face vtable_set_origin
  vtable_set_adjacent_edge vtable_push_edge vtable_push_face vtable_upd_h : dcel_frame.

Lemma len_faces_push_face : forall d o, length (d_faces (push_face d o)) = length (d_faces d) + 1.
Proof. intros. rewrite faces_push_face, app_length. reflexivity. Qed.
Lemma len_flags_push_edge : forall d h0 h1, length (d_flags (push_edge d h0 h1)) = length (d_flags d) + 1.
Proof. intros. rewrite flags_push_edge, app_length. reflexivity. Qed.

(* solve a Keep goal for a chain of setters *)
Ltac keep_setters := unfold Keep; autorewrite with dcel_frame; repeat split; reflexivity.

Lemma Keep_set_next : forall d a x, Keep d (set_next d a x).  Proof. intros; keep_setters. Qed.
Lemma Keep_set_prev : forall d a x, Keep d (set_prev d a x).  Proof. intros; keep_setters. Qed.
Lemma Keep_set_face : forall d a x, Keep d (set_face d a x).  Proof. intros; keep_setters. Qed.
Lemma Keep_set_origin : forall d a x, Keep d (set_origin d a x).  Proof. intros; keep_setters. Qed.
Lemma Keep_set_out_edge : forall d v o, Keep d (set_out_edge d v o).  Proof. intros; keep_setters. Qed.
Lemma Keep_set_adjacent_edge : forall d f o, Keep d (set_adjacent_edge d f o).  Proof. intros; keep_setters. Qed.

Lemma Keep_flip_cw : forall d k, Keep d (fst (flip_cw d k)).
Proof.
  (* whatever the order of the generated statements: flip_cw is a chain of setters, none of which changes a table length
     or the position / payload of a vertex *)
  intros d k. unfold flip_cw. cbv zeta. cbn [fst]. keep_setters.
Qed.

Lemma Keep_fold_set_origin : forall l d v, Keep d (fold_left (fun d e => set_origin d e v) l d).
Proof.
  induction l as [|e t IH]; intros d v; cbn [fold_left].
  - apply Keep_refl.
  - eapply Keep_trans; [apply Keep_set_origin|apply IH].
Qed.

(* ---- fix_handle_swap / swap_remove_undirected_edge ---- *)
Lemma Keep_fix_handle_swap : forall d e, Keep d (fix_handle_swap d e).
Proof. intros d e. unfold fix_handle_swap. cbv zeta. keep_setters. Qed.

Lemma swap_remove_undirected_edge_sizes : forall d k d',
  swap_remove_undirected_edge d k = Some d' ->
  vtable d' = vtable d /\ length (d_faces d') = length (d_faces d) /\
  length (d_flags d') + 1 = length (d_flags d) /\ length (d_hedges d') = length (d_hedges d) - 2.
Proof.
  intros d k d' H. unfold swap_remove_undirected_edge in H.
  destruct (Raw.num_undirected_edges d <=? k) eqn:E; [discriminate|].
  apply Nat.leb_gt in E. unfold Raw.num_undirected_edges in E.
  assert (S : vtable (swap_remove_edge_tables d k) = vtable d /\
              length (d_faces (swap_remove_edge_tables d k)) = length (d_faces d) /\
              length (d_flags (swap_remove_edge_tables d k)) + 1 = length (d_flags d) /\
              length (d_hedges (swap_remove_edge_tables d k)) = length (d_hedges d) - 2).
  { unfold swap_remove_edge_tables, with_edges. cbn [d_faces d_flags d_hedges]. repeat split.
    - rewrite swap_remove_list_length. lia.
    - rewrite !swap_remove_list_length. lia. }
  destruct S as (S1 & S2 & S3 & S4).
  destruct (k <? Raw.num_undirected_edges (swap_remove_edge_tables d k)).
  - inversion H; subst d'; clear H.
    pose proof (Keep_trans _ _ _ (Keep_fix_handle_swap (swap_remove_edge_tables d k) (e_rev (normalized k)))
                  (Keep_fix_handle_swap _ (normalized k))) as (K1 & K2 & K3 & K4).
    repeat split; congruence.
  - inversion H; subst d'. repeat split; assumption.
Qed.

Lemma swap_remove_face_sizes : forall d f d',
  swap_remove_face d f = Some d' ->
  vtable d' = vtable d /\ length (d_hedges d') = length (d_hedges d) /\
  length (d_flags d') = length (d_flags d) /\ length (d_faces d') + 1 = length (d_faces d).
Proof.
  intros d f d' H. unfold swap_remove_face in H.
  destruct (Raw.num_faces d <=? f) eqn:E; [discriminate|].
  apply Nat.leb_gt in E. unfold Raw.num_faces in E.
  assert (L : length (swap_remove_list None f (d_faces d)) + 1 = length (d_faces d))
    by (rewrite swap_remove_list_length; lia).
  destruct (f <? Raw.num_faces (with_faces d (swap_remove_list None f (d_faces d)))).
  - destruct (f_adjacent _ f) as [e1|]; [|discriminate].
    inversion H; subst d'; clear H. autorewrite with dcel_frame. cbn [with_faces d_hedges d_flags d_faces].
    repeat split. exact L.
  - inversion H; subst d'. cbn [with_faces d_hedges d_flags d_faces]. repeat split. exact L.
Qed.

Lemma insert_desc_length : forall x l, length (insert_desc x l) = S (length l).
Proof.
  intros x l. induction l as [|y t IH]; cbn [insert_desc length]; [reflexivity|].
  destruct (y <=? x); cbn [length]; congruence.
Qed.

Lemma sort_desc_length : forall l, length (sort_desc l) = length l.
Proof.
  induction l as [|x t IH]; cbn [sort_desc fold_right length]; [reflexivity|].
  fold (sort_desc t). rewrite insert_desc_length. congruence.
Qed.

Lemma fold_swap_remove_edges_sizes : forall l d d',
  fold_opt swap_remove_undirected_edge l d = Some d' ->
  vtable d' = vtable d /\ length (d_faces d') = length (d_faces d) /\
  length (d_flags d') + length l = length (d_flags d) /\ length (d_hedges d') = length (d_hedges d) - 2 * length l.
Proof.
  induction l as [|k t IH]; intros d d' H; cbn [fold_opt length] in *.
  - inversion H; subst. repeat split; lia.
  - destruct (swap_remove_undirected_edge d k) as [d1|] eqn:E; [|discriminate].
    apply swap_remove_undirected_edge_sizes in E. destruct E as (E1 & E2 & E3 & E4).
    apply IH in H. destruct H as (H1 & H2 & H3 & H4).
    repeat split; try congruence; lia.
Qed.

Lemma fold_swap_remove_faces_sizes : forall l d d',
  fold_opt swap_remove_face l d = Some d' ->
  vtable d' = vtable d /\ length (d_hedges d') = length (d_hedges d) /\
  length (d_flags d') = length (d_flags d) /\ length (d_faces d') + length l = length (d_faces d).
Proof.
  induction l as [|k t IH]; intros d d' H; cbn [fold_opt length] in *.
  - inversion H; subst. repeat split; lia.
  - destruct (swap_remove_face d k) as [d1|] eqn:E; [|discriminate].
    apply swap_remove_face_sizes in E. destruct E as (E1 & E2 & E3 & E4).
    apply IH in H. destruct H as (H1 & H2 & H3 & H4).
    repeat split; try congruence; lia.
Qed.

Lemma cleanup_isolated_vertex_sizes : forall d iso d',
  cleanup_isolated_vertex d iso = Some d' ->
  vtable d' = vtable d /\
  length (d_flags d') + length (iso_edges_to_remove iso) = length (d_flags d) /\
  length (d_hedges d') = length (d_hedges d) - 2 * length (iso_edges_to_remove iso) /\
  length (d_faces d') + length (iso_faces_to_remove iso) = length (d_faces d).
Proof.
  intros d iso d' H. unfold cleanup_isolated_vertex in H.
  destruct (fold_opt swap_remove_undirected_edge _ d) as [d1|] eqn:E; [|discriminate].
  apply fold_swap_remove_edges_sizes in E. apply fold_swap_remove_faces_sizes in H.
  rewrite sort_desc_length in *.
  destruct E as (E1 & E2 & E3 & E4). destruct H as (H1 & H2 & H3 & H4).
  repeat split; try congruence; lia.
Qed.

(* ---- swap_remove_vertex ---- *)
Lemma swap_remove_vertex_spec : forall fuel d v d' r,
  swap_remove_vertex fuel d v = Some (d', r) ->
  v < length (d_verts d) /\ r = nth v (d_verts d) dflt_v /\
  vtable d' = swap_remove_list (vproj dflt_v) v (vtable d) /\
  length (d_hedges d') = length (d_hedges d) /\ length (d_faces d') = length (d_faces d) /\
  length (d_flags d') = length (d_flags d).
Proof.
  intros fuel d v d' r H. unfold swap_remove_vertex in H.
  destruct (Raw.num_vertices d <=? v) eqn:E; [discriminate|].
  apply Nat.leb_gt in E. unfold Raw.num_vertices in E.
  set (d1 := with_verts d (swap_remove_list dflt_v v (d_verts d))) in *.
  assert (T : vtable d1 = swap_remove_list (vproj dflt_v) v (vtable d))
    by (unfold vtable, d1, with_verts; cbn [d_verts]; apply map_swap_remove_list).
  destruct (negb (Raw.num_vertices d1 =? v)).
  - destruct (out_edges fuel d1 v) as [es|]; [|discriminate].
    inversion H; subst d' r; clear H.
    destruct (Keep_fold_set_origin es d1 v) as (K1 & K2 & K3 & K4).
    repeat split; try assumption; congruence.
  - inversion H; subst d' r. repeat split; assumption.
Qed.

(* ---- legalize_edges_after_removal ---- *)
Lemma Keep_legalize_after_removal : forall pts k d stack s d',
  legalize_after_removal pts k d stack s = Some d' -> Keep d d'.
Proof.
  intros pts k. induction k as [|k IH]; intros d stack s d' H; cbn [legalize_after_removal] in H; [discriminate|].
  destruct stack as [|ne rest].
  - inversion H; subst. apply Keep_refl.
  - cbv zeta in H.
    destruct (is_flagged d (normalized ne) || (ne <? s)).
    + eapply IH; exact H.
    + match type of H with (match ?X with _ => _ end) = _ => destruct X as [[|]|] end.
      * eapply Keep_trans; [apply Keep_flip_cw|]. eapply IH; exact H.
      * eapply IH; exact H.
      * discriminate.
Qed.

(* ---- the legalize_edge model of Tri/Legalize.v (used by CDT::remove through remove_constraint_edge) ---- *)
Lemma Keep_legalize : forall pts k fully d stack b d' b',
  legalize pts k fully d stack b = Some (d', b') -> Keep d d'.
Proof.
  intros pts k fully. induction k as [|k IH]; intros d stack b d' b' H; cbn [legalize] in H; [discriminate|].
  destruct stack as [|e rest].
  - inversion H; subst. apply Keep_refl.
  - destruct (is_flagged d e); [eapply IH; exact H|].
    destruct ((e_face d e =? 0) || (e_face d (e_rev e) =? 0)); [eapply IH; exact H|].
    destruct (should_flip pts d e).
    + eapply Keep_trans; [apply Keep_flip_cw|]. eapply IH; exact H.
    + eapply IH; exact H.
Qed.

(* ---- remesh_edge_ring ---- *)
Lemma fan_loop_sizes : forall bl d inner fo acc d' bl' inner' ne,
  fan_loop d bl inner fo acc = (d', bl', inner', ne) ->
  vtable d' = vtable d /\
  length (d_flags d') = length (d_flags d) + (length bl - 2) /\
  length (d_hedges d') = length (d_hedges d) + 2 * (length bl - 2) /\
  length (d_faces d') = length (d_faces d) + (length bl - 2) /\
  length bl' = Nat.min (length bl) 2 /\ length ne = length acc + (length bl - 2).
Proof.
  induction bl as [|outer rest IH]; intros d inner fo acc d' bl' inner' ne H; cbn [fan_loop] in H.
  - inversion H; subst. cbn [length]. repeat split; lia.
  - destruct (2 <? length (outer :: rest)) eqn:E.
    + apply Nat.ltb_lt in E. cbv zeta in H. apply IH in H.
      destruct H as (H1 & H2 & H3 & H4 & H5 & H6).
      autorewrite with dcel_frame in H1.
      autorewrite with dcel_frame in H2. rewrite len_flags_push_edge in H2. autorewrite with dcel_frame in H2.
      autorewrite with dcel_frame in H3.
      rewrite len_faces_push_face in H4. autorewrite with dcel_frame in H4.
      cbn [length] in *. repeat split; try assumption; lia.
    + apply Nat.ltb_ge in E. inversion H; subst. cbn [length] in *. repeat split; lia.
Qed.

Lemma remesh_edge_ring_sizes : forall d bl etr ftr d' iso,
  remesh_edge_ring d bl etr ftr = Some (d', iso) ->
  3 <= length bl /\ vtable d' = vtable d /\
  length (d_flags d') + 3 = length (d_flags d) + length bl /\
  length (d_hedges d') + 6 = length (d_hedges d) + 2 * length bl /\
  length (d_faces d') + 2 = length (d_faces d) + length bl /\
  iso_edges_to_remove iso = etr /\ iso_faces_to_remove iso = ftr /\
  iso_smallest_new_edge iso = length (d_flags d) /\ length (iso_new_edges iso) + 3 = length bl.
Proof.
  intros d bl etr ftr d' iso H. unfold remesh_edge_ring in H.
  destruct bl as [|inner bl1]; [discriminate|].
  cbv zeta in H.
  destruct (fan_loop d bl1 inner (e_origin d inner) []) as [[[d1 bl2] inner'] ne] eqn:F.
  apply fan_loop_sizes in F. destruct F as (F1 & F2 & F3 & F4 & F5 & F6).
  destruct bl2 as [|nx [|pv rest]]; try discriminate.
  inversion H; subst d' iso; clear H. cbn [iso_edges_to_remove iso_faces_to_remove iso_smallest_new_edge iso_new_edges].
  cbn [length] in *.
  assert (L : 2 <= length bl1) by lia.
  autorewrite with dcel_frame.
  rewrite len_faces_push_face. autorewrite with dcel_frame.
  unfold Raw.num_undirected_edges.
  repeat split; try assumption; try lia.
Qed.

Lemma isolate_vertex_and_fill_hole_sizes : forall fuel d bl v d' iso,
  isolate_vertex_and_fill_hole fuel d bl v = Some (d', iso) ->
  exists es, out_edges fuel d v = Some es /\
  3 <= length bl /\ vtable d' = vtable d /\
  length (d_flags d') + 3 = length (d_flags d) + length bl /\
  length (d_hedges d') + 6 = length (d_hedges d) + 2 * length bl /\
  length (d_faces d') + 2 = length (d_faces d) + length bl /\
  length (iso_edges_to_remove iso) = length es /\
  iso_faces_to_remove iso = filter (fun f => negb (f =? 0)) (map (e_face d) es) /\
  iso_smallest_new_edge iso = length (d_flags d).
Proof.
  intros fuel d bl v d' iso H. unfold isolate_vertex_and_fill_hole in H.
  destruct (out_edges fuel d v) as [es|]; [|discriminate].
  exists es. split; [reflexivity|].
  apply remesh_edge_ring_sizes in H. destruct H as (H1 & H2 & H3 & H4 & H5 & H6 & H7 & H8 & H9).
  rewrite H6, H7, map_length. repeat split; assumption.
Qed.

(* ---- disconnect_edge_strip / isolate_convex_hull_vertex ---- *)
Lemma disconnect_edge_strip_sizes : forall strip d etr ftr d' iso,
  disconnect_edge_strip d strip etr ftr = (d', iso) ->
  Keep d d' /\ length (iso_edges_to_remove iso) = length etr + length strip /\
  length (iso_faces_to_remove iso) <= length ftr + length strip /\ iso_new_edges iso = [].
Proof.
  induction strip as [|edge rest IH]; intros d etr ftr d' iso H; cbn [disconnect_edge_strip] in H.
  - inversion H; subst. cbn. split; [apply Keep_refl|]. repeat split; lia.
  - cbv zeta in H. apply IH in H. destruct H as (K & H2 & H3 & H4).
    split; [|repeat split].
    + eapply Keep_trans; [|exact K]. keep_setters.
    + rewrite H2, app_length. cbn [length]. lia.
    + rewrite app_length in H3. destruct (e_face d edge =? 0); cbn [length] in *; lia.
    + exact H4.
Qed.

Lemma Keep_hull_fix : forall pts k d ce etv d' ce' etv',
  hull_fix pts k d ce etv = Some (d', ce', etv') -> Keep d d'.
Proof.
  intros pts k. induction k as [|k IH]; intros d ce etv d' ce' etv' H; cbn [hull_fix] in H; [discriminate|].
  destruct ce as [|e2 [|e1 rest]]; try (inversion H; subst; apply Keep_refl).
  cbv zeta in H.
  match type of H with (if ?c then _ else _) = _ => destruct c end.
  - eapply Keep_trans; [apply Keep_flip_cw|]. eapply IH; exact H.
  - inversion H; subst. apply Keep_refl.
Qed.

Lemma Keep_hull_loop : forall pts fuel k d cur le ce etv d' ce' etv',
  hull_loop pts fuel k d cur le ce etv = Some (d', ce', etv') -> Keep d d'.
Proof.
  intros pts fuel k. induction k as [|k IH]; intros d cur le ce etv d' ce' etv' H; cbn [hull_loop] in H; [discriminate|].
  cbv zeta in H.
  destruct (hull_fix pts fuel d (e_next d cur :: ce) etv) as [[[d1 ce1] etv1]|] eqn:F; [|discriminate].
  apply Keep_hull_fix in F.
  destruct (d_ccw d cur =? le).
  - inversion H; subst. exact F.
  - eapply Keep_trans; [exact F|]. eapply IH; exact H.
Qed.

Lemma isolate_convex_hull_vertex_sizes : forall pts fuel d che d' iso,
  isolate_convex_hull_vertex pts fuel d che = Some (d', iso) ->
  Keep d d' /\ 1 <= length (iso_edges_to_remove iso) /\
  length (iso_faces_to_remove iso) <= length (iso_edges_to_remove iso).
Proof.
  intros pts fuel d che d' iso H. unfold isolate_convex_hull_vertex in H. cbv zeta in H.
  destruct (hull_loop pts fuel fuel d (d_ccw d che) che [] []) as [[[d1 ce] etv]|] eqn:L; [|discriminate].
  apply Keep_hull_loop in L.
  destruct (disconnect_edge_strip d1 (List.rev (e_next d che :: ce)) [] []) as [d2 res] eqn:D.
  apply disconnect_edge_strip_sizes in D. destruct D as (K2 & D2 & D3 & _).
  destruct (legalize_after_removal pts fuel d2 etv 0) as [d3|] eqn:G; [|discriminate].
  apply Keep_legalize_after_removal in G.
  inversion H; subst d' iso; clear H.
  rewrite rev_length in D2, D3. cbn [length] in *.
  split; [|split; lia].
  eapply Keep_trans; [exact L|]. eapply Keep_trans; [exact K2|exact G].
Qed.

(* ================================================================================================ *)
(* PART 3.  main theorems                                                                            *)
(* ================================================================================================ *)

(* what every successful removal does to the vertex table: entry v is returned, the last entry moves into slot v
   (Vec::swap_remove); positions and payloads of all other entries stay where they are *)
Definition RemovalSpec (d : dcel) (v : nat) (d' : dcel) (r : vrec) : Prop :=
  v < length (d_verts d) /\ r = nth v (d_verts d) dflt_v /\
  vtable d' = swap_remove_list (vproj dflt_v) v (vtable d).

(* ---- degenerate states ---- *)
Lemma last_nth : forall A (l : list A) dflt, last l dflt = nth (length l - 1) l dflt.
Proof.
  induction l as [|a [|b t] IH]; intros dflt; cbn [last length nth] in *; try reflexivity.
  rewrite IH. cbn [length]. replace (S (length t) - 0) with (S (length t)) by lia.
  replace (S (length t) - 1) with (length t) by lia. reflexivity.
Qed.

Lemma remove_when_one_vertex_left_spec : forall d v d' r,
  Raw.num_vertices d = 1 -> remove_when_one_vertex_left d v = Some (d', r) ->
  RemovalSpec d v d' r /\ length (d_verts d') = 0 /\
  d_hedges d' = d_hedges d /\ d_faces d' = d_faces d /\ d_flags d' = d_flags d.
Proof.
  intros d v d' r N H. unfold remove_when_one_vertex_left in H. unfold Raw.num_vertices in N.
  destruct (v =? 0) eqn:E; [|discriminate]. apply Nat.eqb_eq in E. subst v. cbn [negb] in H.
  destruct (d_verts d) as [|x [|y t]] eqn:V; try discriminate.
  inversion H; subst d' r; clear H. unfold RemovalSpec, vtable, with_verts. rewrite V. cbn. repeat split. lia.
Qed.

Lemma remove_when_two_vertices_left_spec : forall d v d' r,
  remove_when_two_vertices_left d v = Some (d', r) ->
  RemovalSpec d v d' r /\ length (d_verts d) = 2 /\ d_hedges d' = [] /\ d_flags d' = [] /\
  length (d_faces d') = length (d_faces d).
Proof.
  intros d v d' r H. unfold remove_when_two_vertices_left in H.
  destruct ((Raw.num_faces d =? 1) && (Raw.num_vertices d =? 2) && (Raw.num_undirected_edges d * 2 =? 2)) eqn:A; [|discriminate].
  cbn [negb] in H. apply andb_prop in A. destruct A as (A & _). apply andb_prop in A. destruct A as (_ & A).
  apply Nat.eqb_eq in A. unfold Raw.num_vertices in *.
  destruct (length (d_verts d) <=? v) eqn:E; [discriminate|]. apply Nat.leb_gt in E.
  inversion H; subst d' r; clear H. unfold RemovalSpec.
  cbn [with_edges d_hedges d_flags d_faces d_verts].
  repeat split; try assumption.
  - change (vtable (set_out_edge (set_adjacent_edge (with_verts d (swap_remove_list dflt_v v (d_verts d))) 0 None) 0 None) =
            swap_remove_list (vproj dflt_v) v (vtable d)).
    autorewrite with dcel_frame. unfold vtable, with_verts. cbn [d_verts]. apply map_swap_remove_list.
  - autorewrite with dcel_frame. reflexivity.
Qed.

Lemma nth_vtable : forall d d' w, vtable d' = vtable d -> vproj (nth w (d_verts d') dflt_v) = vproj (nth w (d_verts d) dflt_v).
Proof.
  intros d d' w H. unfold vtable in H.
  rewrite <- (map_nth vproj (d_verts d')), <- (map_nth vproj (d_verts d)), H. reflexivity.
Qed.

Lemma vtable_len : forall d d', vtable d' = vtable d -> length (d_verts d') = length (d_verts d).
Proof.
  intros d d' H. unfold vtable in H. rewrite <- (map_length vproj (d_verts d')), H, map_length. reflexivity.
Qed.

(* the removed record is reported with the out_edge it had at the moment of swap_remove_vertex; position and payload are
   those of the original entry *)
Definition RemovalSpecP (d : dcel) (v : nat) (d' : dcel) (r : vrec) : Prop :=
  v < length (d_verts d) /\ vproj r = vproj (nth v (d_verts d) dflt_v) /\
  vtable d' = swap_remove_list (vproj dflt_v) v (vtable d).

Lemma RemovalSpec_P : forall d v d' r, RemovalSpec d v d' r -> RemovalSpecP d v d' r.
Proof. intros d v d' r (A & B & C). subst r. repeat split; assumption. Qed.

(* swap_remove_vertex after a vtable-preserving prefix *)
Lemma swap_remove_vertex_after : forall fuel d0 d v d' r,
  vtable d = vtable d0 -> swap_remove_vertex fuel d v = Some (d', r) ->
  RemovalSpecP d0 v d' r /\ length (d_hedges d') = length (d_hedges d) /\
  length (d_faces d') = length (d_faces d) /\ length (d_flags d') = length (d_flags d).
Proof.
  intros fuel d0 d v d' r T H. apply swap_remove_vertex_spec in H.
  destruct H as (H1 & H2 & H3 & H4 & H5 & H6).
  split; [|repeat split; assumption].
  unfold RemovalSpecP. rewrite <- (vtable_len _ _ T). rewrite <- T. split; [exact H1|split; [|exact H3]].
  subst r. apply nth_vtable. exact T.
Qed.

Lemma remove_when_all_vertices_on_line_spec : forall fuel d v d' r,
  remove_when_all_vertices_on_line fuel d v = Some (d', r) ->
  RemovalSpecP d v d' r /\ length (d_flags d') + 1 = length (d_flags d) /\
  length (d_hedges d') = length (d_hedges d) - 2 /\ length (d_faces d') = length (d_faces d).
Proof.
  intros fuel d v d' r H. unfold remove_when_all_vertices_on_line in H.
  destruct (out_edges fuel d v) as [[|o1 [|e2 [|x rest]]]|]; try discriminate.
  - cbv zeta in H.
    match type of H with (match swap_remove_undirected_edge ?D ?K with _ => _ end) = _ =>
      destruct (swap_remove_undirected_edge D K) as [d1|] eqn:E; [|discriminate];
      assert (K0 : Keep d D) by keep_setters end.
    apply swap_remove_undirected_edge_sizes in E. destruct E as (E1 & E2 & E3 & E4).
    destruct K0 as (K1 & K2 & K3 & K4).
    apply (swap_remove_vertex_after fuel d) in H; [|congruence].
    destruct H as (S & H2 & H3 & H4). split; [exact S|]. repeat split; try congruence; lia.
  - cbv zeta in H.
    match type of H with (match swap_remove_vertex _ ?D _ with _ => _ end) = _ =>
      destruct (swap_remove_vertex fuel D v) as [[d1 r1]|] eqn:E; [|discriminate];
      assert (K0 : Keep d D) by (destruct (e_next d e2 =? e_rev e2); keep_setters) end.
    destruct K0 as (K1 & K2 & K3 & K4).
    apply (swap_remove_vertex_after fuel d) in E; [|exact K1].
    destruct E as (S & E2 & E3 & E4).
    destruct (swap_remove_undirected_edge d1 (as_undirected e2)) as [d2|] eqn:G; [|discriminate].
    inversion H; subst d' r; clear H.
    apply swap_remove_undirected_edge_sizes in G. destruct G as (G1 & G2 & G3 & G4).
    destruct S as (S1 & S2 & S3).
    split; [repeat split; try assumption; congruence|]. repeat split; try congruence; lia.
Qed.

(* ---- two-dimensional states ---- *)
Lemma remove_2d_spec : forall pts fuel d v d' r,
  remove_2d pts fuel d v = Some (d', r) -> RemovalSpecP d v d' r.
Proof.
  intros pts fuel d v d' r H. unfold remove_2d in H.
  destruct (v_out_edge d v) as [a|]; [|discriminate].
  destruct (border_scan fuel d a a []) as [[bl [che|]]|]; [| |discriminate].
  - destruct (isolate_convex_hull_vertex pts fuel d che) as [[d1 iso]|] eqn:I; [|discriminate].
    apply isolate_convex_hull_vertex_sizes in I. destruct I as ((I1 & _) & _).
    destruct (cleanup_isolated_vertex d1 iso) as [d2|] eqn:C; [|discriminate].
    apply cleanup_isolated_vertex_sizes in C. destruct C as (C1 & _).
    apply (swap_remove_vertex_after fuel d) in H; [|congruence]. apply H.
  - destruct (isolate_vertex_and_fill_hole fuel d bl v) as [[d1 iso]|] eqn:I; [|discriminate].
    apply isolate_vertex_and_fill_hole_sizes in I. destruct I as (es & _ & _ & I1 & _).
    destruct (legalize_after_removal pts fuel d1 _ _) as [d2|] eqn:G; [|discriminate].
    apply Keep_legalize_after_removal in G. destruct G as (G1 & _).
    destruct (cleanup_isolated_vertex d2 iso) as [d3|] eqn:C; [|discriminate].
    apply cleanup_isolated_vertex_sizes in C. destruct C as (C1 & _).
    apply (swap_remove_vertex_after fuel d) in H; [|congruence]. apply H.
Qed.

(* THEOREM 1/2: one vertex less; the vertex table of the result is the swap-remove of the vertex table;
   the returned vertex has the position and payload of entry v *)
Theorem remove_vertex_full_vtable : forall pts fuel d v d' r,
  remove_vertex_full pts fuel d v = Some (d', r) -> RemovalSpecP d v d' r.
Proof.
  intros pts fuel d v d' r H. unfold remove_vertex_full in H.
  destruct (Raw.num_vertices d <=? v); [discriminate|].
  destruct (Raw.num_faces d <=? 1).
  - unfold remove_when_degenerate in H.
    destruct (Raw.num_vertices d) as [|[|[|n]]] eqn:N; [discriminate| | |].
    + apply RemovalSpec_P. apply remove_when_one_vertex_left_spec in H; [apply H|exact N].
    + apply RemovalSpec_P. apply remove_when_two_vertices_left_spec in H. apply H.
    + apply remove_when_all_vertices_on_line_spec in H. apply H.
  - apply remove_2d_spec in H. exact H.
Qed.
Print Assumptions remove_vertex_full_vtable.

Theorem remove_vertex_full_vertices : forall pts fuel d v d' r,
  remove_vertex_full pts fuel d v = Some (d', r) ->
  Raw.num_vertices d' + 1 = Raw.num_vertices d /\ v < Raw.num_vertices d /\
  v_x r = v_x (nth v (d_verts d) dflt_v) /\ v_y r = v_y (nth v (d_verts d) dflt_v) /\
  v_data r = v_data (nth v (d_verts d) dflt_v).
Proof.
  intros pts fuel d v d' r H. apply remove_vertex_full_vtable in H. destruct H as (H1 & H2 & H3).
  unfold Raw.num_vertices. split; [|split; [exact H1|]].
  - rewrite <- (map_length vproj (d_verts d')). fold (vtable d'). rewrite H3, swap_remove_list_length.
    unfold vtable. rewrite map_length. lia.
  - unfold vproj in H2. inversion H2. repeat split; reflexivity.
Qed.
Print Assumptions remove_vertex_full_vertices.

Corollary remove_vertex_vertices : forall pts fuel d v d',
  remove_vertex pts fuel d v = Some d' -> Raw.num_vertices d' + 1 = Raw.num_vertices d.
Proof.
  intros pts fuel d v d' H. unfold remove_vertex in H.
  destruct (remove_vertex_full pts fuel d v) as [[d1 r]|] eqn:E; [|discriminate].
  inversion H; subst. apply remove_vertex_full_vertices in E. apply E.
Qed.

(* ---- the clockwise scan of remove_core visits the counterclockwise orbit of out_edges backwards ---- *)
(* l = [c; f c; f (f c); ...] up to the first element whose successor is a *)
Inductive Orb (f : nat -> nat) (a : nat) : nat -> list nat -> Prop :=
  | Orb_last : forall c, f c = a -> Orb f a c [c]
  | Orb_cons : forall c l, f c <> a -> Orb f a (f c) l -> Orb f a c (c :: l).

Lemma circ_iter_Orb : forall f k c a l, circ_iter f k c a = Some l -> Orb f a c l /\ length l <= k.
Proof.
  intros f k. induction k as [|k IH]; intros c a l H; cbn [circ_iter] in H; [discriminate|].
  destruct (f c =? a) eqn:E.
  - inversion H; subst. apply Nat.eqb_eq in E. split; [constructor; exact E|cbn; lia].
  - destruct (circ_iter f k (f c) a) as [l'|] eqn:R; [|discriminate].
    inversion H; subst. apply Nat.eqb_neq in E. apply IH in R. destruct R as (R1 & R2).
    split; [constructor; assumption|cbn [length]; lia].
Qed.

Lemma Orb_closed : forall f a (P : nat -> Prop), (forall x, P x -> P (f x)) ->
  forall c l, Orb f a c l -> P c -> forall x, In x l -> P x.
Proof.
  intros f a P Hf c l O. induction O as [c E|c l N O IH]; intros Pc x I.
  - destruct I as [<-|[]]. exact Pc.
  - destruct I as [<-|I]; [exact Pc|]. apply IH; [apply Hf; exact Pc|exact I].
Qed.

Lemma border_scan_orbit : forall d a c l, Orb (d_ccw d) a c l ->
  (forall x, In x l -> d_cw d (d_ccw d x) = x) ->
  forall k acc bl,
  border_scan (k + length l) d a a acc = Some (bl, None) ->
  (forall x, In x l -> is_outer d x = false) /\
  (if c =? a then bl = map (e_next d) l ++ acc
   else border_scan k d c a (map (e_next d) l ++ acc) = Some (bl, None)).
Proof.
  intros d a c l O. induction O as [c E|c l N O IH]; intros G k acc bl H.
  - cbn [length] in H. rewrite Nat.add_1_r in H. cbn [border_scan] in H. cbv zeta in H.
    assert (Gc : d_cw d a = c) by (rewrite <- E; apply G; left; reflexivity).
    rewrite Gc in H.
    destruct (is_outer d c) eqn:OC; [discriminate|].
    split; [intros x [<-|[]]; exact OC|].
    cbn [map app]. destruct (c =? a).
    + inversion H; subst. reflexivity.
    + exact H.
  - cbn [length] in H. replace (k + S (length l)) with (S k + length l) in H by lia.
    apply IH in H; [|intros x I; apply G; right; exact I].
    destruct H as (I1 & H).
    apply Nat.eqb_neq in N. rewrite N in H.
    cbn [border_scan] in H. cbv zeta in H.
    assert (Gc : d_cw d (d_ccw d c) = c) by (apply G; left; reflexivity).
    rewrite Gc in H.
    destruct (is_outer d c) eqn:OC; [discriminate|].
    split; [intros x [<-|I]; [exact OC|apply I1; exact I]|].
    cbn [map]. replace ((e_next d c :: map (e_next d) l) ++ acc) with (e_next d c :: map (e_next d) l ++ acc) by reflexivity.
    destruct (c =? a).
    + inversion H; subst. reflexivity.
    + exact H.
Qed.

Lemma filter_all : forall A (p : A -> bool) l, (forall x, In x l -> p x = true) -> filter p l = l.
Proof.
  intros A p l. induction l as [|x t IH]; intros H; cbn [filter]; [reflexivity|].
  rewrite (H x) by (left; reflexivity). f_equal. apply IH. intros y I. apply H. right. exact I.
Qed.

(* THEOREM 3: removal of an interior vertex from a link-level well-formed two-dimensional DCEL:
   vertices -1, undirected edges -3 (directed -6), faces -2 *)
Theorem remove_interior_counts : forall pts fuel d v a bl d' r,
  DWf d -> 1 < Raw.num_faces d ->
  v_out_edge d v = Some a -> border_scan fuel d a a [] = Some (bl, None) ->     (* no out-edge of v is an outer edge *)
  remove_vertex_full pts fuel d v = Some (d', r) ->
  Raw.num_vertices d' + 1 = Raw.num_vertices d /\
  Raw.num_undirected_edges d' + 3 = Raw.num_undirected_edges d /\
  Raw.num_directed_edges d' + 6 = Raw.num_directed_edges d /\
  Raw.num_faces d' + 2 = Raw.num_faces d.
Proof.
  intros pts fuel d v a bl d' r W F A B H.
  pose proof (remove_vertex_full_vertices _ _ _ _ _ _ H) as (V1 & V2 & _).
  split; [exact V1|].
  apply DWf_DW in W.
  unfold remove_vertex_full in H.
  destruct (Raw.num_vertices d <=? v); [discriminate|].
  destruct (Raw.num_faces d <=? 1) eqn:F1; [apply Nat.leb_le in F1; lia|].
  unfold remove_2d in H. rewrite A, B in H.
  destruct (isolate_vertex_and_fill_hole fuel d bl v) as [[d1 iso]|] eqn:I; [|discriminate].
  apply isolate_vertex_and_fill_hole_sizes in I.
  destruct I as (es & OE & I0 & I1 & I2 & I3 & I4 & I5 & I6 & I7).
  destruct (legalize_after_removal pts fuel d1 _ _) as [d2|] eqn:G; [|discriminate].
  apply Keep_legalize_after_removal in G. destruct G as (G1 & G2 & G3 & G4).
  destruct (cleanup_isolated_vertex d2 iso) as [d3|] eqn:C; [|discriminate].
  apply cleanup_isolated_vertex_sizes in C. destruct C as (C1 & C2 & C3 & C4).
  apply swap_remove_vertex_spec in H. destruct H as (_ & _ & _ & H4 & H5 & H6).
  (* the orbit *)
  unfold out_edges in OE. rewrite A in OE.
  apply circ_iter_Orb in OE. destruct OE as (O & Lk).
  assert (Ra : a < length (d_hedges d)) by (eapply (dw_vout_rng d W v); [exact V2|exact A]).
  assert (Rng : forall x, In x es -> x < length (d_hedges d)).
  { apply (Orb_closed (d_ccw d) a (fun x => x < length (d_hedges d))) with (c := a); [|exact O|exact Ra].
    intros x Hx. unfold d_ccw, e_rev. apply dw_rev_lt; [exact W|]. apply dw_prev_lt; assumption. }
  assert (Inv : forall x, In x es -> d_cw d (d_ccw d x) = x).
  { intros x Hx. unfold d_cw, d_ccw, e_rev. rewrite rev_rev. apply dw_next_prev; [exact W|apply Rng; exact Hx]. }
  replace fuel with ((fuel - length es) + length es) in B by lia.
  apply (border_scan_orbit d a a es O Inv) in B. destruct B as (Inn & B).
  rewrite Nat.eqb_refl in B. rewrite app_nil_r in B.
  assert (Lbl : length bl = length es) by (rewrite B; apply map_length).
  assert (Lf : length (iso_faces_to_remove iso) = length es).
  { rewrite I6, filter_all; [apply map_length|].
    intros f Hf. apply in_map_iff in Hf. destruct Hf as (x & <- & Hx).
    apply Inn in Hx. unfold is_outer in Hx. rewrite Hx. reflexivity. }
  pose proof (dw_even d W) as Ev.
  unfold Raw.num_undirected_edges, Raw.num_directed_edges, Raw.num_faces.
  repeat split; lia.
Qed.
Print Assumptions remove_interior_counts.

(* THEOREM 4: removal of a vertex with an outer out-edge (a convex hull vertex): as many undirected edges disappear as the
   disconnected strip is long (>= 1), and at most as many faces *)
Theorem remove_hull_counts : forall pts fuel d v a bl che d' r,
  1 < Raw.num_faces d ->
  v_out_edge d v = Some a -> border_scan fuel d a a [] = Some (bl, Some che) ->
  remove_vertex_full pts fuel d v = Some (d', r) ->
  exists ne nf, 1 <= ne /\ nf <= ne /\
  Raw.num_vertices d' + 1 = Raw.num_vertices d /\
  Raw.num_undirected_edges d' + ne = Raw.num_undirected_edges d /\
  Raw.num_directed_edges d' = Raw.num_directed_edges d - 2 * ne /\
  Raw.num_faces d' + nf = Raw.num_faces d.
Proof.
  intros pts fuel d v a bl che d' r F A B H.
  pose proof (remove_vertex_full_vertices _ _ _ _ _ _ H) as (V1 & V2 & _).
  unfold remove_vertex_full in H.
  destruct (Raw.num_vertices d <=? v); [discriminate|].
  destruct (Raw.num_faces d <=? 1) eqn:F1; [apply Nat.leb_le in F1; lia|].
  unfold remove_2d in H. rewrite A, B in H.
  destruct (isolate_convex_hull_vertex pts fuel d che) as [[d1 iso]|] eqn:I; [|discriminate].
  apply isolate_convex_hull_vertex_sizes in I. destruct I as ((I1 & I2 & I3 & I4) & I5 & I6).
  destruct (cleanup_isolated_vertex d1 iso) as [d2|] eqn:C; [|discriminate].
  apply cleanup_isolated_vertex_sizes in C. destruct C as (C1 & C2 & C3 & C4).
  apply swap_remove_vertex_spec in H. destruct H as (_ & _ & _ & H4 & H5 & H6).
  exists (length (iso_edges_to_remove iso)), (length (iso_faces_to_remove iso)).
  unfold Raw.num_undirected_edges, Raw.num_directed_edges, Raw.num_faces.
  repeat split; try assumption; lia.
Qed.
Print Assumptions remove_hull_counts.

(* THEOREM 5: degenerate states (no inner face): the face table is untouched; one edge less on a chain, none left after
   the removal from a two-vertex state, nothing but the vertex table changes when the last vertex goes *)
Theorem remove_degenerate_counts : forall pts fuel d v d' r,
  Raw.num_faces d <= 1 -> remove_vertex_full pts fuel d v = Some (d', r) ->
  Raw.num_vertices d' + 1 = Raw.num_vertices d /\ Raw.num_faces d' = Raw.num_faces d /\
  (Raw.num_vertices d = 1 -> d_hedges d' = d_hedges d /\ d_flags d' = d_flags d /\ d_faces d' = d_faces d) /\
  (Raw.num_vertices d = 2 -> d_hedges d' = [] /\ d_flags d' = []) /\
  (3 <= Raw.num_vertices d ->
     Raw.num_undirected_edges d' + 1 = Raw.num_undirected_edges d /\
     Raw.num_directed_edges d' = Raw.num_directed_edges d - 2).
Proof.
  intros pts fuel d v d' r F H.
  pose proof (remove_vertex_full_vertices _ _ _ _ _ _ H) as (V1 & V2 & _).
  split; [exact V1|].
  unfold remove_vertex_full in H.
  destruct (Raw.num_vertices d <=? v); [discriminate|].
  apply Nat.leb_le in F. rewrite F in H.
  unfold remove_when_degenerate in H.
  destruct (Raw.num_vertices d) as [|[|[|n]]] eqn:N; [discriminate| | |].
  - apply remove_when_one_vertex_left_spec in H; [|exact N]. destruct H as (_ & _ & H1 & H2 & H3).
    unfold Raw.num_faces. rewrite H2. repeat split; try assumption; try lia.
  - apply remove_when_two_vertices_left_spec in H. destruct H as (_ & _ & H1 & H2 & H3).
    unfold Raw.num_faces. repeat split; try assumption; try lia.
  - apply remove_when_all_vertices_on_line_spec in H. destruct H as (_ & H1 & H2 & H3).
    unfold Raw.num_faces, Raw.num_undirected_edges, Raw.num_directed_edges. repeat split; try assumption; try lia.
Qed.
Print Assumptions remove_degenerate_counts.

(* ---- ConstrainedDelaunayTriangulation::remove: releasing the constraints of the vertex changes no table length and no
   position / payload; then the same core runs ---- *)
Lemma Keep_clear_flag : forall d e, Keep d (clear_flag d e).
Proof.
  intros d e. unfold Keep, clear_flag, vtable. cbn [d_verts d_hedges d_faces d_flags].
  rewrite snth_length. repeat split.
Qed.

Lemma Keep_release_constraints : forall pts fuel k d v d',
  release_constraints pts fuel k d v = Some d' -> Keep d d'.
Proof.
  intros pts fuel k. induction k as [|k IH]; intros d v d' H; cbn [release_constraints] in H; [discriminate|].
  destruct (v_out_edge d v) as [a|]; [|inversion H; subst; apply Keep_refl].
  destruct (find_out_edge fuel d a a (is_flagged d)) as [[e|]|]; [| |discriminate].
  - cbv zeta in H.
    destruct (legalize_edge pts fuel (clear_flag d e) (normalized (as_undirected e)) true) as [[d1 b]|] eqn:L; [|discriminate].
    unfold legalize_edge in L. apply Keep_legalize in L.
    eapply Keep_trans; [apply Keep_clear_flag|]. eapply Keep_trans; [exact L|]. eapply IH; exact H.
  - inversion H; subst. apply Keep_refl.
Qed.

Theorem cdt_remove_vertex_factors : forall pts fuel d v d' r,
  cdt_remove_vertex pts fuel d v = Some (d', r) ->
  exists d0, release_constraints pts fuel fuel d v = Some d0 /\ Keep d d0 /\
             remove_vertex_full pts fuel d0 v = Some (d', r).
Proof.
  intros pts fuel d v d' r H. unfold cdt_remove_vertex in H.
  destruct (Raw.num_vertices d <=? v); [discriminate|].
  destruct (release_constraints pts fuel fuel d v) as [d0|] eqn:R; [|discriminate].
  exists d0. split; [reflexivity|]. split; [eapply Keep_release_constraints; exact R|exact H].
Qed.

Theorem cdt_remove_vertex_vtable : forall pts fuel d v d' r,
  cdt_remove_vertex pts fuel d v = Some (d', r) -> RemovalSpecP d v d' r.
Proof.
  intros pts fuel d v d' r H. apply cdt_remove_vertex_factors in H.
  destruct H as (d0 & _ & K & H). apply remove_vertex_full_vtable in H.
  destruct H as (H1 & H2 & H3). pose proof (Keep_verts_len _ _ K) as L. destruct K as (K1 & _).
  unfold RemovalSpecP. rewrite <- L, <- K1. split; [exact H1|split; [|exact H3]].
  rewrite H2. apply nth_vtable. exact K1.
Qed.
Print Assumptions cdt_remove_vertex_vtable.

(* ---- the (key, payload) view of Vmap/Model.v: the model's vertex table transition IS vm_remove ---- *)
Theorem remove_vertex_vm_remove : forall pts fuel d v d' r (key_of : Z * Z -> key),
  remove_vertex_full pts fuel d v = Some (d', r) ->
  let view := fun t : Z * Z * Z => (key_of (fst (fst t), snd (fst t)), snd t) in
  vm_remove (map view (vtable d)) v = Some (map view (vtable d'), view (vproj r)).
Proof.
  intros pts fuel d v d' r key_of H view. apply remove_vertex_full_vtable in H. destruct H as (H1 & H2 & H3).
  assert (N : nth_error (map view (vtable d)) v = Some (view (vproj r))).
  { rewrite H2. unfold vtable. rewrite map_map.
    rewrite (nth_error_nth' _ (view (vproj dflt_v))) by (rewrite map_length; exact H1).
    f_equal. rewrite (map_nth (fun x => view (vproj x))). reflexivity. }
  rewrite (swap_remove_list_vm_remove _ _ _ N). f_equal. f_equal.
  rewrite H3, map_swap_remove_list.
  apply swap_remove_list_dflt. intros E. apply (f_equal (@length _)) in E.
  unfold vtable in E. rewrite !map_length in E. cbn in E. lia.
Qed.
Print Assumptions remove_vertex_vm_remove.

(* ================================================================================================ *)
(* PART 4.  link-level well-formedness (DWf, Dcel/WfCore.v) and the degenerate-case removals          *)
(* ================================================================================================ *)

(* a link-level well-formed DCEL with a single vertex has no edges *)
Lemma DW_one_vertex_no_edges : forall d, DW d -> length (d_verts d) = 1 -> d_hedges d = [].
Proof.
  intros d W N. destruct (d_hedges d) as [|h t] eqn:E; [reflexivity|exfalso].
  pose proof (dw_even d W) as Ev. rewrite E in Ev. cbn [length] in Ev.
  assert (L0 : 0 < length (d_hedges d)) by (rewrite E; cbn; lia).
  assert (L1 : 1 < length (d_hedges d)) by (rewrite E; cbn [length]; lia).
  destruct (dw_rng d W 0 L0) as (_ & _ & _ & O0).
  destruct (dw_rng d W 1 L1) as (_ & _ & _ & O1).
  destruct (dw_links d W 0 L0) as (_ & _ & _ & _ & Ne).
  change (rev 0) with 1 in Ne. lia.
Qed.

(* THEOREM 6a: removing the last vertex of a well-formed DCEL leaves a well-formed (empty) DCEL *)
Theorem remove_last_vertex_DWf : forall pts fuel d v d' r,
  DWf d -> Raw.num_faces d <= 1 -> Raw.num_vertices d = 1 ->
  remove_vertex_full pts fuel d v = Some (d', r) -> DWf d'.
Proof.
  intros pts fuel d v d' r W F N H. apply DWf_DW in W. apply DWf_DW.
  pose proof (DW_one_vertex_no_edges d W N) as HE.
  unfold remove_vertex_full in H.
  destruct (Raw.num_vertices d <=? v); [discriminate|].
  apply Nat.leb_le in F. rewrite F in H. unfold remove_when_degenerate in H. rewrite N in H.
  apply remove_when_one_vertex_left_spec in H; [|exact N].
  destruct H as (_ & V0 & H1 & H2 & H3).
  assert (HE' : d_hedges d' = []) by congruence.
  assert (Nh : forall e, ~ e < length (d_hedges d')) by (intros e; rewrite HE'; cbn; lia).
  constructor.
  - rewrite H3, HE', <- HE. apply (dw_even d W).
  - rewrite H2. apply (dw_face1 d W).
  - intros e L. destruct (Nh e L).
  - intros w L. lia.
  - intros f L a A. rewrite H2 in L. unfold f_adjacent in A. rewrite H2 in A.
    rewrite HE'. rewrite <- HE. eapply (dw_adj_rng d W f); [exact L|exact A].
  - intros e L. destruct (Nh e L).
  - intros f L. rewrite H2 in L. pose proof (dw_fptr d W f L) as P.
    pose proof (dw_adj_rng d W f L) as Q.
    unfold f_adjacent in *. rewrite H2. destruct (nth f (d_faces d) None) as [e|].
    + exfalso. specialize (Q e eq_refl). rewrite HE in Q. cbn in Q. lia.
    + rewrite HE'. destruct P as (P1 & P2). split; [exact P1|reflexivity].
  - intros w L. lia.
  - intros e L. destruct (Nh e L).
Qed.
Print Assumptions remove_last_vertex_DWf.

(* THEOREM 6b: removal from a two-vertex state leaves a well-formed single-vertex DCEL *)
Theorem remove_two_vertices_left_DWf : forall pts fuel d v d' r,
  DWf d -> Raw.num_faces d <= 1 -> Raw.num_vertices d = 2 ->
  remove_vertex_full pts fuel d v = Some (d', r) -> DWf d'.
Proof.
  intros pts fuel d v d' r W F N H. apply DWf_DW in W. apply DWf_DW.
  pose proof (remove_vertex_full_vertices _ _ _ _ _ _ H) as (V1 & _).
  unfold remove_vertex_full in H.
  destruct (Raw.num_vertices d <=? v); [discriminate|].
  apply Nat.leb_le in F. rewrite F in H. unfold remove_when_degenerate in H. rewrite N in H.
  unfold remove_when_two_vertices_left in H.
  destruct (negb _); [discriminate|]. destruct (Raw.num_vertices d <=? v); [discriminate|].
  inversion H; subst d' r; clear H.
  set (d1 := set_out_edge (set_adjacent_edge (with_verts d (swap_remove_list dflt_v v (d_verts d))) 0 None) 0 None) in *.
  assert (LV : length (d_verts d1) = 1).
  { unfold Raw.num_vertices in V1, N. cbn [with_edges d_verts] in V1.
    revert V1 N. generalize (length (d_verts d1)) (length (d_verts d)). intros; lia. }
  assert (LF : length (d_faces d1) = length (d_faces d)).
  { unfold d1. autorewrite with dcel_frame. reflexivity. }
  assert (F1 : length (d_faces d) = 1).
  { pose proof (dw_face1 d W). apply Nat.leb_le in F. unfold Raw.num_faces in F. lia. }
  assert (VO : v_out_edge (with_edges d1 [] []) 0 = None).
  { unfold v_out_edge, with_edges. cbn [d_verts]. unfold d1.
    change (v_out_edge (set_out_edge (set_adjacent_edge (with_verts d (swap_remove_list dflt_v v (d_verts d))) 0 None) 0 None) 0 = None).
    apply vout_set_out_edge_same. unfold d1 in LV. rewrite len_verts_set_out_edge in LV.
    autorewrite with dcel_frame. autorewrite with dcel_frame in LV. lia. }
  assert (FA : f_adjacent (with_edges d1 [] []) 0 = None).
  { unfold f_adjacent, with_edges. cbn [d_faces]. unfold d1. rewrite faces_set_out_edge.
    change (f_adjacent (set_adjacent_edge (with_verts d (swap_remove_list dflt_v v (d_verts d))) 0 None) 0 = None).
    apply fadj_set_adjacent_edge_same. cbn [with_verts d_faces]. lia. }
  assert (Nh : forall e, ~ e < length (d_hedges (with_edges d1 [] []))) by (intros e; cbn; lia).
  constructor.
  - reflexivity.
  - cbn [with_edges d_faces]. lia.
  - intros e L. destruct (Nh e L).
  - intros w L a A. cbn [with_edges d_verts] in L. assert (w = 0) by lia. subst w. rewrite VO in A. discriminate.
  - intros f L a A. cbn [with_edges d_faces] in L. assert (f = 0) by lia. subst f. rewrite FA in A. discriminate.
  - intros e L. destruct (Nh e L).
  - intros f L. cbn [with_edges d_faces] in L. assert (f = 0) by lia. subst f. rewrite FA. split; reflexivity.
  - intros w L. cbn [with_edges d_verts] in L. assert (w = 0) by lia. subst w. rewrite VO. reflexivity.
  - intros e L. destruct (Nh e L).
Qed.
Print Assumptions remove_two_vertices_left_DWf.

(* THEOREM 6c: link-level well-formedness ALONE is not preserved by the removal from a "collinear" state (3 or more vertices,
   no inner face): DWf has no connectivity / vertex-orbit clause, so two disjoint edges 0-1 and 2-3 are link-level
   well-formed; removing vertex 0 takes remove_when_all_vertices_on_line's end-vertex branch, which points vertex 1 and the
   outer face to `o_next` = the reversed edge of the edge it then deletes.  (On states reachable through the public API
   the chain is connected and o_next is a different edge.)  The statement with DWf as only precondition is therefore false;
   a true statement needs the vertex-orbit and single-outer-orbit clauses of the full Wf (Obs/SpecProp.v). *)
Definition remove_line_cex : dcel :=
  mkdcel [mkv 0 0 0 (Some 0); mkv 1 0 1 (Some 1); mkv 2 0 2 (Some 2); mkv 3 0 3 (Some 3)]
         [mkh 1 1 0 0; mkh 0 0 0 1; mkh 3 3 0 2; mkh 2 2 0 3]
         [Some 0] [false; false].

Theorem remove_line_DWf_counterexample :
  exists d v d' r, DWf d /\ Raw.num_faces d <= 1 /\ 3 <= Raw.num_vertices d /\
    remove_vertex_full [] 10 d v = Some (d', r) /\ ~ DWf d'.
Proof.
  exists remove_line_cex, 0.
  destruct (remove_vertex_full [] 10 remove_line_cex 0) as [[d' r]|] eqn:E; [|vm_compute in E; discriminate].
  exists d', r. split; [|split; [|split; [|split]]].
  - apply wfcore_b_spec. vm_compute. reflexivity.
  - vm_compute. lia.
  - vm_compute. lia.
  - reflexivity.
  - intro H. apply wfcore_b_spec in H. vm_compute in E. inversion E; subst d'. vm_compute in H. discriminate.
Qed.
Print Assumptions remove_line_DWf_counterexample.

(* ================================================================================================ *)
(* PART 5.  the index bookkeeping of swap_remove_undirected_edge / fix_handle_swap is a relabeling    *)
(* ================================================================================================ *)
(* When undirected edge k is removed and k is not the last edge L, the EdgeEntry L moves into slot k and the two
   fix_handle_swap calls redirect every reference.  Provided no surviving half-edge refers to the removed edge and
   next / prev are mutually inverse on the surviving half-edges, the result is the old DCEL with half-edge 2L renamed
   to 2k and 2L+1 to 2k+1 -- in the entries AND in every next / prev field; face and origin fields are carried along,
   the flag moves with the edge, the out_edge / adjacent_edge entries of the moved edge's origins / faces are redirected
   to it, and nothing else changes. *)

Lemma nth_removelast : forall A (l : list A) i d0, i < length l - 1 -> nth i (removelast l) d0 = nth i l d0.
Proof.
  induction l as [|a [|b t] IH]; intros i d0 H; cbn [length] in H; try lia.
  cbn [removelast]. destruct i as [|i]; [reflexivity|].
  cbn [nth]. apply IH. cbn [length]. lia.
Qed.

Lemma div2_eq_iff : forall e k, Nat.div2 e = k <-> e = 2 * k \/ e = 2 * k + 1.
Proof.
  intros e k. destruct (Nat.Even_or_Odd e) as [[q Q]|[q Q]]; subst e.
  - rewrite Nat.div2_double. lia.
  - replace (2 * q + 1) with (S (2 * q)) by lia. rewrite Nat.div2_succ_double. lia.
Qed.

Lemma even_double_b : forall k, Nat.even (2 * k) = true.
Proof. intros k. rewrite Nat.even_mul. reflexivity. Qed.
Lemma even_double1_b : forall k, Nat.even (2 * k + 1) = false.
Proof. intros k. rewrite Nat.add_1_r, Nat.even_succ, <- Nat.negb_even, even_double_b. reflexivity. Qed.

(* FixedDirectedEdgeHandle renaming done by fix_handle_swap's closure old_to_new *)
Definition rho (L k x : nat) : nat :=
  if as_undirected x =? L then (if Nat.even x then normalized k else not_normalized k) else x.
(* its inverse on the new indices *)
Definition sigma (L k j : nat) : nat :=
  if j =? 2 * k then 2 * L else if j =? 2 * k + 1 then 2 * L + 1 else j.

Lemma rho_spec : forall L k x,
  rho L k x = if x =? 2 * L then 2 * k else if x =? 2 * L + 1 then 2 * k + 1 else x.
Proof.
  intros L k x. unfold rho, as_undirected, normalized, not_normalized.
  destruct (Nat.div2 x =? L) eqn:E.
  - apply Nat.eqb_eq in E. apply div2_eq_iff in E. destruct E as [->| ->].
    + rewrite Nat.eqb_refl, even_double_b. reflexivity.
    + rewrite even_double1_b. replace (2 * L + 1 =? 2 * L) with false by (symmetry; apply Nat.eqb_neq; lia).
      rewrite Nat.eqb_refl. reflexivity.
  - apply Nat.eqb_neq in E. rewrite div2_eq_iff in E.
    replace (x =? 2 * L) with false by (symmetry; apply Nat.eqb_neq; lia).
    replace (x =? 2 * L + 1) with false by (symmetry; apply Nat.eqb_neq; lia). reflexivity.
Qed.

(* pointwise reads after the setters *)
Lemma e_next_set_next : forall d a x j,
  e_next (set_next d a x) j = if (a =? j) && (a <? length (d_hedges d)) then x else e_next d j.
Proof.
  intros d a x j. unfold e_next. destruct (a =? j) eqn:E; cbn [andb].
  - apply Nat.eqb_eq in E. subst j. destruct (a <? length (d_hedges d)) eqn:R.
    + apply Nat.ltb_lt in R. apply hnext_set_next_same. exact R.
    + apply Nat.ltb_ge in R. unfold set_next. rewrite half_edge_upd_oob by exact R. reflexivity.
  - apply Nat.eqb_neq in E. apply hnext_set_next_other. exact E.
Qed.

Lemma e_prev_set_prev : forall d a x j,
  e_prev (set_prev d a x) j = if (a =? j) && (a <? length (d_hedges d)) then x else e_prev d j.
Proof.
  intros d a x j. unfold e_prev. destruct (a =? j) eqn:E; cbn [andb].
  - apply Nat.eqb_eq in E. subst j. destruct (a <? length (d_hedges d)) eqn:R.
    + apply Nat.ltb_lt in R. apply hprev_set_prev_same. exact R.
    + apply Nat.ltb_ge in R. unfold set_prev. rewrite half_edge_upd_oob by exact R. reflexivity.
  - apply Nat.eqb_neq in E. apply hprev_set_prev_other. exact E.
Qed.

Lemma v_out_set_out_edge : forall d v o w,
  v_out_edge (set_out_edge d v o) w = if (v =? w) && (v <? length (d_verts d)) then o else v_out_edge d w.
Proof.
  intros d v o w. destruct (v =? w) eqn:E; cbn [andb].
  - apply Nat.eqb_eq in E. subst w. destruct (v <? length (d_verts d)) eqn:R.
    + apply Nat.ltb_lt in R. apply vout_set_out_edge_same. exact R.
    + apply Nat.ltb_ge in R. unfold v_out_edge, set_out_edge. cbn [d_verts]. rewrite snth_oob by exact R. reflexivity.
  - apply Nat.eqb_neq in E. apply vout_set_out_edge_other. exact E.
Qed.

Lemma f_adjacent_set_adjacent_edge : forall d f o g,
  f_adjacent (set_adjacent_edge d f o) g = if (f =? g) && (f <? length (d_faces d)) then o else f_adjacent d g.
Proof.
  intros d f o g. destruct (f =? g) eqn:E; cbn [andb].
  - apply Nat.eqb_eq in E. subst g. destruct (f <? length (d_faces d)) eqn:R.
    + apply Nat.ltb_lt in R. apply fadj_set_adjacent_edge_same. exact R.
    + apply Nat.ltb_ge in R. unfold f_adjacent, set_adjacent_edge. cbn [d_faces]. rewrite snth_oob by exact R. reflexivity.
  - apply Nat.eqb_neq in E. apply fadj_set_adjacent_edge_other. exact E.
Qed.

(* one fix_handle_swap call, read pointwise *)
Lemma fix_handle_swap_reads : forall s h,
  let L := Raw.num_undirected_edges s in
  let k := as_undirected h in
  let en := rho L k (e_next s h) in
  let ep := rho L k (e_prev s h) in
  let s' := fix_handle_swap s h in
  (forall j, e_next s' j = if (ep =? j) && (ep <? length (d_hedges s)) then h else e_next s j) /\
  (forall j, e_prev s' j = if (en =? j) && (en <? length (d_hedges s)) then h else e_prev s j) /\
  (forall j, e_face s' j = e_face s j) /\ (forall j, e_origin s' j = e_origin s j) /\
  (forall w, v_out_edge s' w = if (e_origin s h =? w) && (e_origin s h <? length (d_verts s)) then Some h else v_out_edge s w) /\
  (forall f, f_adjacent s' f = if (e_face s h =? f) && (e_face s h <? length (d_faces s)) then Some h else f_adjacent s f) /\
  length (d_hedges s') = length (d_hedges s) /\ d_flags s' = d_flags s /\
  length (d_verts s') = length (d_verts s) /\ length (d_faces s') = length (d_faces s).
Proof.
  intros s h L k en ep s'.
  assert (S' : s' = set_adjacent_edge (set_out_edge (set_prev (set_next s ep h) en h) (e_origin s h) (Some h)) (e_face s h) (Some h)).
  { unfold s', fix_handle_swap. cbv zeta. fold L. fold k. unfold rho in en, ep. fold en. fold ep.
    unfold e_origin, e_face. rewrite !horg_set_prev, !horg_set_next, !hface_set_prev, !hface_set_next. reflexivity. }
  rewrite S'. clear S'.
  split; [|split; [|split; [|split; [|split; [|split; [|split; [|split; [|split]]]]]]]].
  - intros j. unfold e_next. rewrite half_edge_set_adjacent_edge, half_edge_set_out_edge, hnext_set_prev.
    apply e_next_set_next.
  - intros j. unfold e_prev at 1. rewrite half_edge_set_adjacent_edge, half_edge_set_out_edge.
    fold (e_prev (set_prev (set_next s ep h) en h) j). rewrite e_prev_set_prev, len_hedges_set_next.
    unfold e_prev. rewrite hprev_set_next. reflexivity.
  - intros j. unfold e_face. rewrite half_edge_set_adjacent_edge, half_edge_set_out_edge, hface_set_prev, hface_set_next. reflexivity.
  - intros j. unfold e_origin. rewrite half_edge_set_adjacent_edge, half_edge_set_out_edge, horg_set_prev, horg_set_next. reflexivity.
  - intros w. unfold v_out_edge at 1. rewrite verts_set_adjacent_edge.
    fold (v_out_edge (set_out_edge (set_prev (set_next s ep h) en h) (e_origin s h) (Some h)) w).
    rewrite v_out_set_out_edge. autorewrite with dcel_frame. unfold v_out_edge. autorewrite with dcel_frame. reflexivity.
  - intros f. rewrite f_adjacent_set_adjacent_edge. autorewrite with dcel_frame.
    unfold f_adjacent. autorewrite with dcel_frame. reflexivity.
  - autorewrite with dcel_frame. reflexivity.
  - autorewrite with dcel_frame. reflexivity.
  - autorewrite with dcel_frame. reflexivity.
  - autorewrite with dcel_frame. reflexivity.
Qed.

Ltac eqb_cases :=
  repeat match goal with
  | |- context [?a =? ?b] => destruct (Nat.eqb_spec a b)
  | H : context [?a =? ?b] |- _ => destruct (Nat.eqb_spec a b)
  end.

Lemma rho_live : forall L k x, k < L -> x < 2 * L + 2 -> x <> 2 * k -> x <> 2 * k + 1 ->
  rho L k x < 2 * L /\ sigma L k (rho L k x) = x.
Proof. intros L k x HK H1 H2 H3. rewrite rho_spec. unfold sigma. eqb_cases; lia. Qed.

Lemma rho_sigma : forall L k j, k < L -> j < 2 * L ->
  rho L k (sigma L k j) = j /\ sigma L k j < 2 * L + 2 /\ sigma L k j <> 2 * k /\ sigma L k j <> 2 * k + 1.
Proof. intros L k j HK H1. rewrite rho_spec. unfold sigma. eqb_cases; lia. Qed.

Lemma rho_id : forall L k x, x <> 2 * L -> x <> 2 * L + 1 -> rho L k x = x.
Proof. intros L k x H1 H2. rewrite rho_spec. eqb_cases; lia. Qed.

Lemma swap_remove_list_nth : forall A (dflt : A) l M i j, length l = S M -> i < M -> j < M ->
  nth j (swap_remove_list dflt i l) dflt = nth (if j =? i then M else j) l dflt.
Proof.
  intros A dflt l M i j HL Hi Hj. unfold swap_remove_list. rewrite HL.
  replace (S M - 1) with M by lia.
  destruct (Nat.eqb_spec i M); [lia|].
  destruct (Nat.eqb_spec j i) as [->|N].
  - apply nth_snth_same. rewrite removelast_len. lia.
  - rewrite nth_snth_other by congruence. apply nth_removelast. lia.
Qed.

Lemma swap_remove_pair_nth : forall A (dflt : A) l L k j, length l = 2 * L + 2 -> k < L -> j < 2 * L ->
  nth j (swap_remove_list dflt (2 * k) (swap_remove_list dflt (2 * k + 1) l)) dflt = nth (sigma L k j) l dflt.
Proof.
  intros A dflt l L k j HL HK Hj.
  rewrite (swap_remove_list_nth A dflt _ (2 * L)); [| rewrite swap_remove_list_length; lia | lia | lia].
  rewrite (swap_remove_list_nth A dflt l (2 * L + 1)); [| lia | lia | eqb_cases; lia].
  unfold sigma. f_equal. eqb_cases; lia.
Qed.

Theorem swap_remove_undirected_edge_relabels : forall d k L,
  Raw.num_undirected_edges d = S L -> length (d_hedges d) = 2 * L + 2 -> k < L ->
  (forall e, e < 2 * L + 2 -> e <> 2 * k -> e <> 2 * k + 1 ->
      e_next d e < 2 * L + 2 /\ e_next d e <> 2 * k /\ e_next d e <> 2 * k + 1 /\
      e_prev d e < 2 * L + 2 /\ e_prev d e <> 2 * k /\ e_prev d e <> 2 * k + 1 /\
      e_prev d (e_next d e) = e /\ e_next d (e_prev d e) = e) ->
  exists d', swap_remove_undirected_edge d k = Some d' /\
    length (d_hedges d') = 2 * L /\ length (d_flags d') = L /\
    length (d_verts d') = length (d_verts d) /\ length (d_faces d') = length (d_faces d) /\
    (forall j, j < 2 * L ->
        e_next d' j = rho L k (e_next d (sigma L k j)) /\ e_prev d' j = rho L k (e_prev d (sigma L k j)) /\
        e_face d' j = e_face d (sigma L k j) /\ e_origin d' j = e_origin d (sigma L k j)) /\
    (forall u, u < L -> nth u (d_flags d') false = nth (if u =? k then L else u) (d_flags d) false) /\
    (forall w, v_out_edge d' w =
        if (e_origin d (2 * L) =? w) && (e_origin d (2 * L) <? length (d_verts d)) then Some (2 * k)
        else if (e_origin d (2 * L + 1) =? w) && (e_origin d (2 * L + 1) <? length (d_verts d)) then Some (2 * k + 1)
        else v_out_edge d w) /\
    (forall f, f_adjacent d' f =
        if (e_face d (2 * L) =? f) && (e_face d (2 * L) <? length (d_faces d)) then Some (2 * k)
        else if (e_face d (2 * L + 1) =? f) && (e_face d (2 * L + 1) <? length (d_faces d)) then Some (2 * k + 1)
        else f_adjacent d f).
Proof.
  intros d k L HN HH HK HL.
  unfold swap_remove_undirected_edge. rewrite HN.
  destruct (Nat.leb_spec (S L) k); [lia|].
  set (d1 := swap_remove_edge_tables d k).
  assert (F1 : length (d_hedges d1) = 2 * L).
  { unfold d1, swap_remove_edge_tables, with_edges. cbn [d_hedges]. rewrite !swap_remove_list_length. lia. }
  assert (F2 : length (d_flags d1) = L).
  { unfold d1, swap_remove_edge_tables, with_edges. cbn [d_flags]. rewrite swap_remove_list_length.
    unfold Raw.num_undirected_edges in HN. lia. }
  assert (F3 : forall j, j < 2 * L -> half_edge d1 j = half_edge d (sigma L k j)).
  { intros j Hj. unfold half_edge, d1, swap_remove_edge_tables, with_edges. cbn [d_hedges].
    apply swap_remove_pair_nth; assumption. }
  assert (F4 : forall u, u < L -> nth u (d_flags d1) false = nth (if u =? k then L else u) (d_flags d) false).
  { intros u Hu. unfold d1, swap_remove_edge_tables, with_edges. cbn [d_flags].
    apply swap_remove_list_nth; [exact HN|exact HK|exact Hu]. }
  assert (F5 : d_verts d1 = d_verts d) by reflexivity.
  assert (F6 : d_faces d1 = d_faces d) by reflexivity.
  assert (N1 : Raw.num_undirected_edges d1 = L) by exact F2.
  rewrite N1. destruct (Nat.ltb_spec k L); [|lia].
  unfold normalized, e_rev. rewrite rev_even.
  (* the moved half-edges *)
  assert (SA : sigma L k (2 * k) = 2 * L) by (unfold sigma; eqb_cases; lia).
  assert (SB : sigma L k (2 * k + 1) = 2 * L + 1) by (unfold sigma; eqb_cases; lia).
  destruct (HL (2 * L)) as (A1 & A2 & A3 & A4 & A5 & A6 & A7 & A8); [lia|lia|lia|].
  destruct (HL (2 * L + 1)) as (B1 & B2 & B3 & B4 & B5 & B6 & B7 & B8); [lia|lia|lia|].
  (* first call *)
  pose proof (fix_handle_swap_reads d1 (2 * k + 1)) as R1. cbv zeta in R1.
  rewrite N1 in R1.
  assert (U1 : as_undirected (2 * k + 1) = k) by (unfold as_undirected; apply div2_eq_iff; lia).
  rewrite U1 in R1.
  assert (X1 : e_next d1 (2 * k + 1) = e_next d (2 * L + 1)) by (unfold e_next; rewrite F3 by lia; rewrite SB; reflexivity).
  assert (Y1 : e_prev d1 (2 * k + 1) = e_prev d (2 * L + 1)) by (unfold e_prev; rewrite F3 by lia; rewrite SB; reflexivity).
  assert (O1 : e_origin d1 (2 * k + 1) = e_origin d (2 * L + 1)) by (unfold e_origin; rewrite F3 by lia; rewrite SB; reflexivity).
  assert (G1 : e_face d1 (2 * k + 1) = e_face d (2 * L + 1)) by (unfold e_face; rewrite F3 by lia; rewrite SB; reflexivity).
  rewrite X1, Y1, O1, G1, F1, F5, F6 in R1.
  set (s2 := fix_handle_swap d1 (2 * k + 1)) in *.
  destruct R1 as (Rn & Rp & Rf & Ro & Rv & Ra & Rl & Rg & Rlv & Rlf).
  (* second call *)
  pose proof (fix_handle_swap_reads s2 (2 * k)) as R2. cbv zeta in R2.
  assert (N2 : Raw.num_undirected_edges s2 = L) by (unfold Raw.num_undirected_edges; rewrite Rg; exact F2).
  assert (U2 : as_undirected (2 * k) = k) by (unfold as_undirected; apply div2_eq_iff; lia).
  rewrite N2, U2, Rl, Rlv, Rlf in R2.
  set (d' := fix_handle_swap s2 (2 * k)) in *.
  destruct R2 as (Qn & Qp & Qf & Qo & Qv & Qa & Ql & Qg & Qlv & Qlf).
  set (nA := e_next d (2 * L)) in *. set (pA := e_prev d (2 * L)) in *.
  set (nB := e_next d (2 * L + 1)) in *. set (pB := e_prev d (2 * L + 1)) in *.
  (* the values read by the second call are the renamed old links of half-edge 2L *)
  assert (EP0 : rho L k (e_prev s2 (2 * k)) = rho L k pA).
  { rewrite Rp. destruct (Nat.eqb_spec (rho L k nB) (2 * k)) as [E|E]; cbn [andb].
    - destruct (Nat.ltb_spec (rho L k nB) (2 * L)); [|lia].
      assert (nB = 2 * L) by (revert E; rewrite rho_spec; eqb_cases; lia).
      assert (pA = 2 * L + 1) by (unfold pA; rewrite <- B7; f_equal; symmetry; exact H2).
      rewrite H3. rewrite !rho_spec. eqb_cases; lia.
    - unfold e_prev. rewrite F3 by lia. rewrite SA. reflexivity. }
  assert (EN0 : rho L k (e_next s2 (2 * k)) = rho L k nA).
  { rewrite Rn. destruct (Nat.eqb_spec (rho L k pB) (2 * k)) as [E|E]; cbn [andb].
    - destruct (Nat.ltb_spec (rho L k pB) (2 * L)); [|lia].
      assert (pB = 2 * L) by (revert E; rewrite rho_spec; eqb_cases; lia).
      assert (nA = 2 * L + 1) by (unfold nA; rewrite <- B8; f_equal; symmetry; exact H2).
      rewrite H3. rewrite !rho_spec. eqb_cases; lia.
    - unfold e_next. rewrite F3 by lia. rewrite SA. reflexivity. }
  assert (O2 : e_origin s2 (2 * k) = e_origin d (2 * L)) by (rewrite Ro; unfold e_origin; rewrite F3 by lia; rewrite SA; reflexivity).
  assert (G2 : e_face s2 (2 * k) = e_face d (2 * L)) by (rewrite Rf; unfold e_face; rewrite F3 by lia; rewrite SA; reflexivity).
  rewrite EP0, EN0, O2, G2 in *.
  exists d'. split; [reflexivity|].
  split; [lia|]. split; [rewrite Qg, Rg; exact F2|].
  split; [lia|]. split; [lia|].
  split; [|split; [|split]].
  - intros j Hj.
    destruct (rho_sigma L k j HK Hj) as (RS & S1 & S2 & S3).
    destruct (HL (sigma L k j) S1 S2 S3) as (E1 & E2 & E3 & E4 & E5 & E6 & E7 & E8).
    destruct (rho_live L k pA HK A4 A5 A6) as (PA1 & PA2).
    destruct (rho_live L k pB HK B4 B5 B6) as (PB1 & PB2).
    destruct (rho_live L k nA HK A1 A2 A3) as (NA1 & NA2).
    destruct (rho_live L k nB HK B1 B2 B3) as (NB1 & NB2).
    split; [|split; [|split]].
    + rewrite Qn, Rn.
      destruct (Nat.eqb_spec (rho L k pA) j) as [E|E]; cbn [andb].
      * destruct (Nat.ltb_spec (rho L k pA) (2 * L)); [|lia].
        assert (sigma L k j = pA) by (rewrite <- E; exact PA2).
        rewrite H2. rewrite A8. rewrite rho_spec. eqb_cases; lia.
      * destruct (Nat.eqb_spec (rho L k pB) j) as [E'|E']; cbn [andb].
        -- destruct (Nat.ltb_spec (rho L k pB) (2 * L)); [|lia].
           assert (sigma L k j = pB) by (rewrite <- E'; exact PB2).
           rewrite H2. rewrite B8. rewrite rho_spec. eqb_cases; lia.
        -- unfold e_next at 1. rewrite F3 by exact Hj. fold (e_next d (sigma L k j)).
           symmetry. apply rho_id.
           ++ intro X. apply E. rewrite <- RS. f_equal. unfold pA. rewrite <- X. exact E7.
           ++ intro X. apply E'. rewrite <- RS. f_equal. unfold pB. rewrite <- X. exact E7.
    + rewrite Qp, Rp.
      destruct (Nat.eqb_spec (rho L k nA) j) as [E|E]; cbn [andb].
      * destruct (Nat.ltb_spec (rho L k nA) (2 * L)); [|lia].
        assert (sigma L k j = nA) by (rewrite <- E; exact NA2).
        rewrite H2. rewrite A7. rewrite rho_spec. eqb_cases; lia.
      * destruct (Nat.eqb_spec (rho L k nB) j) as [E'|E']; cbn [andb].
        -- destruct (Nat.ltb_spec (rho L k nB) (2 * L)); [|lia].
           assert (sigma L k j = nB) by (rewrite <- E'; exact NB2).
           rewrite H2. rewrite B7. rewrite rho_spec. eqb_cases; lia.
        -- unfold e_prev at 1. rewrite F3 by exact Hj. fold (e_prev d (sigma L k j)).
           symmetry. apply rho_id.
           ++ intro X. apply E. rewrite <- RS. f_equal. unfold nA. rewrite <- X. exact E8.
           ++ intro X. apply E'. rewrite <- RS. f_equal. unfold nB. rewrite <- X. exact E8.
    + rewrite Qf, Rf. unfold e_face. rewrite F3 by exact Hj. reflexivity.
    + rewrite Qo, Ro. unfold e_origin. rewrite F3 by exact Hj. reflexivity.
  - intros u Hu. rewrite Qg, Rg. apply F4. exact Hu.
  - intros w. rewrite Qv, Rv. unfold v_out_edge. rewrite F5. reflexivity.
  - intros f. rewrite Qa, Ra. unfold f_adjacent. rewrite F6. reflexivity.
Qed.
Print Assumptions swap_remove_undirected_edge_relabels.

(* ---- swap_remove_vertex: the last vertex moves into slot v and every half-edge leaving it is re-labelled ---- *)
Lemma e_origin_set_origin : forall d a x j,
  e_origin (set_origin d a x) j = if (a =? j) && (a <? length (d_hedges d)) then x else e_origin d j.
Proof.
  intros d a x j. unfold e_origin. destruct (a =? j) eqn:E; cbn [andb].
  - apply Nat.eqb_eq in E. subst j. destruct (a <? length (d_hedges d)) eqn:R.
    + apply Nat.ltb_lt in R. apply horg_set_origin_same. exact R.
    + apply Nat.ltb_ge in R. unfold set_origin. rewrite half_edge_upd_oob by exact R. reflexivity.
  - apply Nat.eqb_neq in E. apply horg_set_origin_other. exact E.
Qed.

Lemma fold_set_origin_reads : forall es d v,
  let d' := fold_left (fun d e => set_origin d e v) es d in
  (forall j, e_origin d' j = if memb j es && (j <? length (d_hedges d)) then v else e_origin d j) /\
  (forall j, e_next d' j = e_next d j) /\ (forall j, e_prev d' j = e_prev d j) /\ (forall j, e_face d' j = e_face d j) /\
  length (d_hedges d') = length (d_hedges d) /\ d_verts d' = d_verts d /\ d_faces d' = d_faces d /\ d_flags d' = d_flags d.
Proof.
  induction es as [|e t IH]; intros d v; cbn [fold_left].
  - cbn. repeat split.
  - specialize (IH (set_origin d e v) v). cbv zeta in IH.
    destruct IH as (I1 & I2 & I3 & I4 & I5 & I6 & I7 & I8).
    split; [|split; [|split; [|split; [|split; [|split; [|split]]]]]].
    + intros j. rewrite I1, len_hedges_set_origin, e_origin_set_origin.
      unfold memb. cbn [existsb]. fold (memb j t).
      rewrite (Nat.eqb_sym j e).
      destruct (memb j t); destruct (e =? j) eqn:E; cbn [orb andb]; try reflexivity;
        apply Nat.eqb_eq in E; subst j; destruct (e <? length (d_hedges d)); reflexivity.
    + intros j. rewrite I2. unfold e_next. apply hnext_set_origin.
    + intros j. rewrite I3. unfold e_prev. apply hprev_set_origin.
    + intros j. rewrite I4. unfold e_face. unfold set_origin.
      destruct (Nat.eq_dec e j) as [->|N].
      * destruct (lt_dec j (length (d_hedges d))) as [R|R].
        -- rewrite half_edge_upd_same by exact R. reflexivity.
        -- rewrite half_edge_upd_oob by lia. reflexivity.
      * rewrite half_edge_upd_other by exact N. reflexivity.
    + rewrite I5. apply len_hedges_set_origin.
    + rewrite I6. apply verts_set_origin.
    + rewrite I7. apply faces_set_origin.
    + rewrite I8. apply flags_set_origin.
Qed.

Lemma memb_In : forall x l, memb x l = true <-> In x l.
Proof.
  intros x l. unfold memb. rewrite existsb_exists. split.
  - intros (y & I & E). apply Nat.eqb_eq in E. subst. exact I.
  - intros I. exists x. split; [exact I|apply Nat.eqb_refl].
Qed.

(* THEOREM 8: swap_remove_vertex is Vec::swap_remove on the vertex table plus the renaming last -> v of the origin fields,
   provided the half-edges leaving the last vertex are exactly the counterclockwise orbit of its out_edge *)
Theorem swap_remove_vertex_relabels : forall fuel d v a,
  let last := Raw.num_vertices d - 1 in
  let nH := length (d_hedges d) in
  v < last ->
  v_out_edge d last = Some a -> a < nH -> e_origin d a = last ->
  (forall e, e < nH -> e_prev d e < nH /\ e_next d (e_prev d e) = e /\ e_origin d (e_next d e) = e_origin d (rev e)) ->
  (forall e, e < nH -> rev e < nH) ->
  forall es, circ_iter (d_ccw d) fuel a a = Some es ->
  (forall e, e < nH -> e_origin d e = last -> In e es) ->
  exists d' r, swap_remove_vertex fuel d v = Some (d', r) /\ r = nth v (d_verts d) dflt_v /\
    d_verts d' = swap_remove_list dflt_v v (d_verts d) /\
    length (d_hedges d') = nH /\ d_faces d' = d_faces d /\ d_flags d' = d_flags d /\
    (forall e, e < nH ->
       e_origin d' e = (if e_origin d e =? last then v else e_origin d e) /\
       e_next d' e = e_next d e /\ e_prev d' e = e_prev d e /\ e_face d' e = e_face d e).
Proof.
  intros fuel d v a last nH Hv HA Ha Hoa HL HR es HE HC.
  unfold swap_remove_vertex.
  assert (NV : Raw.num_vertices d = S last) by (unfold last; lia).
  destruct (Nat.leb_spec (Raw.num_vertices d) v); [lia|].
  set (d1 := with_verts d (swap_remove_list dflt_v v (d_verts d))).
  assert (L1 : Raw.num_vertices d1 = last).
  { unfold Raw.num_vertices, d1, with_verts. cbn [d_verts]. rewrite swap_remove_list_length.
    unfold Raw.num_vertices in NV. lia. }
  rewrite L1. destruct (Nat.eqb_spec last v); [lia|]. cbn [negb].
  assert (VO : v_out_edge d1 v = Some a).
  { unfold v_out_edge, d1, with_verts. cbn [d_verts].
    rewrite (swap_remove_list_nth _ dflt_v (d_verts d) last v v); [|exact NV|exact Hv|exact Hv].
    rewrite Nat.eqb_refl. exact HA. }
  unfold out_edges. rewrite VO.
  assert (CC : forall x, d_ccw d1 x = d_ccw d x) by reflexivity.
  assert (CI : circ_iter (d_ccw d1) fuel a a = Some es) by exact HE.
  rewrite CI.
  destruct (fold_set_origin_reads es d1 v) as (I1 & I2 & I3 & I4 & I5 & I6 & I7 & I8).
  exists (fold_left (fun d e => set_origin d e v) es d1), (nth v (d_verts d) dflt_v).
  split; [reflexivity|]. split; [reflexivity|].
  split; [rewrite I6; reflexivity|]. split; [rewrite I5; reflexivity|].
  split; [rewrite I7; reflexivity|]. split; [rewrite I8; reflexivity|].
  (* every element of the orbit is a half-edge in range whose origin is the last vertex *)
  apply circ_iter_Orb in HE. destruct HE as (O & _).
  assert (OP : forall x, In x es -> x < nH /\ e_origin d x = last).
  { apply (Orb_closed (d_ccw d) a (fun x => x < nH /\ e_origin d x = last)) with (c := a); [|exact O|split; assumption].
    intros x (X1 & X2). destruct (HL x X1) as (P1 & P2 & _). destruct (HL (e_prev d x) P1) as (_ & _ & P3).
    unfold d_ccw, e_rev. split; [apply HR; exact P1|]. rewrite <- P3, P2. exact X2. }
  intros e He. split; [|split; [|split]].
  - rewrite I1. change (length (d_hedges d1)) with nH. change (e_origin d1 e) with (e_origin d e).
    destruct (Nat.ltb_spec e nH); [|lia]. rewrite andb_true_r.
    destruct (memb e es) eqn:M.
    + apply memb_In in M. destruct (OP e M) as (_ & Q). rewrite Q, Nat.eqb_refl. reflexivity.
    + destruct (Nat.eqb_spec (e_origin d e) last) as [Q|Q]; [|reflexivity].
      exfalso. specialize (HC e He Q). apply memb_In in HC. congruence.
  - rewrite I2. reflexivity.
  - rewrite I3. reflexivity.
  - rewrite I4. reflexivity.
Qed.
Print Assumptions swap_remove_vertex_relabels.
