(* Tri/RemoveWfCdtProofs.v -- the Lawson loop (Tri/Legalize.v, model of legalize_edge), remove_constraint_edge and the release of
   constraints of ConstrainedDelaunayTriangulation::remove keep link-level well-formedness and the vertex-orbit clause -- WITHOUT any
   geometric hypothesis: an edge is flipped only if both faces are inner and the in-circle test is positive, and the in-circle determinant of
   a repeated point is 0, so the two apexes of a flipped edge are different vertices (the precondition of flip_cw_wf_partial).
   Composition with Tri/RemoveWfOrbitProofs.v: cdt_remove_interior_DWf. *)
From Coq Require Import ZArith List Bool Arith Lia.
From SpadeV Require Import Geom.Pred Obs.State Vmap.Model Dcel.Raw Dcel.WfCore Gen.DcelOps Dcel.ProofsFlip Dcel.WfLive
  Dcel.WfLiveFlip Dcel.WfLiveOrbit Dcel.WfLiveFlipOrbit Query.Hull Tri.Legalize Tri.Insert Tri.Remove Tri.RemoveProofs
  Tri.RemoveWfProofs Tri.RemoveWfOrbitProofs.
Import ListNotations.

Lemma incircle_first_last : forall a b c : pnt, incircle a b c a = 0%Z.
Proof. intros a b c. unfold incircle. ring. Qed.

Lemma undirected_cases : forall e, (e = 2 * as_undirected e /\ rev e = 2 * as_undirected e + 1) \/
                                   (e = 2 * as_undirected e + 1 /\ rev e = 2 * as_undirected e).
Proof.
  intros e. unfold as_undirected. destruct (rev_cases e) as (k & [(E & R)|(E & R)]); rewrite R; rewrite E at 1 3.
  - left. rewrite E, Nat.div2_double. split; reflexivity.
  - right. rewrite E. replace (2 * k + 1) with (S (2 * k)) by lia. rewrite Nat.div2_succ_double. split; lia.
Qed.

Section LegalizeLive.
Variable pts : list pnt.
Variables LE LF LV : nat -> Prop.

Lemma legalize_DWX_Conn : forall fuel fully d stack b d' b',
  DWX d LE LF LV -> (forall w, Conn d LE w) -> (forall e, In e stack -> LE e) ->
  legalize pts fuel fully d stack b = Some (d', b') ->
  DWX d' LE LF LV /\ (forall w, Conn d' LE w).
Proof.
  induction fuel as [|fuel IH]; intros fully d stack b d' b' X C SO H; cbn [legalize] in H; [discriminate|].
  destruct stack as [|e rest]; [inversion H; subst; split; assumption|].
  assert (SOr : forall x, In x rest -> LE x) by (intros x Hx; apply SO; right; exact Hx).
  destruct (is_flagged d e); [apply (IH _ _ _ _ _ _ X C SOr H)|].
  destruct ((e_face d e =? 0) || (e_face d (e_rev e) =? 0)) eqn:Fz; [apply (IH _ _ _ _ _ _ X C SOr H)|].
  apply orb_false_iff in Fz. destruct Fz as (F0 & F1). apply Nat.eqb_neq in F0, F1. unfold e_rev in F1.
  destruct (should_flip pts d e) eqn:SF; [|apply (IH _ _ _ _ _ _ X C SOr H)].
  assert (Le : LE e) by (apply SO; left; reflexivity).
  unfold DWX in X.
  assert (Lr : LE (rev e)) by (apply (wl_LE_rev _ _ _ _ _ _ X); exact Le).
  assert (Apex : e_origin d (e_prev d e) <> e_origin d (e_prev d (rev e))).
  { intros E. unfold should_flip, apex, e_rev in SF. rewrite <- E in SF. rewrite incircle_first_last in SF. discriminate. }
  set (k := as_undirected e) in *.
  assert (FL : DWX (fst (flip_cw d k)) LE LF LV /\ (forall w, Conn (fst (flip_cw d k)) LE w)).
  { destruct (undirected_cases e) as [(E1 & E2)|(E1 & E2)]; fold k in E1, E2.
    - rewrite E2 in F1, Apex. rewrite E1 in Le, F0, Apex.
      split; [apply (flip_cw_DWX d k LE LF LV X Le F0 F1 Apex)|apply (flip_cw_Conn d k LE LF LV X Le F0 F1 Apex C)].
    - rewrite E2 in Lr, F1, Apex. rewrite E1 in F0, Apex.
      assert (Apex' : e_origin d (e_prev d (2 * k)) <> e_origin d (e_prev d (2 * k + 1))) by (intros Q; apply Apex; symmetry; exact Q).
      split; [apply (flip_cw_DWX d k LE LF LV X Lr F1 F0 Apex')|apply (flip_cw_Conn d k LE LF LV X Lr F1 F0 Apex' C)]. }
  destruct FL as (X' & C').
  apply (IH _ _ _ _ _ _ X' C') in H; [exact H|].
  intros x Hx. apply in_app_or in Hx. destruct Hx as [Hx|Hx]; [|apply SOr; exact Hx].
  apply in_app_or in Hx. destruct Hx as [Hx|Hx].
  - destruct fully; [|destruct Hx]. destruct Hx as [<-|[<-|[]]]; [apply (wl_CE_prev _ _ _ _ _ _ X); exact Le|apply (wl_CE_next _ _ _ _ _ _ X); exact Le].
  - destruct Hx as [<-|[<-|[]]]; [apply (wl_CE_prev _ _ _ _ _ _ X); exact Lr|apply (wl_CE_next _ _ _ _ _ _ X); exact Lr].
Qed.
End LegalizeLive.

(* on a whole dcel *)
Theorem legalize_DW_Conn : forall pts fuel fully d stack b d' b',
  DW d -> (forall w, Conn d (all_he d) w) -> (forall e, In e stack -> e < length (d_hedges d)) ->
  legalize pts fuel fully d stack b = Some (d', b') ->
  DW d' /\ (forall w, Conn d' (all_he d') w).
Proof.
  intros pts fuel fully d stack b d' b' W C SO H.
  pose proof (Keep_legalize _ _ _ _ _ _ _ _ H) as (K1 & K2 & K3 & K4).
  destruct (legalize_DWX_Conn pts _ _ _ fuel fully d stack b d' b' (DW_DWX_full d W) C SO H) as (X' & C').
  split.
  - apply (DWX_full_DW d' _ _ _ X'); unfold all_he, all_f, all_v; intros x Hx; [rewrite <- K2|rewrite <- K3|rewrite <- (vtable_len _ _ K1)]; exact Hx.
  - intros w. apply (Conn_ext d' (all_he d)); [intros e; unfold all_he; rewrite K2; reflexivity|apply C'].
Qed.

Lemma clear_flag_DW_Conn : forall d e, DW d -> (forall w, Conn d (all_he d) w) ->
  DW (clear_flag d e) /\ (forall w, Conn (clear_flag d e) (all_he (clear_flag d e)) w).
Proof.
  intros d e W C. split.
  - destruct W as [E F1 R V A L F VP T]. constructor; try assumption.
    unfold clear_flag. cbn [d_flags d_hedges]. rewrite snth_length. exact E.
  - exact C.
Qed.

(* remove_constraint_edge (src/cdt.rs) *)
Theorem remove_constraint_edge_DWf : forall pts fuel d u d' b,
  DWf d -> (forall w, Conn d (all_he d) w) -> u < Raw.num_undirected_edges d ->
  remove_constraint_edge pts fuel d u = Some (d', b) ->
  DWf d' /\ (forall w, Conn d' (all_he d') w).
Proof.
  intros pts fuel d u d' b Wf C Hu H. apply DWf_DW in Wf. unfold remove_constraint_edge in H.
  destruct (is_flagged d (normalized u)).
  - destruct (legalize_edge pts fuel (clear_flag d (normalized u)) (normalized u) true) as [[d1 b1]|] eqn:L; [|discriminate].
    inversion H; subst d1 b; clear H.
    destruct (clear_flag_DW_Conn d (normalized u) Wf C) as (W1 & C1).
    unfold legalize_edge in L.
    assert (SO : forall e, In e [normalized u] -> e < length (d_hedges (clear_flag d (normalized u)))).
    { intros e [<-|[]]. unfold clear_flag, normalized. cbn [d_hedges]. apply (dw_double_lt d Wf u Hu). }
    destruct (legalize_DW_Conn pts fuel true _ _ _ d' b1 W1 C1 SO L) as (W' & C').
    split; [apply DWf_DW; exact W'|exact C'].
  - inversion H; subst d' b. split; [apply DWf_DW; exact Wf|exact C].
Qed.

(* the release loop of ConstrainedDelaunayTriangulation::remove *)
Lemma find_out_edge_lt : forall k d cur final p e, DW d -> cur < length (d_hedges d) ->
  find_out_edge k d cur final p = Some (Some e) -> e < length (d_hedges d).
Proof.
  induction k as [|k IH]; intros d cur final p e W Hc H; cbn [find_out_edge] in H; [discriminate|].
  destruct (p cur); [inversion H; subst; exact Hc|].
  destruct (d_ccw d cur =? final); [discriminate|].
  apply (IH d (d_ccw d cur) final p e W); [|exact H]. unfold d_ccw, e_rev. apply dw_rev_lt; [exact W|]. apply dw_prev_lt; assumption.
Qed.

Theorem release_constraints_DWf : forall pts fuel k d v d0,
  DWf d -> (forall w, Conn d (all_he d) w) -> v < Raw.num_vertices d ->
  release_constraints pts fuel k d v = Some d0 ->
  DWf d0 /\ (forall w, Conn d0 (all_he d0) w) /\ Raw.num_vertices d0 = Raw.num_vertices d.
Proof.
  intros pts fuel. induction k as [|k IH]; intros d v d0 Wf C Hv H; cbn [release_constraints] in H; [discriminate|].
  destruct (v_out_edge d v) as [a|] eqn:Va; [|inversion H; subst; split; [exact Wf|split; [exact C|reflexivity]]].
  destruct (find_out_edge fuel d a a (is_flagged d)) as [[e|]|] eqn:Fe; [|inversion H; subst; split; [exact Wf|split; [exact C|reflexivity]]|discriminate].
  cbv zeta in H.
  destruct (legalize_edge pts fuel (clear_flag d e) (normalized (as_undirected e)) true) as [[d1 b1]|] eqn:L; [|discriminate].
  pose proof Wf as W. apply DWf_DW in W.
  assert (Ha : a < length (d_hedges d)) by (apply (dw_vout_rng d W v Hv a Va)).
  pose proof (find_out_edge_lt _ _ _ _ _ _ W Ha Fe) as He.
  destruct (clear_flag_DW_Conn d e W C) as (W1 & C1).
  unfold legalize_edge in L.
  pose proof (Keep_legalize _ _ _ _ _ _ _ _ L) as (K1 & _).
  assert (SO : forall x, In x [normalized (as_undirected e)] -> x < length (d_hedges (clear_flag d e))).
  { intros x [<-|[]]. unfold clear_flag. cbn [d_hedges].
    destruct (undirected_cases e) as [(E1 & _)|(E1 & E2)]; unfold normalized; [rewrite <- E1; exact He|].
    rewrite <- E2. apply dw_rev_lt; assumption. }
  destruct (legalize_DW_Conn pts fuel true _ _ _ d1 b1 W1 C1 SO L) as (W' & C').
  destruct (IH d1 v d0) as (A1 & A2 & A3); [apply DWf_DW; exact W'|exact C'| |exact H|].
  - unfold Raw.num_vertices in *. rewrite (vtable_len _ _ K1). exact Hv.
  - split; [exact A1|]. split; [exact A2|]. rewrite A3. unfold Raw.num_vertices. rewrite (vtable_len _ _ K1). reflexivity.
Qed.

(* ConstrainedDelaunayTriangulation::remove of an interior vertex: the constraints of v are released first (the state d0), then v is
   removed as in the unconstrained case; the hypotheses on the neighbourhood of v are about d0 *)
Theorem cdt_remove_interior_DWf : forall pts fuel d v d' r,
  DWf d -> (forall w, Conn d (all_he d) w) ->
  cdt_remove_vertex pts fuel d v = Some (d', r) ->
  exists d0, release_constraints pts fuel fuel d v = Some d0 /\
    DWf d0 /\ (forall w, Conn d0 (all_he d0) w) /\
    remove_vertex_full pts fuel d0 v = Some (d', r) /\
    (forall a bl es, v_out_edge d0 v = Some a -> border_scan fuel d0 a a [] = Some (bl, None) ->
       out_edges fuel d0 v = Some es -> NoDup (map (e_to d0) es) ->
       DWf d' /\ (forall w, Conn d' (all_he d') w)).
Proof.
  intros pts fuel d v d' r Wf C H.
  assert (Hv : v < Raw.num_vertices d).
  { unfold cdt_remove_vertex in H. destruct (Nat.leb_spec (Raw.num_vertices d) v); [discriminate|assumption]. }
  destruct (cdt_remove_vertex_factors _ _ _ _ _ _ H) as (d0 & R & _ & H0).
  destruct (release_constraints_DWf pts fuel fuel d v d0 Wf C Hv R) as (W0 & C0 & _).
  exists d0. split; [exact R|]. split; [exact W0|]. split; [exact C0|]. split; [exact H0|].
  intros a bl es Va B OE ND. apply (remove_interior_DWf pts fuel d0 v a bl es d' r W0 C0 Va B OE ND H0).
Qed.
(* the body of the release loop IS remove_constraint_edge (Tri/Remove.v exposes it for the `rmc` correspondence hook) *)
Lemma find_out_edge_sat : forall k d cur final p e, find_out_edge k d cur final p = Some (Some e) -> p e = true.
Proof.
  induction k as [|k IH]; intros d cur final p e H; cbn [find_out_edge] in H; [discriminate|].
  destruct (p cur) eqn:Pc; [inversion H; subst; exact Pc|].
  destruct (d_ccw d cur =? final); [discriminate|]. apply (IH _ _ _ _ _ H).
Qed.

Lemma release_constraints_step : forall pts fuel k d v,
  release_constraints pts fuel (S k) d v =
  match v_out_edge d v with
  | None => Some d
  | Some a =>
    match find_out_edge fuel d a a (is_flagged d) with
    | None => None
    | Some None => Some d
    | Some (Some e) =>
      match remove_constraint_edge pts fuel d (as_undirected e) with
      | Some (d1, _) => release_constraints pts fuel k d1 v
      | None => None
      end
    end
  end.
Proof.
  intros pts fuel k d v. cbn [release_constraints].
  destruct (v_out_edge d v) as [a|]; [|reflexivity].
  destruct (find_out_edge fuel d a a (is_flagged d)) as [[e|]|] eqn:Fe; try reflexivity.
  cbv zeta. unfold remove_constraint_edge.
  assert (Fl : is_flagged d (normalized (as_undirected e)) = true).
  { pose proof (find_out_edge_sat _ _ _ _ _ _ Fe) as Q. unfold is_flagged, normalized, as_undirected in *. rewrite Nat.div2_double. exact Q. }
  rewrite Fl.
  assert (CF : clear_flag d (normalized (as_undirected e)) = clear_flag d e).
  { unfold clear_flag, normalized, as_undirected. rewrite Nat.div2_double. reflexivity. }
  rewrite CF.
  destruct (legalize_edge pts fuel (clear_flag d e) (normalized (as_undirected e)) true) as [[d1 b1]|]; reflexivity.
Qed.

Print Assumptions legalize_DW_Conn.
Print Assumptions remove_constraint_edge_DWf.
Print Assumptions cdt_remove_interior_DWf.
