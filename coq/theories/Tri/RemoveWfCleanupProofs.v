(* Tri/RemoveWfCleanupProofs.v -- cleanup_isolated_vertex (Tri/Remove.v) turns link-level well-formedness of the LIVE part
   of a DCEL (Dcel/WfLive.v: DWX) into link-level well-formedness of the whole DCEL.

   The dead undirected edges / dead faces are removed with Vec::swap_remove in DESCENDING index order; the entry that moves
   into the freed slot is re-linked by fix_handle_swap / by re-setting the face of its three half-edges.

   PART 1  sort_desc: permutation, strictly descending on duplicate-free input
   PART 2  one face      swap_remove_face_DWX
           all faces     cleanup_faces_DWX
   PART 3  one edge      swap_remove_edge_DWX   (on top of a copy of RemoveProofs.swap_remove_undirected_edge_relabels whose
                                                 link hypothesis is only required of the LIVE half-edges)
           all edges     cleanup_edges_DWX
   Everything is closed under the global context. *)
From Coq Require Import ZArith List Bool Arith Lia Sorted Permutation.
From SpadeV Require Import Geom.Pred Obs.State Vmap.Model Dcel.Raw Dcel.WfCore Gen.DcelOps Dcel.ProofsFlip Dcel.WfLive
  Query.Hull Tri.Legalize Tri.Insert Tri.Remove Tri.RemoveProofs.
Import ListNotations.

(* ================================================================================================ *)
(* PART 1.  sort_desc                                                                                *)
(* ================================================================================================ *)

Lemma insert_desc_perm : forall x l, Permutation (x :: l) (insert_desc x l).
Proof.
  intros x l. induction l as [|y t IH]; cbn [insert_desc].
  - apply Permutation_refl.
  - destruct (y <=? x).
    + apply Permutation_refl.
    + eapply Permutation_trans; [apply perm_swap|]. apply perm_skip. exact IH.
Qed.

Lemma sort_desc_perm : forall l, Permutation l (sort_desc l).
Proof.
  induction l as [|x t IH]; cbn [sort_desc fold_right].
  - apply perm_nil.
  - fold (sort_desc t). eapply Permutation_trans; [apply perm_skip; exact IH|]. apply insert_desc_perm.
Qed.

Lemma insert_desc_sorted : forall x l, StronglySorted gt l -> ~ In x l -> StronglySorted gt (insert_desc x l).
Proof.
  intros x l S. induction S as [|y t S IH F]; intros N; cbn [insert_desc].
  - constructor; constructor.
  - assert (Nt : ~ In x t) by (intro H; apply N; right; exact H).
    assert (Ny : y <> x) by (intro H; apply N; left; exact H).
    destruct (Nat.leb_spec y x) as [Hle|Hgt].
    + constructor; [constructor; assumption|].
      constructor; [unfold gt; lia|].
      rewrite Forall_forall in *. intros z Hz. specialize (F z Hz). unfold gt in *. lia.
    + constructor; [apply IH; exact Nt|].
      rewrite Forall_forall in *. intros z Hz.
      apply (Permutation_in z (Permutation_sym (insert_desc_perm x t))) in Hz.
      destruct Hz as [<-|Hz]; [unfold gt; lia|apply F; exact Hz].
Qed.

Lemma sort_desc_sorted : forall l, NoDup l -> StronglySorted gt (sort_desc l).
Proof.
  induction l as [|x t IH]; intros N; cbn [sort_desc fold_right].
  - constructor.
  - fold (sort_desc t). inversion N as [|x' t' Nx Nt]; subst.
    apply insert_desc_sorted; [apply IH; exact Nt|].
    intro H. apply Nx. apply (Permutation_in x (Permutation_sym (sort_desc_perm t))). exact H.
Qed.

(* ================================================================================================ *)
(* PART 2.  faces                                                                                    *)
(* ================================================================================================ *)

(* swap_remove_list read pointwise, including removal of the last entry *)
Lemma swap_remove_list_nth_le : forall A (dflt : A) l M i j, length l = S M -> i <= M -> j < M ->
  nth j (swap_remove_list dflt i l) dflt = nth (if j =? i then M else j) l dflt.
Proof.
  intros A dflt l M i j HL Hi Hj.
  destruct (Nat.eq_dec i M) as [->|N].
  - unfold swap_remove_list. rewrite HL. replace (S M - 1) with M by lia. rewrite Nat.eqb_refl.
    destruct (Nat.eqb_spec j M); [lia|]. apply nth_removelast. lia.
  - apply swap_remove_list_nth; [exact HL|lia|exact Hj].
Qed.

Lemma e_face_set_face : forall d a x j,
  e_face (set_face d a x) j = if (a =? j) && (a <? length (d_hedges d)) then x else e_face d j.
Proof.
  intros d a x j. unfold e_face. destruct (a =? j) eqn:E; cbn [andb].
  - apply Nat.eqb_eq in E. subst j. destruct (a <? length (d_hedges d)) eqn:R.
    + apply Nat.ltb_lt in R. apply hface_set_face_same. exact R.
    + apply Nat.ltb_ge in R. unfold set_face. rewrite half_edge_upd_oob by exact R. reflexivity.
  - apply Nat.eqb_neq in E. apply hface_set_face_other. exact E.
Qed.

(* new face index -> old face index *)
Definition phi (f M g : nat) : nat := if g =? f then M else g.

(* d' = d with the faces renamed along phi, everything else untouched *)
Lemma face_relabel_DWX : forall d d' f M LE LF LV,
  DWX d LE LF LV ->
  length (d_faces d) = S M -> 0 < f -> f <= M ->
  (forall x, e_next d' x = e_next d x /\ e_prev d' x = e_prev d x /\ e_origin d' x = e_origin d x) ->
  d_verts d' = d_verts d -> d_flags d' = d_flags d -> length (d_hedges d') = length (d_hedges d) ->
  length (d_faces d') = M ->
  (forall e, LE e -> e_face d' e < M /\ phi f M (e_face d' e) = e_face d e) ->
  (forall g, g < M -> f_adjacent d' g = f_adjacent d (phi f M g)) ->
  DWX d' LE (fun g => g < M /\ LF (phi f M g)) LV.
Proof.
  intros d d' f M LE LF LV X HF F0 FM HR HV HG HH HF' HE HA.
  unfold DWX in *.
  assert (PI : forall g1 g2, g1 < M -> g2 < M -> phi f M g1 = phi f M g2 -> g1 = g2).
  { intros g1 g2 A B. unfold phi. eqb_cases; lia. }
  assert (P0 : forall g, g < M -> phi f M g = 0 -> g = 0).
  { intros g A. unfold phi. eqb_cases; lia. }
  assert (RN : forall x, e_next d' x = e_next d x) by (intro x; apply HR).
  assert (RP : forall x, e_prev d' x = e_prev d x) by (intro x; apply HR).
  assert (RO : forall x, e_origin d' x = e_origin d x) by (intro x; apply HR).
  assert (VO : forall w, v_out_edge d' w = v_out_edge d w) by (intro w; unfold v_out_edge; rewrite HV; reflexivity).
  constructor.
  - rewrite HG, HH. apply (wl_even _ _ _ _ _ _ X).
  - rewrite HF'. lia.
  - intros e H. rewrite HH. apply (wl_LE_lt _ _ _ _ _ _ X e H).
  - apply (wl_LE_rev _ _ _ _ _ _ X).
  - intros e H. exact H.
  - intros g (A & _). rewrite HF'. exact A.
  - intros w H. rewrite HV. apply (wl_LV_lt _ _ _ _ _ _ X w H).
  - intros w H. exact H.
  - intros e H. rewrite !RO. apply (wl_org _ _ _ _ _ _ X e H).
  - intros e H. rewrite RN, RP. destruct (wl_rng _ _ _ _ _ _ X e H) as (A & B & C).
    destruct (HE e H) as (D1 & D2). split; [exact A|]. split; [exact B|]. split; [exact D1|]. rewrite D2. exact C.
  - intros w H. rewrite VO, HH. pose proof (wl_vout _ _ _ _ _ _ X w H) as P.
    destruct (v_out_edge d w) as [a|]; [|exact P]. rewrite RO. exact P.
  - intros g (A & B). rewrite HA by exact A. pose proof (wl_adj _ _ _ _ _ _ X _ B) as P.
    destruct (f_adjacent d (phi f M g)) as [a|].
    + destruct P as (P1 & P2). split; [exact P1|]. destruct (HE a P1) as (D1 & D2).
      apply PI; [exact D1|exact A|]. congruence.
    + destruct P as (P1 & P2). split; [apply P0; assumption|rewrite HH; exact P2].
  - intros e H. rewrite !RN, !RP, !RO. destruct (wl_links _ _ _ _ _ _ X e H) as (A & B & C & D).
    split; [exact A|]. split; [exact B|]. split; [|exact D].
    destruct (HE e H) as (D1 & D2).
    destruct (HE (e_next d e)) as (D3 & D4); [apply (wl_rng _ _ _ _ _ _ X e H)|].
    apply PI; [exact D3|exact D1|]. congruence.
  - intros e H I. rewrite !RN. destruct (HE e H) as (D1 & D2).
    assert (I' : e_face d e <> 0). { intro Z. apply I. apply P0; [exact D1|congruence]. }
    destruct (wl_tri _ _ _ _ _ _ X e H I') as (T & a & Ha & Ea). split; [exact T|].
    exists a. rewrite !RN. split; [|exact Ea]. rewrite HA by exact D1. rewrite D2. exact Ha.
Qed.

Theorem swap_remove_face_DWX : forall d f LE LF LV,
  DWX d LE LF LV ->
  0 < f -> f < Raw.num_faces d ->
  ~ LF f ->
  (forall g, f < g -> g < Raw.num_faces d -> LF g) ->
  exists d', swap_remove_face d f = Some d' /\
    DWX d' LE (fun g => g < Raw.num_faces d - 1 /\ LF (if g =? f then Raw.num_faces d - 1 else g)) LV /\
    (forall x, e_next d' x = e_next d x /\ e_prev d' x = e_prev d x /\ e_origin d' x = e_origin d x) /\
    d_verts d' = d_verts d /\ d_flags d' = d_flags d /\ length (d_hedges d') = length (d_hedges d).
Proof.
  intros d f LE LF LV X F0 FN DF UP.
  unfold Raw.num_faces in *.
  assert (HM : exists M, length (d_faces d) = S M) by (exists (length (d_faces d) - 1); lia).
  destruct HM as (M & HF). rewrite HF in *. replace (S M - 1) with M by lia.
  unfold swap_remove_face, Raw.num_faces. rewrite HF.
  destruct (Nat.leb_spec (S M) f); [lia|].
  cbv zeta.
  set (d1 := with_faces d (swap_remove_list None f (d_faces d))).
  assert (L1 : length (d_faces d1) = M).
  { unfold d1. cbn [with_faces d_faces]. rewrite swap_remove_list_length, HF. lia. }
  assert (A1 : forall g, g < M -> f_adjacent d1 g = f_adjacent d (phi f M g)).
  { intros g Hg. unfold f_adjacent, d1, phi. cbn [with_faces d_faces].
    apply swap_remove_list_nth_le; [exact HF|lia|exact Hg]. }
  assert (RD1 : forall x, e_next d1 x = e_next d x /\ e_prev d1 x = e_prev d x /\ e_origin d1 x = e_origin d x)
    by (intro x; repeat split; reflexivity).
  assert (LFlt : forall e, LE e -> LF (e_face d e) /\ e_face d e < S M /\ e_face d e <> f).
  { intros e He. pose proof (wl_LF_face d LE LE LF LV LV X e He) as Q. split; [exact Q|]. split.
    - rewrite <- HF. apply (wl_LF_lt _ _ _ _ _ _ X _ Q).
    - intro Z. apply DF. rewrite <- Z. exact Q. }
  rewrite L1.
  destruct (Nat.ltb_spec f M) as [FM|FM].
  - (* the last face M moves to slot f *)
    rewrite (A1 f) by lia. unfold phi at 1. rewrite Nat.eqb_refl.
    assert (LM : LF M) by (apply UP; lia).
    pose proof (wl_adj _ _ _ _ _ _ X M LM) as P.
    destruct (f_adjacent d M) as [a|]; [|destruct P; lia].
    destruct P as (Ca & Fa).
    set (e0 := e_prev d1 a). set (e2 := e_next d1 a).
    assert (E0 : e0 = e_prev d a) by reflexivity.
    assert (E2 : e2 = e_next d a) by reflexivity.
    assert (Ia : inner d a) by (unfold inner; lia).
    assert (C0 : LE e0) by (rewrite E0; apply (wl_CE_prev d LE LE LF LV LV X a Ca)).
    assert (C2 : LE e2) by (rewrite E2; apply (wl_CE_next d LE LE LF LV LV X a Ca)).
    set (d' := set_face (set_face (set_face d1 e0 f) a f) e2 f).
    assert (FD : forall x, e_face d' x = if e2 =? x then f else if a =? x then f else if e0 =? x then f else e_face d x).
    { intro x. unfold d'. rewrite !e_face_set_face. rewrite !len_hedges_set_face.
      change (length (d_hedges d1)) with (length (d_hedges d)).
      assert (R0 : e0 <? length (d_hedges d) = true) by (apply Nat.ltb_lt; apply (wl_LE_lt _ _ _ _ _ _ X _ C0)).
      assert (R2 : e2 <? length (d_hedges d) = true) by (apply Nat.ltb_lt; apply (wl_LE_lt _ _ _ _ _ _ X _ C2)).
      assert (Ra : a <? length (d_hedges d) = true) by (apply Nat.ltb_lt; apply (wl_LE_lt _ _ _ _ _ _ X _ Ca)).
      rewrite R0, R2, Ra, !andb_true_r. reflexivity. }
    exists d'. split; [reflexivity|].
    assert (RD : forall x, e_next d' x = e_next d x /\ e_prev d' x = e_prev d x /\ e_origin d' x = e_origin d x).
    { intro x. unfold d', e_next, e_prev, e_origin.
      rewrite !hnext_set_face, !hprev_set_face, !horg_set_face. repeat split; reflexivity. }
    split; [|split; [exact RD|]].
    + change (DWX d' LE (fun g => g < M /\ LF (phi f M g)) LV).
      apply face_relabel_DWX with (d := d); try assumption; try reflexivity.
      * lia.
      * unfold d'. rewrite !len_hedges_set_face. reflexivity.
      * intros e He. rewrite FD. destruct (LFlt e He) as (Q1 & Q2 & Q3).
        destruct (Nat.eqb_spec e2 e) as [Z2|N2].
        { split; [lia|]. unfold phi. rewrite Nat.eqb_refl. rewrite <- Z2, E2.
          rewrite (wl_face_next d LE LE LF LV LV X a Ca). symmetry. exact Fa. }
        destruct (Nat.eqb_spec a e) as [Za|Na].
        { split; [lia|]. unfold phi. rewrite Nat.eqb_refl. rewrite <- Za. symmetry. exact Fa. }
        destruct (Nat.eqb_spec e0 e) as [Z0|N0].
        { split; [lia|]. unfold phi. rewrite Nat.eqb_refl. rewrite <- Z0, E0.
          rewrite (wl_face_prev d LE LE LF LV LV X a Ca). symmetry. exact Fa. }
        assert (NM : e_face d e <> M).
        { intro Z. destruct (wl_same_face d LE LE LF LV LV X a e Ca He Ia) as [E|[E|E]]; congruence. }
        unfold phi. destruct (Nat.eqb_spec (e_face d e) f); [contradiction|]. split; [lia|reflexivity].
    + split; [reflexivity|]. split; [reflexivity|]. unfold d'. rewrite !len_hedges_set_face. reflexivity.
  - (* f is the last face: truncation *)
    assert (f = M) by lia. subst f.
    exists d1. split; [reflexivity|].
    split; [|split; [exact RD1|repeat split; reflexivity]].
    change (DWX d1 LE (fun g => g < M /\ LF (phi M M g)) LV).
    apply face_relabel_DWX with (d := d); try assumption; try reflexivity.
    intros e He. change (e_face d1 e) with (e_face d e). destruct (LFlt e He) as (Q1 & Q2 & Q3).
    unfold phi. destruct (Nat.eqb_spec (e_face d e) M); [contradiction|]. split; [lia|reflexivity].
Qed.

Theorem cleanup_faces_DWX : forall l d LE LV d',
  StronglySorted gt l ->
  (forall f, In f l -> 0 < f /\ f < Raw.num_faces d) ->
  DWX d LE (fun g => g < length (d_faces d) /\ ~ In g l) LV ->
  fold_opt swap_remove_face l d = Some d' ->
  DWX d' LE (fun g => g < length (d_faces d')) LV /\
  d_verts d' = d_verts d /\ d_flags d' = d_flags d /\ length (d_hedges d') = length (d_hedges d).
Proof.
  induction l as [|f t IH]; intros d LE LV d' S R X H; cbn [fold_opt] in H.
  - inversion H; subst d'. split; [|repeat split; reflexivity].
    unfold DWX in *. eapply DWL_ext; [..|exact X]; intros; cbn [In]; tauto.
  - inversion S as [|f' t' St Ft]; subst.
    rewrite Forall_forall in Ft.
    destruct (R f (or_introl eq_refl)) as (F0 & FN).
    destruct (swap_remove_face_DWX d f LE _ LV X F0 FN) as (d1 & E1 & X1 & RD & V1 & G1 & H1).
    + intros (_ & N). apply N. left; reflexivity.
    + intros g Hg Hn. split; [exact Hn|]. intros [Z|Z]; [lia|]. specialize (Ft g Z). unfold gt in Ft. lia.
    + rewrite E1 in H.
      pose proof (swap_remove_face_sizes d f d1 E1) as (_ & _ & _ & SF).
      unfold Raw.num_faces in *.
      destruct (IH d1 LE LV d') as (Y & V2 & G2 & H2); [exact St| | |exact H|].
      * intros g Hg. split; [apply R; right; exact Hg|]. specialize (Ft g Hg). unfold gt in Ft. lia.
      * unfold DWX in *. eapply DWL_ext; [..|exact X1]; try (intros; tauto).
        intros g. cbv beta. split.
        -- intros (A & B & C). split; [lia|]. intro Z. destruct (Nat.eqb_spec g f) as [->|N].
           ++ specialize (Ft f Z). unfold gt in Ft. lia.
           ++ apply C. right. exact Z.
        -- intros (A & B). split; [lia|]. destruct (Nat.eqb_spec g f) as [->|N].
           ++ split; [lia|]. intros [Z|Z]; [lia|]. specialize (Ft _ Z). unfold gt in Ft. lia.
           ++ split; [lia|]. intros [Z|Z]; [congruence|contradiction].
      * split; [exact Y|]. repeat split; congruence.
Qed.

(* ================================================================================================ *)
(* PART 3.  edges                                                                                    *)
(* ================================================================================================ *)

(* the link condition of RemoveProofs.swap_remove_undirected_edge_relabels for ONE surviving half-edge *)
Definition link_ok (d : dcel) (L k e : nat) : Prop :=
  e_next d e < 2 * L + 2 /\ e_next d e <> 2 * k /\ e_next d e <> 2 * k + 1 /\
  e_prev d e < 2 * L + 2 /\ e_prev d e <> 2 * k /\ e_prev d e <> 2 * k + 1 /\
  e_prev d (e_next d e) = e /\ e_next d (e_prev d e) = e.

(* RemoveProofs.swap_remove_undirected_edge_relabels with the link hypothesis required only of the two moved
   half-edges, and the entry equations concluded only for the entries whose old half-edge satisfies it *)
Theorem swap_remove_undirected_edge_relabels_live : forall d k L,
  Raw.num_undirected_edges d = S L -> length (d_hedges d) = 2 * L + 2 -> k < L ->
  link_ok d L k (2 * L) -> link_ok d L k (2 * L + 1) ->
  exists d', swap_remove_undirected_edge d k = Some d' /\
    length (d_hedges d') = 2 * L /\ length (d_flags d') = L /\
    length (d_verts d') = length (d_verts d) /\ length (d_faces d') = length (d_faces d) /\
    (forall j, j < 2 * L -> link_ok d L k (sigma L k j) ->
        e_next d' j = rho L k (e_next d (sigma L k j)) /\ e_prev d' j = rho L k (e_prev d (sigma L k j)) /\
        e_face d' j = e_face d (sigma L k j) /\ e_origin d' j = e_origin d (sigma L k j)) /\
    (forall u, u < L -> nth u (d_flags d') false = nth (if u =? k then L else u) (d_flags d) false) /\
    (forall w, v_out_edge d' w =
        if (e_origin d (2 * L) =? w) && (e_origin d (2 * L) <? length (d_verts d)) then Some (2 * k)
        else if (e_origin d (2 * L + 1) =? w) && (e_origin d (2 * L + 1) <? length (d_verts d)) then Some (2 * k + 1)
        else v_out_edge d w) /\
    (forall f, f_adjacent d' f =
        if (e_face d (2 * L) =? f) && (e_face d (2 * L) <? length (d_faces d)) then Some (2 * k)
        else if (e_face d (2 * L + 1) =? f) && (e_face d (2 * L + 1) <? length (d_faces d)) then Some (2 * k + 1)
        else f_adjacent d f).
Proof.
  intros d k L HN HH HK HLA HLB.
  unfold swap_remove_undirected_edge. rewrite HN.
  destruct (Nat.leb_spec (S L) k) as [Bad|_]; [lia|].
  set (d1 := swap_remove_edge_tables d k).
  assert (F1 : length (d_hedges d1) = 2 * L).
  { unfold d1, swap_remove_edge_tables, with_edges. cbn [d_hedges]. rewrite !swap_remove_list_length. lia. }
  assert (F2 : length (d_flags d1) = L).
  { unfold d1, swap_remove_edge_tables, with_edges. cbn [d_flags]. rewrite swap_remove_list_length.
    unfold Raw.num_undirected_edges in HN. lia. }
  assert (F3 : forall j, j < 2 * L -> half_edge d1 j = half_edge d (sigma L k j)).
  { intros j Hj. unfold half_edge, d1, swap_remove_edge_tables, with_edges. cbn [d_hedges].
    apply swap_remove_pair_nth; assumption. }
  assert (F4 : forall u, u < L -> nth u (d_flags d1) false = nth (if u =? k then L else u) (d_flags d) false).
  { intros u Hu. unfold d1, swap_remove_edge_tables, with_edges. cbn [d_flags].
    apply swap_remove_list_nth; [exact HN|exact HK|exact Hu]. }
  assert (F5 : d_verts d1 = d_verts d) by reflexivity.
  assert (F6 : d_faces d1 = d_faces d) by reflexivity.
  assert (N1 : Raw.num_undirected_edges d1 = L) by exact F2.
  rewrite N1. destruct (Nat.ltb_spec k L) as [_|Bad]; [|lia].
  unfold normalized, e_rev. rewrite rev_even.
  (* the moved half-edges *)
  assert (SA : sigma L k (2 * k) = 2 * L) by (unfold sigma; eqb_cases; lia).
  assert (SB : sigma L k (2 * k + 1) = 2 * L + 1) by (unfold sigma; eqb_cases; lia).
  destruct HLA as (A1 & A2 & A3 & A4 & A5 & A6 & A7 & A8).
  destruct HLB as (B1 & B2 & B3 & B4 & B5 & B6 & B7 & B8).
  (* first call *)
  pose proof (fix_handle_swap_reads d1 (2 * k + 1)) as R1. cbv zeta in R1.
  rewrite N1 in R1.
  assert (U1 : as_undirected (2 * k + 1) = k) by (unfold as_undirected; apply div2_eq_iff; lia).
  rewrite U1 in R1.
  assert (X1 : e_next d1 (2 * k + 1) = e_next d (2 * L + 1)) by (unfold e_next; rewrite F3 by lia; rewrite SB; reflexivity).
  assert (Y1 : e_prev d1 (2 * k + 1) = e_prev d (2 * L + 1)) by (unfold e_prev; rewrite F3 by lia; rewrite SB; reflexivity).
  assert (O1 : e_origin d1 (2 * k + 1) = e_origin d (2 * L + 1)) by (unfold e_origin; rewrite F3 by lia; rewrite SB; reflexivity).
  assert (G1 : e_face d1 (2 * k + 1) = e_face d (2 * L + 1)) by (unfold e_face; rewrite F3 by lia; rewrite SB; reflexivity).
  rewrite X1, Y1, O1, G1, F1, F5, F6 in R1.
  set (s2 := fix_handle_swap d1 (2 * k + 1)) in *.
  destruct R1 as (Rn & Rp & Rf & Ro & Rv & Ra & Rl & Rg & Rlv & Rlf).
  (* second call *)
  pose proof (fix_handle_swap_reads s2 (2 * k)) as R2. cbv zeta in R2.
  assert (N2 : Raw.num_undirected_edges s2 = L) by (unfold Raw.num_undirected_edges; rewrite Rg; exact F2).
  assert (U2 : as_undirected (2 * k) = k) by (unfold as_undirected; apply div2_eq_iff; lia).
  rewrite N2, U2, Rl, Rlv, Rlf in R2.
  set (d' := fix_handle_swap s2 (2 * k)) in *.
  destruct R2 as (Qn & Qp & Qf & Qo & Qv & Qa & Ql & Qg & Qlv & Qlf).
  set (nA := e_next d (2 * L)) in *. set (pA := e_prev d (2 * L)) in *.
  set (nB := e_next d (2 * L + 1)) in *. set (pB := e_prev d (2 * L + 1)) in *.
  (* the values read by the second call are the renamed old links of half-edge 2L *)
  assert (EP0 : rho L k (e_prev s2 (2 * k)) = rho L k pA).
  { rewrite Rp. destruct (Nat.eqb_spec (rho L k nB) (2 * k)) as [E|E]; cbn [andb].
    - destruct (Nat.ltb_spec (rho L k nB) (2 * L)) as [_|Bad]; [|lia].
      assert (Z1 : nB = 2 * L) by (revert E; rewrite rho_spec; eqb_cases; lia).
      assert (Z2 : pA = 2 * L + 1) by (unfold pA; rewrite <- B7; f_equal; symmetry; exact Z1).
      rewrite Z2. rewrite !rho_spec. eqb_cases; lia.
    - unfold e_prev. rewrite F3 by lia. rewrite SA. reflexivity. }
  assert (EN0 : rho L k (e_next s2 (2 * k)) = rho L k nA).
  { rewrite Rn. destruct (Nat.eqb_spec (rho L k pB) (2 * k)) as [E|E]; cbn [andb].
    - destruct (Nat.ltb_spec (rho L k pB) (2 * L)) as [_|Bad]; [|lia].
      assert (Z1 : pB = 2 * L) by (revert E; rewrite rho_spec; eqb_cases; lia).
      assert (Z2 : nA = 2 * L + 1) by (unfold nA; rewrite <- B8; f_equal; symmetry; exact Z1).
      rewrite Z2. rewrite !rho_spec. eqb_cases; lia.
    - unfold e_next. rewrite F3 by lia. rewrite SA. reflexivity. }
  assert (O2 : e_origin s2 (2 * k) = e_origin d (2 * L)) by (rewrite Ro; unfold e_origin; rewrite F3 by lia; rewrite SA; reflexivity).
  assert (G2 : e_face s2 (2 * k) = e_face d (2 * L)) by (rewrite Rf; unfold e_face; rewrite F3 by lia; rewrite SA; reflexivity).
  rewrite EP0, EN0, O2, G2 in *.
  exists d'. split; [reflexivity|].
  split; [lia|]. split; [rewrite Qg, Rg; exact F2|].
  split; [lia|]. split; [lia|].
  split; [|split; [|split]].
  - intros j Hj HLj.
    destruct (rho_sigma L k j HK Hj) as (RS & S1 & S2 & S3).
    destruct HLj as (E1 & E2 & E3 & E4 & E5 & E6 & E7 & E8).
    destruct (rho_live L k pA HK A4 A5 A6) as (PA1 & PA2).
    destruct (rho_live L k pB HK B4 B5 B6) as (PB1 & PB2).
    destruct (rho_live L k nA HK A1 A2 A3) as (NA1 & NA2).
    destruct (rho_live L k nB HK B1 B2 B3) as (NB1 & NB2).
    split; [|split; [|split]].
    + rewrite Qn, Rn.
      destruct (Nat.eqb_spec (rho L k pA) j) as [E|E]; cbn [andb].
      * destruct (Nat.ltb_spec (rho L k pA) (2 * L)) as [_|Bad]; [|lia].
        assert (Z : sigma L k j = pA) by (rewrite <- E; exact PA2).
        rewrite Z. rewrite A8. rewrite rho_spec. eqb_cases; lia.
      * destruct (Nat.eqb_spec (rho L k pB) j) as [E'|E']; cbn [andb].
        -- destruct (Nat.ltb_spec (rho L k pB) (2 * L)) as [_|Bad]; [|lia].
           assert (Z : sigma L k j = pB) by (rewrite <- E'; exact PB2).
           rewrite Z. rewrite B8. rewrite rho_spec. eqb_cases; lia.
        -- unfold e_next at 1. rewrite F3 by exact Hj. fold (e_next d (sigma L k j)).
           symmetry. apply rho_id.
           ++ intro X. apply E. rewrite <- RS. f_equal. unfold pA. rewrite <- X. exact E7.
           ++ intro X. apply E'. rewrite <- RS. f_equal. unfold pB. rewrite <- X. exact E7.
    + rewrite Qp, Rp.
      destruct (Nat.eqb_spec (rho L k nA) j) as [E|E]; cbn [andb].
      * destruct (Nat.ltb_spec (rho L k nA) (2 * L)) as [_|Bad]; [|lia].
        assert (Z : sigma L k j = nA) by (rewrite <- E; exact NA2).
        rewrite Z. rewrite A7. rewrite rho_spec. eqb_cases; lia.
      * destruct (Nat.eqb_spec (rho L k nB) j) as [E'|E']; cbn [andb].
        -- destruct (Nat.ltb_spec (rho L k nB) (2 * L)) as [_|Bad]; [|lia].
           assert (Z : sigma L k j = nB) by (rewrite <- E'; exact NB2).
           rewrite Z. rewrite B7. rewrite rho_spec. eqb_cases; lia.
        -- unfold e_prev at 1. rewrite F3 by exact Hj. fold (e_prev d (sigma L k j)).
           symmetry. apply rho_id.
           ++ intro X. apply E. rewrite <- RS. f_equal. unfold nA. rewrite <- X. exact E8.
           ++ intro X. apply E'. rewrite <- RS. f_equal. unfold nB. rewrite <- X. exact E8.
    + rewrite Qf, Rf. unfold e_face. rewrite F3 by exact Hj. reflexivity.
    + rewrite Qo, Ro. unfold e_origin. rewrite F3 by exact Hj. reflexivity.
  - intros u Hu. rewrite Qg, Rg. apply F4. exact Hu.
  - intros w. rewrite Qv, Rv. unfold v_out_edge. rewrite F5. reflexivity.
  - intros f. rewrite Qa, Ra. unfold f_adjacent. rewrite F6. reflexivity.
Qed.

(* rho / sigma for k <= L (k = L: both are the identity on the surviving indices) *)
Lemma rho_sigma_le : forall L k j, k <= L -> j < 2 * L -> rho L k (sigma L k j) = j /\ sigma L k j < 2 * L + 2.
Proof. intros L k j HK H1. rewrite rho_spec. unfold sigma. eqb_cases; lia. Qed.

Lemma rho_live_le : forall L k x, k <= L -> x < 2 * L + 2 -> x <> 2 * k -> x <> 2 * k + 1 ->
  rho L k x < 2 * L /\ sigma L k (rho L k x) = x.
Proof. intros L k x HK H1 H2 H3. rewrite rho_spec. unfold sigma. eqb_cases; lia. Qed.

Lemma sigma_rev : forall L k j, sigma L k (rev j) = rev (sigma L k j).
Proof.
  intros L k j. destruct (rev_cases j) as [q [[-> ->]|[-> ->]]]; unfold sigma; eqb_cases;
    rewrite ?rev_even, ?rev_odd; lia.
Qed.

Lemma rho_LL : forall L x, rho L L x = x.
Proof. intros L x. rewrite rho_spec. eqb_cases; lia. Qed.

Lemma sigma_LL : forall L j, sigma L L j = j.
Proof. intros L j. unfold sigma. eqb_cases; lia. Qed.

(* d' = the live part of d with the half-edges renamed along rho (new -> old: sigma) *)
Lemma edge_relabel_DWX : forall d d' k L LE LF LV,
  DWX d LE LF LV ->
  length (d_hedges d) = 2 * L + 2 -> k <= L ->
  ~ LE (2 * k) -> ~ LE (2 * k + 1) ->
  length (d_hedges d') = 2 * L -> length (d_flags d') = L ->
  length (d_verts d') = length (d_verts d) -> length (d_faces d') = length (d_faces d) ->
  (forall j, j < 2 * L -> LE (sigma L k j) ->
      e_next d' j = rho L k (e_next d (sigma L k j)) /\ e_prev d' j = rho L k (e_prev d (sigma L k j)) /\
      e_face d' j = e_face d (sigma L k j) /\ e_origin d' j = e_origin d (sigma L k j)) ->
  (forall w, LV w -> exists a, v_out_edge d' w = Some a /\ a < 2 * L /\ LE (sigma L k a) /\ e_origin d (sigma L k a) = w) ->
  (forall f, LF f -> exists a, f_adjacent d' f = Some a /\ a < 2 * L /\ LE (sigma L k a) /\ e_face d (sigma L k a) = f) ->
  DWX d' (fun j => j < 2 * L /\ LE (sigma L k j)) LF LV.
Proof.
  intros d d' k L LE LF LV X HH HK D0 D1 H1 H2 H3 H4 HE HV HA.
  unfold DWX in *.
  set (LE' := fun j => j < 2 * L /\ LE (sigma L k j)).
  assert (LIVE : forall x, LE x -> rho L k x < 2 * L /\ sigma L k (rho L k x) = x).
  { intros x Hx. apply rho_live_le; [exact HK| rewrite <- HH; apply (wl_LE_lt _ _ _ _ _ _ X x Hx) | |].
    - intro Z. apply D0. rewrite <- Z. exact Hx.
    - intro Z. apply D1. rewrite <- Z. exact Hx. }
  assert (LIVE' : forall x, LE x -> LE' (rho L k x)).
  { intros x Hx. destruct (LIVE x Hx) as (A & B). split; [exact A|rewrite B; exact Hx]. }
  assert (NX : forall j, LE' j -> LE' (e_next d' j) /\ sigma L k (e_next d' j) = e_next d (sigma L k j)).
  { intros j (A & B). destruct (HE j A B) as (E1 & _). rewrite E1.
    pose proof (wl_CE_next d LE LE LF LV LV X _ B) as C. split; [apply LIVE'; exact C|apply LIVE; exact C]. }
  assert (PX : forall j, LE' j -> LE' (e_prev d' j) /\ sigma L k (e_prev d' j) = e_prev d (sigma L k j)).
  { intros j (A & B). destruct (HE j A B) as (_ & E1 & _). rewrite E1.
    pose proof (wl_CE_prev d LE LE LF LV LV X _ B) as C. split; [apply LIVE'; exact C|apply LIVE; exact C]. }
  assert (RS : forall j, j < 2 * L -> rho L k (sigma L k j) = j) by (intros; apply rho_sigma_le; assumption).
  assert (RV : forall e, LE' e -> LE' (rev e)).
  { intros e (A & B). split; [apply rev_lt_even; exact A|]. rewrite sigma_rev. apply (wl_LE_rev _ _ _ _ _ _ X _ B). }
  assert (OR : forall e, LE' e -> e_origin d' (rev e) = e_origin d (rev (sigma L k e))).
  { intros e He. destruct (RV e He) as (A & B). destruct (HE _ A B) as (_ & _ & _ & O). rewrite O, sigma_rev. reflexivity. }
  constructor.
  - rewrite H1, H2. lia.
  - rewrite H4. apply (wl_face1 _ _ _ _ _ _ X).
  - intros e (A & _). rewrite H1. exact A.
  - exact RV.
  - intros e H. exact H.
  - intros f H. rewrite H4. apply (wl_LF_lt _ _ _ _ _ _ X f H).
  - intros w H. rewrite H3. apply (wl_LV_lt _ _ _ _ _ _ X w H).
  - intros w H. exact H.
  - intros e He. rewrite (OR e He). destruct He as (A & B). destruct (HE e A B) as (_ & _ & _ & O). rewrite O.
    apply (wl_org _ _ _ _ _ _ X _ B).
  - intros e He. split; [apply NX; exact He|]. split; [apply PX; exact He|].
    destruct He as (A & B). destruct (HE e A B) as (_ & _ & F & _). rewrite F.
    apply (wl_LF_face d LE LE LF LV LV X _ B).
  - intros w H. destruct (HV w H) as (a & E & A & B & C). rewrite E. split; [split; assumption|].
    destruct (HE a A B) as (_ & _ & _ & O). rewrite O. exact C.
  - intros f H. destruct (HA f H) as (a & E & A & B & C). rewrite E. split; [split; assumption|].
    destruct (HE a A B) as (_ & _ & F & _). rewrite F. exact C.
  - intros e He. destruct (NX e He) as (N1 & N2). destruct (PX e He) as (P1 & P2).
    rewrite (OR e He). destruct He as (A & B).
    destruct (wl_links _ _ _ _ _ _ X _ B) as (K1 & K2 & K3 & K4).
    destruct N1 as (NA & NB). destruct P1 as (PA & PB).
    destruct (HE _ NA NB) as (_ & Q1 & Q2 & Q3).
    destruct (HE _ PA PB) as (Q4 & _ & _ & _).
    destruct (HE e A B) as (_ & _ & F & O).
    split; [rewrite Q1, N2, K1; apply RS; exact A|].
    split; [rewrite Q4, P2, K2; apply RS; exact A|].
    split; [rewrite Q2, N2, K3, F; reflexivity|].
    rewrite Q3, N2, K4. reflexivity.
  - intros e He I.
    destruct (NX e He) as (N1 & N2). destruct (NX _ N1) as (N3 & N4). destruct (NX _ N3) as (N5 & N6).
    destruct He as (A & B). destruct (HE e A B) as (_ & _ & F & _).
    assert (I' : e_face d (sigma L k e) <> 0) by (rewrite <- F; exact I).
    destruct (wl_tri _ _ _ _ _ _ X _ B I') as (T & _).
    split.
    + transitivity (rho L k (sigma L k (e_next d' (e_next d' (e_next d' e))))).
      * symmetry. apply RS. apply N5.
      * rewrite N6, N4, N2, T. apply RS. exact A.
    + assert (LFe : LF (e_face d' e)) by (rewrite F; apply (wl_LF_face d LE LE LF LV LV X _ B)).
      destruct (HA _ LFe) as (a & Ea & Aa & Ba & Ca).
      exists a. split; [exact Ea|].
      assert (Ia : inner d (sigma L k a)) by (unfold inner; rewrite Ca; exact I).
      assert (FF : e_face d (sigma L k e) = e_face d (sigma L k a)) by congruence.
      destruct (wl_same_face d LE LE LF LV LV X (sigma L k a) (sigma L k e) Ba B Ia FF) as [Z|[Z|Z]].
      * left. rewrite <- (RS e A), Z. apply RS. exact Aa.
      * right; left. destruct (HE a Aa Ba) as (Q & _). rewrite Q, <- Z. symmetry. apply RS. exact A.
      * right; right. destruct (NX a (conj Aa Ba)) as ((NA & NB) & N2a).
        destruct (HE _ NA NB) as (Q & _). rewrite Q, N2a.
        rewrite (wl_next_next d LE LE LF LV LV X _ Ba Ia), <- Z. symmetry. apply RS. exact A.
Qed.

Theorem swap_remove_edge_DWX : forall d k LE LF LV,
  DWX d LE LF LV ->
  k < Raw.num_undirected_edges d ->
  ~ LE (2 * k) ->
  (forall u, k < u -> u < Raw.num_undirected_edges d -> LE (2 * u)) ->
  exists d', swap_remove_undirected_edge d k = Some d' /\
    DWX d' (fun j => j < 2 * (Raw.num_undirected_edges d - 1) /\ LE (sigma (Raw.num_undirected_edges d - 1) k j)) LF LV.
Proof.
  intros d k LE LF LV X KE D0 UP.
  assert (HM : exists L, Raw.num_undirected_edges d = S L) by (exists (Raw.num_undirected_edges d - 1); lia).
  destruct HM as (L & HN). rewrite HN in *. replace (S L - 1) with L by lia.
  unfold DWX in X.
  assert (HH : length (d_hedges d) = 2 * L + 2).
  { pose proof (wl_even _ _ _ _ _ _ X) as E. unfold Raw.num_undirected_edges in HN. lia. }
  assert (D1 : ~ LE (2 * k + 1)).
  { intro Z. apply D0. rewrite <- rev_odd. apply (wl_LE_rev _ _ _ _ _ _ X _ Z). }
  assert (DEAD : forall x, LE x -> x < 2 * L + 2 /\ x <> 2 * k /\ x <> 2 * k + 1).
  { intros x Hx. split; [rewrite <- HH; apply (wl_LE_lt _ _ _ _ _ _ X x Hx)|]. split; intro Z; subst x; contradiction. }
  destruct (Nat.eq_dec k L) as [->|NK].
  - (* the last edge: truncation *)
    set (d1 := swap_remove_edge_tables d L).
    assert (F1 : length (d_hedges d1) = 2 * L).
    { unfold d1, swap_remove_edge_tables, with_edges. cbn [d_hedges]. rewrite !swap_remove_list_length. lia. }
    assert (F2 : length (d_flags d1) = L).
    { unfold d1, swap_remove_edge_tables, with_edges. cbn [d_flags]. rewrite swap_remove_list_length.
      unfold Raw.num_undirected_edges in HN. lia. }
    assert (F3 : forall j, j < 2 * L -> half_edge d1 j = half_edge d j).
    { intros j Hj. unfold half_edge, d1, swap_remove_edge_tables, with_edges. cbn [d_hedges].
      rewrite (swap_remove_list_nth_le _ dflt_h _ (2 * L) (2 * L) j); [ | rewrite swap_remove_list_length; lia | lia | lia].
      rewrite (swap_remove_list_nth_le _ dflt_h (d_hedges d) (2 * L + 1) (2 * L + 1)); [ | lia | lia | eqb_cases; lia].
      f_equal. eqb_cases; lia. }
    exists d1. split.
    + unfold swap_remove_undirected_edge. rewrite HN. destruct (Nat.leb_spec (S L) L) as [Bad|_]; [lia|].
      cbv zeta. fold d1. unfold Raw.num_undirected_edges. rewrite F2, Nat.ltb_irrefl. reflexivity.
    + apply edge_relabel_DWX with (d := d); try assumption; try reflexivity.
      * intros j Hj Hl. rewrite sigma_LL in *. rewrite !rho_LL.
        unfold e_next, e_prev, e_face, e_origin. rewrite F3 by exact Hj. repeat split; reflexivity.
      * intros w Hw. pose proof (wl_vout _ _ _ _ _ _ X w Hw) as P.
        change (v_out_edge d1 w) with (v_out_edge d w).
        destruct (v_out_edge d w) as [a|]; [|lia]. destruct P as (Pa & Po).
        exists a. destruct (DEAD a Pa) as (Q1 & Q2 & Q3). rewrite sigma_LL.
        split; [reflexivity|]. split; [lia|]. split; assumption.
      * intros f Hf. pose proof (wl_adj _ _ _ _ _ _ X f Hf) as P.
        change (f_adjacent d1 f) with (f_adjacent d f).
        destruct (f_adjacent d f) as [a|]; [|lia]. destruct P as (Pa & Po).
        exists a. destruct (DEAD a Pa) as (Q1 & Q2 & Q3). rewrite sigma_LL.
        split; [reflexivity|]. split; [lia|]. split; assumption.
  - (* edge L is live and moves into slot k *)
    assert (HK : k < L) by lia.
    assert (LA : LE (2 * L)) by (apply UP; lia).
    assert (LB : LE (2 * L + 1)) by (rewrite <- rev_even; apply (wl_LE_rev _ _ _ _ _ _ X _ LA)).
    assert (LOK : forall e, LE e -> link_ok d L k e).
    { intros e He. unfold link_ok.
      destruct (DEAD _ (wl_CE_next d LE LE LF LV LV X e He)) as (Q1 & Q2 & Q3).
      destruct (DEAD _ (wl_CE_prev d LE LE LF LV LV X e He)) as (Q4 & Q5 & Q6).
      repeat split; try assumption.
      - apply (wl_prev_next d LE LE LF LV LV X e He).
      - apply (wl_next_prev d LE LE LF LV LV X e He). }
    destruct (swap_remove_undirected_edge_relabels_live d k L HN HH HK (LOK _ LA) (LOK _ LB))
      as (d' & E & F1 & F2 & F3 & F4 & FE & _ & FV & FA).
    assert (SA : sigma L k (2 * k) = 2 * L) by (unfold sigma; eqb_cases; lia).
    assert (SB : sigma L k (2 * k + 1) = 2 * L + 1) by (unfold sigma; eqb_cases; lia).
    exists d'. split; [exact E|].
    apply edge_relabel_DWX with (d := d); try assumption.
    + lia.
    + intros j Hj Hl. apply FE; [exact Hj|apply LOK; exact Hl].
    + intros w Hw. rewrite FV.
      destruct (wl_org _ _ _ _ _ _ X _ LA) as (VA & NAB). rewrite rev_even in NAB.
      pose proof (wl_LV_org d LE LE LF LV LV X _ LB) as VB.
      assert (RA : e_origin d (2 * L) <? length (d_verts d) = true)
        by (apply Nat.ltb_lt; apply (wl_LV_lt _ _ _ _ _ _ X _ VA)).
      assert (RB : e_origin d (2 * L + 1) <? length (d_verts d) = true)
        by (apply Nat.ltb_lt; apply (wl_LV_lt _ _ _ _ _ _ X _ VB)).
      rewrite RA, RB, !andb_true_r.
      destruct (Nat.eqb_spec (e_origin d (2 * L)) w) as [ZA|NA].
      { exists (2 * k). rewrite SA. split; [reflexivity|]. split; [lia|]. split; assumption. }
      destruct (Nat.eqb_spec (e_origin d (2 * L + 1)) w) as [ZB|NB].
      { exists (2 * k + 1). rewrite SB. split; [reflexivity|]. split; [lia|]. split; assumption. }
      pose proof (wl_vout _ _ _ _ _ _ X w Hw) as P.
      destruct (v_out_edge d w) as [a|]; [|lia]. destruct P as (Pa & Po).
      exists a. destruct (DEAD a Pa) as (Q1 & Q2 & Q3).
      assert (a <> 2 * L) by (intro Z; subst a; contradiction).
      assert (a <> 2 * L + 1) by (intro Z; subst a; contradiction).
      assert (SI : sigma L k a = a) by (unfold sigma; eqb_cases; lia). rewrite SI.
      split; [reflexivity|]. split; [lia|]. split; assumption.
    + intros f Hf. rewrite FA.
      pose proof (wl_LF_face d LE LE LF LV LV X _ LA) as VA.
      pose proof (wl_LF_face d LE LE LF LV LV X _ LB) as VB.
      assert (RA : e_face d (2 * L) <? length (d_faces d) = true)
        by (apply Nat.ltb_lt; apply (wl_LF_lt _ _ _ _ _ _ X _ VA)).
      assert (RB : e_face d (2 * L + 1) <? length (d_faces d) = true)
        by (apply Nat.ltb_lt; apply (wl_LF_lt _ _ _ _ _ _ X _ VB)).
      rewrite RA, RB, !andb_true_r.
      destruct (Nat.eqb_spec (e_face d (2 * L)) f) as [ZA|NA].
      { exists (2 * k). rewrite SA. split; [reflexivity|]. split; [lia|]. split; assumption. }
      destruct (Nat.eqb_spec (e_face d (2 * L + 1)) f) as [ZB|NB].
      { exists (2 * k + 1). rewrite SB. split; [reflexivity|]. split; [lia|]. split; assumption. }
      pose proof (wl_adj _ _ _ _ _ _ X f Hf) as P.
      destruct (f_adjacent d f) as [a|]; [|lia]. destruct P as (Pa & Po).
      exists a. destruct (DEAD a Pa) as (Q1 & Q2 & Q3).
      assert (a <> 2 * L) by (intro Z; subst a; contradiction).
      assert (a <> 2 * L + 1) by (intro Z; subst a; contradiction).
      assert (SI : sigma L k a = a) by (unfold sigma; eqb_cases; lia). rewrite SI.
      split; [reflexivity|]. split; [lia|]. split; assumption.
Qed.

Theorem cleanup_edges_DWX : forall l d LF LV d',
  StronglySorted gt l ->
  (forall u, In u l -> u < Raw.num_undirected_edges d) ->
  DWX d (fun e => e < length (d_hedges d) /\ ~ In (Nat.div2 e) l) LF LV ->
  fold_opt swap_remove_undirected_edge l d = Some d' ->
  DWX d' (fun e => e < length (d_hedges d')) LF LV.
Proof.
  induction l as [|k t IH]; intros d LF LV d' S R X H; cbn [fold_opt] in H.
  - inversion H; subst d'. unfold DWX in *. eapply DWL_ext; [..|exact X]; intros; cbn [In]; tauto.
  - inversion S as [|k' t' St Ft]; subst. rewrite Forall_forall in Ft.
    pose proof (R k (or_introl eq_refl)) as KE.
    pose proof (wl_even _ _ _ _ _ _ X) as EV.
    unfold Raw.num_undirected_edges in *.
    destruct (swap_remove_edge_DWX d k _ LF LV X KE) as (d1 & E1 & X1).
    + intros (_ & N). apply N. left. rewrite Nat.div2_double. reflexivity.
    + intros u Hu Hn. unfold Raw.num_undirected_edges in Hn. split; [lia|].
      rewrite Nat.div2_double. intros [Z|Z]; [lia|]. specialize (Ft u Z). unfold gt in Ft. lia.
    + rewrite E1 in H. pose proof (swap_remove_undirected_edge_sizes d k d1 E1) as (_ & _ & SG & SH).
      unfold Raw.num_undirected_edges in *.
      set (L := length (d_flags d) - 1) in *.
      assert (EQ : forall j,
        (j < 2 * L /\ sigma L k j < length (d_hedges d) /\ ~ In (Nat.div2 (sigma L k j)) (k :: t)) <->
        (j < length (d_hedges d1) /\ ~ In (Nat.div2 j) t)).
      { intros j. split.
        - intros (A & B & C). split; [lia|]. intro Z.
          destruct (Nat.eq_dec (Nat.div2 j) k) as [Q|Q].
          + rewrite Q in Z. specialize (Ft k Z). unfold gt in Ft. lia.
          + assert (SI : sigma L k j = j).
            { assert (j <> 2 * k /\ j <> 2 * k + 1) by (split; intro; apply Q; apply div2_eq_iff; lia).
              unfold sigma. eqb_cases; lia. }
            rewrite SI in C. apply C. right. exact Z.
        - intros (A & B). split; [lia|].
          destruct (Nat.eq_dec (Nat.div2 j) k) as [Q|Q].
          + apply div2_eq_iff in Q.
            assert (DL : Nat.div2 (sigma L k j) = L).
            { apply div2_eq_iff. unfold sigma. destruct Q; subst j; eqb_cases; lia. }
            rewrite DL. split.
            * unfold sigma. eqb_cases; lia.
            * intros [Z|Z]; [lia|]. specialize (Ft L Z). unfold gt in Ft. lia.
          + assert (SI : sigma L k j = j).
            { assert (j <> 2 * k /\ j <> 2 * k + 1) by (split; intro; apply Q; apply div2_eq_iff; lia).
              unfold sigma. eqb_cases; lia. }
            rewrite SI. split; [lia|]. intros [Z|Z]; [congruence|contradiction]. }
      apply (IH d1 LF LV d'); [exact St| | |exact H].
      * intros u Hu. specialize (Ft u Hu). unfold gt in Ft. unfold Raw.num_undirected_edges. lia.
      * unfold DWX in *. eapply DWL_ext; [exact EQ|exact EQ| | | |exact X1]; intros; tauto.
Qed.

Print Assumptions cleanup_edges_DWX.
Print Assumptions cleanup_faces_DWX.
Print Assumptions sort_desc_perm.
Print Assumptions sort_desc_sorted.
