(* Tri/RemoveWfOrbitCleanupProofs.v -- cleanup_isolated_vertex (Tri/Remove.v) keeps the vertex-orbit clause `Conn`
   (Dcel/WfLiveOrbit.v) of the live part of a DCEL, on top of Tri/RemoveWfCleanupProofs.v (which keeps DWX).

   PART 1  faces: only `face` fields and the face table change, d_ccw is pointwise the same      cleanup_faces_Conn
   PART 2  edges: the half-edges are renamed along rho (new -> old: sigma); rho commutes with rev and maps
           counterclockwise orbits to counterclockwise orbits                 swap_remove_edge_Conn, cleanup_edges_Conn
   Everything is closed under the global context. *)
From Coq Require Import ZArith List Bool Arith Lia Sorted Permutation.
From SpadeV Require Import Geom.Pred Obs.State Vmap.Model Dcel.Raw Dcel.WfCore Gen.DcelOps Dcel.ProofsFlip Dcel.WfLive
  Dcel.WfLiveOrbit Query.Hull Tri.Legalize Tri.Insert Tri.Remove Tri.RemoveProofs Tri.RemoveWfCleanupProofs.
Import ListNotations.

(* ================================================================================================ *)
(* PART 1.  faces                                                                                    *)
(* ================================================================================================ *)

Lemma iter_ext : forall (f g : nat -> nat) n x, (forall y, f y = g y) -> Nat.iter n f x = Nat.iter n g x.
Proof. intros f g n x E. induction n as [|n IH]; [reflexivity|]. rewrite !iter_S, IH. apply E. Qed.

Lemma Conn_same_links : forall d d' LE w,
  (forall x, e_next d' x = e_next d x /\ e_prev d' x = e_prev d x /\ e_origin d' x = e_origin d x) ->
  Conn d LE w -> Conn d' LE w.
Proof.
  intros d d' LE w HR C x y Lx Ly Ox Oy.
  assert (RO : forall z, e_origin d' z = e_origin d z) by (intro z; apply HR).
  rewrite RO in Ox, Oy.
  destruct (C x y Lx Ly Ox Oy) as (n & E). exists n. rewrite <- E.
  apply iter_ext. intro z. unfold d_ccw. f_equal. apply HR.
Qed.

Theorem cleanup_faces_Conn : forall l d LE LV d',
  StronglySorted gt l ->
  (forall f, In f l -> 0 < f /\ f < Raw.num_faces d) ->
  DWX d LE (fun g => g < length (d_faces d) /\ ~ In g l) LV ->
  (forall w, Conn d LE w) ->
  fold_opt swap_remove_face l d = Some d' ->
  (forall w, Conn d' LE w).
Proof.
  induction l as [|f t IH]; intros d LE LV d' S R X C H; cbn [fold_opt] in H.
  - inversion H; subst d'. exact C.
  - inversion S as [|f' t' St Ft]; subst.
    rewrite Forall_forall in Ft.
    destruct (R f (or_introl eq_refl)) as (F0 & FN).
    destruct (swap_remove_face_DWX d f LE _ LV X F0 FN) as (d1 & E1 & X1 & RD & V1 & G1 & H1).
    + intros (_ & N). apply N. left; reflexivity.
    + intros g Hg Hn. split; [exact Hn|]. intros [Z|Z]; [lia|]. specialize (Ft g Z). unfold gt in Ft. lia.
    + rewrite E1 in H.
      pose proof (swap_remove_face_sizes d f d1 E1) as (_ & _ & _ & SF).
      unfold Raw.num_faces in *.
      apply (IH d1 LE LV d'); [exact St| | | |exact H].
      * intros g Hg. split; [apply R; right; exact Hg|]. specialize (Ft g Hg). unfold gt in Ft. lia.
      * unfold DWX in *. eapply DWL_ext; [..|exact X1]; try (intros; tauto).
        intros g. cbv beta. split.
        -- intros (A & B & C0). split; [lia|]. intro Z. destruct (Nat.eqb_spec g f) as [->|N].
           ++ specialize (Ft f Z). unfold gt in Ft. lia.
           ++ apply C0. right. exact Z.
        -- intros (A & B). split; [lia|]. destruct (Nat.eqb_spec g f) as [->|N].
           ++ split; [lia|]. intros [Z|Z]; [lia|]. specialize (Ft _ Z). unfold gt in Ft. lia.
           ++ split; [lia|]. intros [Z|Z]; [congruence|contradiction].
      * intro w. apply (Conn_same_links d d1 LE w RD). apply C.
Qed.

(* ================================================================================================ *)
(* PART 2.  edges                                                                                    *)
(* ================================================================================================ *)

(* d' = the live part of d with the half-edges renamed along rho (new -> old: sigma): orbits are carried along *)
Lemma edge_relabel_Conn : forall d d' k L LE LF LV,
  DWX d LE LF LV ->
  length (d_hedges d) = 2 * L + 2 -> k <= L ->
  ~ LE (2 * k) -> ~ LE (2 * k + 1) ->
  (forall j, j < 2 * L -> LE (sigma L k j) ->
      e_prev d' j = rho L k (e_prev d (sigma L k j)) /\ e_origin d' j = e_origin d (sigma L k j)) ->
  (forall w, Conn d LE w) ->
  forall w, Conn d' (fun j => j < 2 * L /\ LE (sigma L k j)) w.
Proof.
  intros d d' k L LE LF LV X HH HK D0 D1 HE C w.
  set (LE' := fun j => j < 2 * L /\ LE (sigma L k j)).
  assert (LIVE : forall x, LE x -> rho L k x < 2 * L /\ sigma L k (rho L k x) = x).
  { intros x Hx. apply rho_live_le; [exact HK| rewrite <- HH; apply (wl_LE_lt _ _ _ _ _ _ X x Hx) | |].
    - intro Z. apply D0. rewrite <- Z. exact Hx.
    - intro Z. apply D1. rewrite <- Z. exact Hx. }
  assert (STEP : forall j, LE' j -> LE' (d_ccw d' j) /\ sigma L k (d_ccw d' j) = d_ccw d (sigma L k j)).
  { intros j (A & B). destruct (HE j A B) as (E1 & _).
    pose proof (wl_CE_prev d LE LE LF LV LV X _ B) as P.
    destruct (LIVE _ P) as (P1 & P2).
    assert (SG : sigma L k (d_ccw d' j) = d_ccw d (sigma L k j)).
    { unfold d_ccw, e_rev. rewrite sigma_rev, E1, P2. reflexivity. }
    split; [|exact SG]. split.
    - unfold d_ccw, e_rev. rewrite E1. apply rev_lt_even. exact P1.
    - rewrite SG. apply (ccw_live d LE LF LV _ X B). }
  assert (ITER : forall n j, LE' j ->
    LE' (Nat.iter n (d_ccw d') j) /\ sigma L k (Nat.iter n (d_ccw d') j) = Nat.iter n (d_ccw d) (sigma L k j)).
  { induction n as [|n IH]; intros j Hj; [split; [exact Hj|reflexivity]|].
    rewrite !iter_S. destruct (IH j Hj) as (I1 & I2). destruct (STEP _ I1) as (S1 & S2).
    split; [exact S1|]. rewrite S2, I2. reflexivity. }
  intros x y Lx Ly Ox Oy. fold LE' in Lx, Ly.
  pose proof Lx as (Ax & Bx). pose proof Ly as (Ay & By).
  destruct (HE x Ax Bx) as (_ & Ex). destruct (HE y Ay By) as (_ & Ey).
  rewrite Ex in Ox. rewrite Ey in Oy.
  destruct (C w _ _ Bx By Ox Oy) as (n & E). exists n.
  destruct (ITER n x Lx) as ((I1 & _) & I2).
  rewrite <- (proj1 (rho_sigma_le L k _ HK I1)), <- (proj1 (rho_sigma_le L k y HK Ay)).
  f_equal. rewrite I2. exact E.
Qed.

(* the pointwise description of swap_remove_undirected_edge on the live half-edges (prev and origin only) *)
Lemma swap_remove_edge_pointwise : forall d k L LE LF LV,
  DWX d LE LF LV ->
  Raw.num_undirected_edges d = S L -> k <= L ->
  ~ LE (2 * k) ->
  (forall u, k < u -> u < S L -> LE (2 * u)) ->
  exists d', swap_remove_undirected_edge d k = Some d' /\
    (forall j, j < 2 * L -> LE (sigma L k j) ->
      e_prev d' j = rho L k (e_prev d (sigma L k j)) /\ e_origin d' j = e_origin d (sigma L k j)).
Proof.
  intros d k L LE LF LV X HN KE D0 UP.
  unfold DWX in X.
  assert (HH : length (d_hedges d) = 2 * L + 2).
  { pose proof (wl_even _ _ _ _ _ _ X) as E. unfold Raw.num_undirected_edges in HN. lia. }
  assert (D1 : ~ LE (2 * k + 1)).
  { intro Z. apply D0. rewrite <- rev_odd. apply (wl_LE_rev _ _ _ _ _ _ X _ Z). }
  assert (DEAD : forall x, LE x -> x < 2 * L + 2 /\ x <> 2 * k /\ x <> 2 * k + 1).
  { intros x Hx. split; [rewrite <- HH; apply (wl_LE_lt _ _ _ _ _ _ X x Hx)|]. split; intro Z; subst x; contradiction. }
  destruct (Nat.eq_dec k L) as [->|NK].
  - (* the last edge: truncation *)
    set (d1 := swap_remove_edge_tables d L).
    assert (F2 : length (d_flags d1) = L).
    { unfold d1, swap_remove_edge_tables, with_edges. cbn [d_flags]. rewrite swap_remove_list_length.
      unfold Raw.num_undirected_edges in HN. lia. }
    assert (F3 : forall j, j < 2 * L -> half_edge d1 j = half_edge d j).
    { intros j Hj. unfold half_edge, d1, swap_remove_edge_tables, with_edges. cbn [d_hedges].
      rewrite (swap_remove_list_nth_le _ dflt_h _ (2 * L) (2 * L) j); [ | rewrite swap_remove_list_length; lia | lia | lia].
      rewrite (swap_remove_list_nth_le _ dflt_h (d_hedges d) (2 * L + 1) (2 * L + 1)); [ | lia | lia | eqb_cases; lia].
      f_equal. eqb_cases; lia. }
    exists d1. split.
    + unfold swap_remove_undirected_edge. rewrite HN. destruct (Nat.leb_spec (S L) L) as [Bad|_]; [lia|].
      cbv zeta. fold d1. unfold Raw.num_undirected_edges. rewrite F2, Nat.ltb_irrefl. reflexivity.
    + intros j Hj Hl. rewrite sigma_LL in *. rewrite !rho_LL.
      unfold e_prev, e_origin. rewrite F3 by exact Hj. split; reflexivity.
  - (* edge L is live and moves into slot k *)
    assert (HK : k < L) by lia.
    assert (LA : LE (2 * L)) by (apply UP; lia).
    assert (LB : LE (2 * L + 1)) by (rewrite <- rev_even; apply (wl_LE_rev _ _ _ _ _ _ X _ LA)).
    assert (LOK : forall e, LE e -> link_ok d L k e).
    { intros e He. unfold link_ok.
      destruct (DEAD _ (wl_CE_next d LE LE LF LV LV X e He)) as (Q1 & Q2 & Q3).
      destruct (DEAD _ (wl_CE_prev d LE LE LF LV LV X e He)) as (Q4 & Q5 & Q6).
      repeat split; try assumption.
      - apply (wl_prev_next d LE LE LF LV LV X e He).
      - apply (wl_next_prev d LE LE LF LV LV X e He). }
    destruct (swap_remove_undirected_edge_relabels_live d k L HN HH HK (LOK _ LA) (LOK _ LB))
      as (d' & E & _ & _ & _ & _ & FE & _).
    exists d'. split; [exact E|].
    intros j Hj Hl. destruct (FE j Hj (LOK _ Hl)) as (_ & P & _ & O). split; assumption.
Qed.

Theorem swap_remove_edge_Conn : forall d k LE LF LV,
  DWX d LE LF LV ->
  k < Raw.num_undirected_edges d ->
  ~ LE (2 * k) ->
  (forall u, k < u -> u < Raw.num_undirected_edges d -> LE (2 * u)) ->
  (forall w, Conn d LE w) ->
  exists d', swap_remove_undirected_edge d k = Some d' /\
    DWX d' (fun j => j < 2 * (Raw.num_undirected_edges d - 1) /\ LE (sigma (Raw.num_undirected_edges d - 1) k j)) LF LV /\
    (forall w, Conn d' (fun j => j < 2 * (Raw.num_undirected_edges d - 1) /\ LE (sigma (Raw.num_undirected_edges d - 1) k j)) w).
Proof.
  intros d k LE LF LV X KE D0 UP C.
  destruct (swap_remove_edge_DWX d k LE LF LV X KE D0 UP) as (d' & E & X').
  exists d'. split; [exact E|]. split; [exact X'|].
  assert (HM : exists L, Raw.num_undirected_edges d = S L) by (exists (Raw.num_undirected_edges d - 1); lia).
  destruct HM as (L & HN). rewrite HN in *. replace (S L - 1) with L by lia.
  destruct (swap_remove_edge_pointwise d k L LE LF LV X HN) as (d'' & E'' & PW); [lia|exact D0|exact UP|].
  rewrite E in E''. injection E'' as <-.
  assert (HH : length (d_hedges d) = 2 * L + 2).
  { pose proof (wl_even _ _ _ _ _ _ X) as EV. unfold Raw.num_undirected_edges in HN. lia. }
  assert (D1 : ~ LE (2 * k + 1)).
  { intro Z. apply D0. rewrite <- rev_odd. apply (wl_LE_rev _ _ _ _ _ _ X _ Z). }
  apply (edge_relabel_Conn d d' k L LE LF LV X HH); [lia|exact D0|exact D1|exact PW|exact C].
Qed.

Theorem cleanup_edges_Conn : forall l d LF LV d',
  StronglySorted gt l ->
  (forall u, In u l -> u < Raw.num_undirected_edges d) ->
  DWX d (fun e => e < length (d_hedges d) /\ ~ In (Nat.div2 e) l) LF LV ->
  (forall w, Conn d (fun e => e < length (d_hedges d) /\ ~ In (Nat.div2 e) l) w) ->
  fold_opt swap_remove_undirected_edge l d = Some d' ->
  DWX d' (fun e => e < length (d_hedges d')) LF LV /\ (forall w, Conn d' (fun e => e < length (d_hedges d')) w).
Proof.
  induction l as [|k t IH]; intros d LF LV d' S R X C H; cbn [fold_opt] in H.
  - inversion H; subst d'. split.
    + unfold DWX in *. eapply DWL_ext; [..|exact X]; intros; cbn [In]; tauto.
    + intro w. eapply Conn_ext; [|apply C]. intros; cbn [In]; tauto.
  - inversion S as [|k' t' St Ft]; subst. rewrite Forall_forall in Ft.
    pose proof (R k (or_introl eq_refl)) as KE.
    pose proof (wl_even _ _ _ _ _ _ X) as EV.
    unfold Raw.num_undirected_edges in *.
    destruct (swap_remove_edge_Conn d k _ LF LV X KE) as (d1 & E1 & X1 & C1).
    + intros (_ & N). apply N. left. rewrite Nat.div2_double. reflexivity.
    + intros u Hu Hn. unfold Raw.num_undirected_edges in Hn. split; [lia|].
      rewrite Nat.div2_double. intros [Z|Z]; [lia|]. specialize (Ft u Z). unfold gt in Ft. lia.
    + exact C.
    + rewrite E1 in H. pose proof (swap_remove_undirected_edge_sizes d k d1 E1) as (_ & _ & SG & SH).
      unfold Raw.num_undirected_edges in *.
      set (L := length (d_flags d) - 1) in *.
      assert (EQ : forall j,
        (j < 2 * L /\ sigma L k j < length (d_hedges d) /\ ~ In (Nat.div2 (sigma L k j)) (k :: t)) <->
        (j < length (d_hedges d1) /\ ~ In (Nat.div2 j) t)).
      { intros j. split.
        - intros (A & B & C0). split; [lia|]. intro Z.
          destruct (Nat.eq_dec (Nat.div2 j) k) as [Q|Q].
          + rewrite Q in Z. specialize (Ft k Z). unfold gt in Ft. lia.
          + assert (SI : sigma L k j = j).
            { assert (j <> 2 * k /\ j <> 2 * k + 1) by (split; intro; apply Q; apply div2_eq_iff; lia).
              unfold sigma. eqb_cases; lia. }
            rewrite SI in C0. apply C0. right. exact Z.
        - intros (A & B). split; [lia|].
          destruct (Nat.eq_dec (Nat.div2 j) k) as [Q|Q].
          + apply div2_eq_iff in Q.
            assert (DL : Nat.div2 (sigma L k j) = L).
            { apply div2_eq_iff. unfold sigma. destruct Q; subst j; eqb_cases; lia. }
            rewrite DL. split.
            * unfold sigma. eqb_cases; lia.
            * intros [Z|Z]; [lia|]. specialize (Ft L Z). unfold gt in Ft. lia.
          + assert (SI : sigma L k j = j).
            { assert (j <> 2 * k /\ j <> 2 * k + 1) by (split; intro; apply Q; apply div2_eq_iff; lia).
              unfold sigma. eqb_cases; lia. }
            rewrite SI. split; [lia|]. intros [Z|Z]; [congruence|contradiction]. }
      apply (IH d1 LF LV d'); [exact St| | | |exact H].
      * intros u Hu. specialize (Ft u Hu). unfold gt in Ft. unfold Raw.num_undirected_edges. lia.
      * unfold DWX in *. eapply DWL_ext; [exact EQ|exact EQ| | | |exact X1]; intros; tauto.
      * intro w. eapply Conn_ext; [exact EQ|apply C1].
Qed.

Print Assumptions cleanup_edges_Conn.
Print Assumptions cleanup_faces_Conn.
Print Assumptions swap_remove_edge_Conn.
