(* Tri/RemoveWfOrbitProofs.v -- the vertex-orbit clause through the removal of an interior vertex.

   DWf has no vertex-orbit clause, and swap_remove_vertex needs it for the vertex that moves into the freed slot (Tri/RemoveWfProofs.v:
   remove_interior_DWf_partial and the counterexample).  Here the clause `Conn` (Dcel/WfLiveOrbit.v: the live half-edges leaving a vertex
   are mutually reachable by counterclockwise rotation) is carried through the whole removal, which discharges the missing hypothesis:

   PART 1  paths of counterclockwise steps taken from complete half-edges only (`Path`)
   PART 2  the hole invariant for orbits (`HP`): around a complete vertex all live out-edges are on one cycle; around a vertex on the
           boundary of the unfilled hole they are on one path from the twin of the pending edge that arrives to the pending edge that
           leaves; one iteration of the fan loop (hp_step), the closing triangle (hp_final), remesh_Conn
   PART 3  the star of an interior vertex (star_hp)
   PART 4  legalization (flips: Dcel/WfLiveFlipOrbit.v), cleanup (Tri/RemoveWfOrbitCleanupProofs.v), swap_remove_vertex; the theorem
           remove_interior_DWf: DWf and the orbit clause are preserved by the removal of an interior vertex with distinct neighbours *)
From Coq Require Import ZArith List Bool Arith Lia Sorted Permutation.
From SpadeV Require Import Geom.Pred Obs.State Vmap.Model Dcel.Raw Dcel.Chain Dcel.WfCore Gen.DcelOps Dcel.ProofsFlip Dcel.WfLive
  Dcel.WfLiveFlip Dcel.WfLiveOrbit Dcel.WfLiveFlipOrbit Query.Hull Tri.Legalize Tri.Insert Tri.Remove Tri.RemoveProofs Tri.RemoveWfCleanupProofs Tri.RemoveWfProofs Tri.RemoveWfOrbitCleanupProofs.
Import ListNotations.

(* ================================================================================================ *)
(* PART 1.  paths                                                                                    *)
(* ================================================================================================ *)

Inductive Path (d : dcel) (CE : nat -> Prop) : nat -> nat -> Prop :=
  | Path_refl : forall x, Path d CE x x
  | Path_step : forall x y, CE x -> Path d CE (d_ccw d x) y -> Path d CE x y.

Lemma Path_trans : forall d CE x y z, Path d CE x y -> Path d CE y z -> Path d CE x z.
Proof.
  intros d CE x y z P. induction P as [x|x y Cx P IH]; intros Q; [exact Q|].
  apply Path_step; [exact Cx|apply IH; exact Q].
Qed.

Lemma Path_snoc : forall d CE x y, Path d CE x y -> CE y -> Path d CE x (d_ccw d y).
Proof.
  intros d CE x y P Cy. apply (Path_trans d CE x y); [exact P|]. apply Path_step; [exact Cy|apply Path_refl].
Qed.

Lemma Path_stuck : forall d CE x y, ~ CE x -> Path d CE x y -> y = x.
Proof. intros d CE x y N P. destruct P as [x|x y Cx P]; [reflexivity|contradiction]. Qed.

Lemma Path_linear : forall d CE s x y, Path d CE s x -> Path d CE s y -> Path d CE x y \/ Path d CE y x.
Proof.
  intros d CE s x y P. revert y. induction P as [s|s x Cs P IH]; intros y Q.
  - left. exact Q.
  - destruct Q as [s|s y _ Q].
    + right. apply Path_step; assumption.
    + apply IH. exact Q.
Qed.

Lemma Path_iter : forall d CE x y, Path d CE x y -> exists n, Nat.iter n (d_ccw d) x = y.
Proof.
  intros d CE x y P. induction P as [x|x y Cx P (n & IH)]; [exists 0; reflexivity|].
  exists (S n). rewrite iter_S'. exact IH.
Qed.

Lemma Path_lift : forall d d' (CE CE' : nat -> Prop) x y,
  (forall u, CE u -> CE' u /\ d_ccw d' u = d_ccw d u) -> Path d CE x y -> Path d' CE' x y.
Proof.
  intros d d' CE CE' x y L P. induction P as [x|x y Cx P IH]; [apply Path_refl|].
  destruct (L x Cx) as (C' & E). apply Path_step; [exact C'|rewrite E; exact IH].
Qed.

(* a walk of n counterclockwise steps all taken from complete half-edges *)
Lemma Path_walk : forall d (CE : nat -> Prop) s n, (forall i, i < n -> CE (Nat.iter i (d_ccw d) s)) -> Path d CE s (Nat.iter n (d_ccw d) s).
Proof.
  intros d CE s n. induction n as [|n IH]; intros H; [apply Path_refl|].
  rewrite iter_S. apply Path_snoc; [apply IH; intros i Hi; apply H; lia|apply H; lia].
Qed.

Lemma bounded_all_or_ex : forall (P : nat -> Prop) n, (forall i, P i \/ ~ P i) ->
  (forall i, i < n -> P i) \/ exists i, i < n /\ ~ P i.
Proof.
  intros P n D. induction n as [|n IH]; [left; intros i Hi; lia|].
  destruct IH as [A|(i & Hi & Ni)]; [|right; exists i; split; [lia|exact Ni]].
  destruct (D n) as [Pn|Nn]; [|right; exists n; split; [lia|exact Nn]].
  left. intros i Hi. destruct (Nat.eq_dec i n) as [->|Ne]; [exact Pn|apply A; lia].
Qed.

(* closing a path into a cycle: every out-edge of w lies on the path from s to the stuck half-edge t; once t is complete and its
   counterclockwise successor is s, all of them are mutually reachable *)
Lemma close_cycle : forall d d' (CE CE' : nat -> Prop) s t x z,
  (forall u, CE u -> CE' u /\ d_ccw d' u = d_ccw d u) ->
  ~ CE t -> CE' t -> d_ccw d' t = s ->
  Path d CE s x -> Path d CE s z -> Path d CE s t ->
  Path d' CE' x z.
Proof.
  intros d d' CE CE' s t x z L Nt Ct Et Px Pz Pt.
  assert (Pxt : Path d CE x t).
  { destruct (Path_linear d CE s x t Px Pt) as [Q|Q]; [exact Q|].
    apply (Path_stuck d CE t x Nt) in Q. subst x. apply Path_refl. }
  apply (Path_trans d' CE' x t); [apply (Path_lift d d' CE CE'); assumption|].
  apply Path_step; [exact Ct|]. rewrite Et. apply (Path_lift d d' CE CE'); assumption.
Qed.

(* ================================================================================================ *)
(* PART 2.  the hole invariant for orbits                                                            *)
(* ================================================================================================ *)
Section HPSec.
Variables (dead deadF : nat -> Prop) (v fo H0 : nat).
Hypothesis dead_rev : forall e, dead e -> dead (rev e).
Local Notation LEh := (RemoveWfProofs.LEh dead).
Local Notation CEh := (RemoveWfProofs.CEh dead).
Local Notation LFh := (RemoveWfProofs.LFh deadF).
Local Notation LVh := (RemoveWfProofs.LVh v).
Local Notation CVh := (RemoveWfProofs.CVh v).
Local Notation Hole := (RemoveWfProofs.Hole dead deadF v fo H0).

Record HP (d : dcel) (inner : nat) (stack : list nat) : Prop := mkHP {
  hp_pp : forall p z, PEh inner stack p -> LEh d z -> e_origin d z = e_to d p -> Path d (CEh d inner stack) (rev p) z;
  hp_cc : forall x z, LEh d x -> LEh d z -> e_origin d x = e_origin d z -> CVh d inner stack (e_origin d x) ->
          Path d (CEh d inner stack) x z;
  hp_iu : forall p q, PEh inner stack p -> PEh inner stack q -> e_to d p = e_to d q -> p = q
}.

Lemma hp_step : forall d inner outer rest d',
  Hole d inner (outer :: rest) -> HP d inner (outer :: rest) -> rest <> [] -> H0 <= length (d_hedges d) ->
  StepPost d d' inner outer fo ->
  HP d' (S (length (d_hedges d))) rest.
Proof.
  intros d inner outer rest d' [X DL DFL PN FO ND CH NW] [PP CC IU] RN HH0 P.
  pose proof (wl_even _ _ _ _ _ _ X) as Ev.
  assert (Li : LEh d inner) by (apply PN; left; reflexivity).
  assert (Lo : LEh d outer) by (apply PN; right; left; reflexivity).
  assert (Hi : inner < length (d_hedges d)) by apply Li. assert (Ho : outer < length (d_hedges d)) by apply Lo.
  assert (Nio : inner <> outer).
  { intros E. cbn [map] in ND. apply NoDup_cons_iff in ND. destruct ND as (Na & _). apply Na. left. rewrite E. reflexivity. }
  destruct (he_fields4 _ _ _ _ _ _ (sp_outer _ _ _ _ _ P)) as (On & Op & Of & Oo).
  destruct (he_fields4 _ _ _ _ _ _ (sp_inner _ _ _ _ _ P)) as (In_ & Ip & If & Io).
  destruct (he_fields4 _ _ _ _ _ _ (sp_N _ _ _ _ _ P)) as (Nn & Np & Nf & No).
  destruct (he_fields4 _ _ _ _ _ _ (sp_T _ _ _ _ _ P)) as (_ & _ & _ & To).
  pose proof (sp_lenH _ _ _ _ _ P) as LH'. pose proof (sp_lenF _ _ _ _ _ P) as LF'.
  pose proof (sp_lenV _ _ _ _ _ P) as LV'. pose proof (sp_lenG _ _ _ _ _ P) as LG'.
  pose proof (sp_other _ _ _ _ _ P) as SPo. pose proof (sp_vout_o _ _ _ _ _ P) as SPvo.
  pose proof (sp_vout_other _ _ _ _ _ P) as SPvx. pose proof (sp_adj_G _ _ _ _ _ P) as SPaG.
  pose proof (sp_adj_other _ _ _ _ _ P) as SPax. clear P.
  pose proof (wl_face1 _ _ _ _ _ _ X) as F1.
  remember (length (d_hedges d)) as N eqn:EN. remember (length (d_faces d)) as G eqn:EG.
  assert (Oth : forall x, x < N -> x <> inner -> x <> outer ->
            e_next d' x = e_next d x /\ e_prev d' x = e_prev d x /\ e_face d' x = e_face d x /\ e_origin d' x = e_origin d x).
  { intros x Hx X1 X2. apply he_fields_eq. apply SPo; assumption. }
  assert (Org : forall x, x < N -> e_origin d' x = e_origin d x).
  { intros x Hx. destruct (Nat.eq_dec x inner) as [->|X1]; [exact Io|].
    destruct (Nat.eq_dec x outer) as [->|X2]; [exact Oo|]. apply Oth; assumption. }
  assert (RevN : rev N = S N) by (rewrite <- Ev, Nat.mul_comm, rev_even; ch_lia).
  assert (RevT : rev (S N) = N) by (rewrite <- RevN; apply rev_rev).
  assert (RevLt : forall x, x < N -> rev x < N) by (intros x Hx; rewrite EN; apply (wl_rev_lt _ _ _ _ _ _ X); rewrite <- EN; exact Hx).
  (* the head of the remaining stack *)
  destruct rest as [|y rest']; [congruence|]. clear RN.
  cbn [chain] in CH. destruct CH as (Ca & Cb & Cc).
  assert (Ly : LEh d y) by (apply PN; right; right; left; reflexivity).
  assert (Fo_y : e_origin d y <> fo).
  { rewrite <- FO. intros E. cbn [map] in ND. apply NoDup_cons_iff in ND. destruct ND as (Na & _). apply Na. right. left. exact E. }
  assert (Nd : ~ dead N) by (intros D; apply DL in D; ch_lia).
  assert (Td : ~ dead (S N)) by (intros D; apply DL in D; ch_lia).
  assert (LE_old : forall e, LEh d e -> LEh d' e) by (intros e (A & B); split; [rewrite LH'; ch_lia|exact B]).
  assert (LE_cases : forall e, LEh d' e -> LEh d e \/ e = N \/ e = S N).
  { intros e (A & B). rewrite LH' in A. destruct (lt_dec e N); [left; split; [ch_lia|assumption]|ch_lia]. }
  assert (LV_eq : forall w, LVh d' w <-> LVh d w) by (intros w; unfold LVh; rewrite LV'; tauto).
  assert (LF_old : forall f, LFh d f -> LFh d' f) by (intros f (A & B); split; [rewrite LF'; ch_lia|exact B]).
  assert (LGG : LFh d' G) by (split; [rewrite LF'; ch_lia|intros D; apply DFL in D; ch_lia]).
  assert (CE_cases : forall e, CEh d' (S N) (y :: rest') e ->
            (CEh d inner (outer :: y :: rest') e) \/ e = inner \/ e = outer \/ e = N).
  { intros e (A & B). destruct (LE_cases e A) as [A'|[->| ->]].
    - destruct (Nat.eq_dec e inner) as [->|X1]; [right; left; reflexivity|].
      destruct (Nat.eq_dec e outer) as [->|X2]; [right; right; left; reflexivity|].
      left. split; [exact A'|]. intros [Q|[Q|Q]]; [congruence|congruence|]. apply B. right. exact Q.
    - right. right. right. reflexivity.
    - exfalso. apply B. left. reflexivity. }
  assert (CE_old : forall e, CEh d inner (outer :: y :: rest') e -> CEh d' (S N) (y :: rest') e).
  { intros e (A & B). split; [apply LE_old; exact A|]. intros [Q|Q].
    - destruct A as (A & _). ch_lia.
    - apply B. right. right. exact Q. }
  assert (NotIn_i : ~ In inner (y :: rest')).
  { intros Q. cbn [map] in ND. apply NoDup_cons_iff in ND. destruct ND as (Na & _). apply Na. right. apply (in_map (e_origin d)) in Q. exact Q. }
  assert (NotIn_o : ~ In outer (y :: rest')).
  { intros Q. cbn [map] in ND. apply NoDup_cons_iff in ND. destruct ND as (_ & ND1). apply NoDup_cons_iff in ND1. destruct ND1 as (Na & _). apply Na. apply (in_map (e_origin d)) in Q. exact Q. }
  assert (Ci : CEh d' (S N) (y :: rest') inner).
  { split; [apply LE_old; exact Li|]. intros [Q|Q]; [ch_lia|exact (NotIn_i Q)]. }
  assert (Co : CEh d' (S N) (y :: rest') outer).
  { split; [apply LE_old; exact Lo|]. intros [Q|Q]; [ch_lia|exact (NotIn_o Q)]. }
  assert (CN : CEh d' (S N) (y :: rest') N).
  { split; [split; [rewrite LH'; ch_lia|exact Nd]|]. intros [Q|Q]; [ch_lia|].
    assert (Z : LEh d N) by (apply PN; right; right; exact Q). destruct Z as (Z & _). ch_lia. }
  assert (Old_ne : forall e, CEh d inner (outer :: y :: rest') e -> e < N /\ e <> inner /\ e <> outer).
  { intros e ((A & _) & B). split; [ch_lia|]. split; intros ->; apply B; [left; reflexivity|right; left; reflexivity]. }
  assert (Org_stack : forall z, In z (y :: rest') -> e_origin d' z = e_origin d z /\ e_to d' z = e_to d z).
  { intros z Iz. assert (Lz : LEh d z) by (apply PN; right; right; exact Iz). destruct Lz as (Lz & _). rewrite <- EN in Lz.
    split; [apply Org; exact Lz|]. unfold e_to, e_rev. apply Org. apply RevLt. exact Lz. }
  (* counterclockwise successors in the new state *)
  assert (Lift : forall u, CEh d inner (outer :: y :: rest') u -> CEh d' (S N) (y :: rest') u /\ d_ccw d' u = d_ccw d u).
  { intros u Cu. split; [apply CE_old; exact Cu|]. destruct (Old_ne u Cu) as (E1 & E2 & E3).
    destruct (Oth u E1 E2 E3) as (_ & Q & _). unfold d_ccw. rewrite Q. reflexivity. }
  assert (CcwO : d_ccw d' outer = rev inner) by (unfold d_ccw, e_rev; rewrite Op; reflexivity).
  assert (CcwI : d_ccw d' inner = S N) by (unfold d_ccw, e_rev; rewrite Ip; exact RevN).
  assert (CcwN : d_ccw d' N = rev outer) by (unfold d_ccw, e_rev; rewrite Np; reflexivity).
  assert (NCo : ~ CEh d inner (outer :: y :: rest') outer) by (intros (_ & Q); apply Q; right; left; reflexivity).
  assert (NCi : ~ CEh d inner (outer :: y :: rest') inner) by (intros (_ & Q); apply Q; left; reflexivity).
  assert (EtoT : e_to d' (S N) = e_origin d y) by (unfold e_to, e_rev; rewrite RevT, No; exact Cb).
  assert (Eto_stack : forall p, In p (y :: rest') -> e_to d' p = e_to d p) by (intros p Ip'; apply (Org_stack p Ip')).
  assert (ON_ne : e_origin d y <> e_origin d outer).
  { intros E. cbn [map] in ND. apply NoDup_cons_iff in ND. destruct ND as (_ & ND1). apply NoDup_cons_iff in ND1. destruct ND1 as (Na & _).
    apply Na. left. exact E. }
  assert (Oo_fo : e_origin d outer <> fo).
  { rewrite <- FO. intros E. cbn [map] in ND. apply NoDup_cons_iff in ND. destruct ND as (Na & _). apply Na. left. exact E. }
  constructor.
  - (* paths around the vertices on the boundary of the remaining hole *)
    intros p z Pp Lz Oz. destruct Pp as [->|Pp].
    + (* the new pending edge T arrives at the vertex where outer arrived *)
      rewrite RevT. rewrite EtoT in Oz.
      destruct (LE_cases z Lz) as [Lz'|[->| ->]].
      * rewrite (Org z) in Oz by (destruct Lz' as (Q & _); ch_lia).
        apply Path_step; [exact CN|]. rewrite CcwN.
        apply (Path_lift d d' _ _ _ _ Lift). apply PP; [right; left; reflexivity|exact Lz'|rewrite Oz; symmetry; exact Cb].
      * apply Path_refl.
      * rewrite To in Oz. exfalso. apply Fo_y. symmetry. exact Oz.
    + rewrite (Eto_stack p Pp) in Oz.
      assert (Pp' : PEh inner (outer :: y :: rest') p) by (right; right; exact Pp).
      destruct (LE_cases z Lz) as [Lz'|[->| ->]].
      * rewrite (Org z) in Oz by (destruct Lz' as (Q & _); ch_lia).
        apply (Path_lift d d' _ _ _ _ Lift). apply PP; assumption.
      * exfalso. rewrite No in Oz. apply NotIn_o.
        rewrite (IU outer p); [exact Pp|right; left; reflexivity|exact Pp'|exact Oz].
      * (* z = T leaves the fan origin: the path to inner, then inner -> T *)
        rewrite To in Oz.
        apply (Path_trans d' _ _ inner).
        -- apply (Path_lift d d' _ _ _ _ Lift). apply PP; [exact Pp'|exact Li|rewrite FO; exact Oz].
        -- apply Path_step; [exact Ci|]. rewrite CcwI. apply Path_refl.
  - (* cycles around the complete vertices *)
    intros x z Lx Lz Oxz (LVw & NPw).
    assert (Xold : LEh d x /\ e_origin d' x = e_origin d x).
    { destruct (LE_cases x Lx) as [Lx'|[->| ->]].
      - split; [exact Lx'|apply Org; destruct Lx' as (Q & _); ch_lia].
      - exfalso. apply NPw. right. left. rewrite No, Cb. apply (Org_stack y). left. reflexivity.
      - exfalso. apply NPw. left. reflexivity. }
    destruct Xold as (Lx' & Ox). rewrite Ox in Oxz.
    assert (Zold : LEh d z /\ e_origin d' z = e_origin d z).
    { destruct (LE_cases z Lz) as [Lz'|[->| ->]].
      - split; [exact Lz'|apply Org; destruct Lz' as (Q & _); ch_lia].
      - exfalso. apply NPw. rewrite Ox, Oxz. right. left. rewrite No, Cb. apply (Org_stack y). left. reflexivity.
      - exfalso. apply NPw. rewrite Ox, Oxz. left. reflexivity. }
    destruct Zold as (Lz' & Oz). rewrite Oz in Oxz. rewrite Ox in NPw, LVw.
    destruct (Nat.eq_dec (e_origin d x) (e_origin d outer)) as [Eo|Neo].
    + (* the vertex where outer leaves: its path is closed by outer -> rev inner *)
      apply (close_cycle d d' (CEh d inner (outer :: y :: rest')) _ (rev inner) outer x z Lift NCo Co CcwO).
      * apply PP; [left; reflexivity|exact Lx'|rewrite Eo; symmetry; exact Ca].
      * apply PP; [left; reflexivity|exact Lz'|rewrite <- Oxz, Eo; symmetry; exact Ca].
      * apply PP; [left; reflexivity|exact Lo|symmetry; exact Ca].
    + apply (Path_lift d d' _ _ _ _ Lift). apply CC; [exact Lx'|exact Lz'|exact Oxz|].
      split; [apply LV_eq; exact LVw|]. cbn [map]. intros [Q|[Q|Q]].
      * apply NPw. left. rewrite To, <- FO. exact Q.
      * apply Neo. symmetry. exact Q.
      * apply NPw. right. change (In (e_origin d x) (map (e_origin d) (y :: rest'))) in Q.
        apply in_map_iff in Q. destruct Q as (q & Eq & Iq). apply in_map_iff. exists q. split; [|exact Iq].
        rewrite (proj1 (Org_stack q Iq)). exact Eq.
  - (* at most one pending edge arrives at a vertex *)
    intros p q Pp Pq E.
    assert (Old : forall p, In p (y :: rest') -> PEh inner (outer :: y :: rest') p) by (intros p0 I0; right; right; exact I0).
    destruct Pp as [->|Pp]; destruct Pq as [->|Pq]; [reflexivity| | |].
    + exfalso. rewrite EtoT, (Eto_stack q Pq), <- Cb in E. apply NotIn_o.
      rewrite (IU outer q); [exact Pq|right; left; reflexivity|apply Old; exact Pq|exact E].
    + exfalso. rewrite EtoT, (Eto_stack p Pp), <- Cb in E. apply NotIn_o.
      rewrite (IU outer p); [exact Pp|right; left; reflexivity|apply Old; exact Pp|symmetry; exact E].
    + rewrite (Eto_stack p Pp), (Eto_stack q Pq) in E. apply IU; [apply Old; exact Pp|apply Old; exact Pq|exact E].
Qed.
Lemma hp_final : forall d inner nxt prv d',
  Hole d inner [nxt; prv] -> HP d inner [nxt; prv] ->
  FinalPost d d' inner nxt prv fo ->
  forall w, Conn d' (LEh d') w.
Proof.
  intros d inner nxt prv d' [X DL DFL PN FO ND CH NW] [PP CC IU] P.
  pose proof (wl_even _ _ _ _ _ _ X) as Ev.
  assert (Li : LEh d inner) by (apply PN; left; reflexivity).
  assert (Ln : LEh d nxt) by (apply PN; right; left; reflexivity).
  assert (Lp : LEh d prv) by (apply PN; right; right; left; reflexivity).
  assert (Hi : inner < length (d_hedges d)) by apply Li.
  assert (Hn : nxt < length (d_hedges d)) by apply Ln.
  assert (Hp : prv < length (d_hedges d)) by apply Lp.
  cbn [chain] in CH. destruct CH as (Ca & Cb & Cc).
  change (NoDup [e_origin d inner; e_origin d nxt; e_origin d prv]) in ND.
  assert (Dv : e_origin d inner <> e_origin d nxt /\ e_origin d inner <> e_origin d prv /\ e_origin d nxt <> e_origin d prv).
  { apply NoDup_cons_iff in ND. destruct ND as (A & ND1). apply NoDup_cons_iff in ND1. destruct ND1 as (B & _).
    repeat split; intros E.
    - apply A. left. symmetry. exact E.
    - apply A. right. left. symmetry. exact E.
    - apply B. left. symmetry. exact E. }
  destruct Dv as (Dv1 & Dv2 & Dv3).
  assert (De : inner <> nxt /\ inner <> prv /\ nxt <> prv).
  { repeat split; intros E; [apply Dv1|apply Dv2|apply Dv3]; rewrite E; reflexivity. }
  destruct De as (De1 & De2 & De3).
  destruct (he_fields4 _ _ _ _ _ _ (fpo_inner _ _ _ _ _ _ P)) as (In_ & Ip & If & Io).
  destruct (he_fields4 _ _ _ _ _ _ (fpo_nxt _ _ _ _ _ _ P)) as (Xn & Xp & Xf & Xo).
  destruct (he_fields4 _ _ _ _ _ _ (fpo_prv _ _ _ _ _ _ P)) as (Pn & Pp & Pf & Po).
  pose proof (fpo_lenH _ _ _ _ _ _ P) as LH'. pose proof (fpo_lenF _ _ _ _ _ _ P) as LF'.
  pose proof (fpo_lenV _ _ _ _ _ _ P) as LV'. pose proof (fpo_flags _ _ _ _ _ _ P) as LG'.
  pose proof (fpo_other _ _ _ _ _ _ P) as SPo.
  pose proof (fpo_vout_fo _ _ _ _ _ _ P) as SPvf. pose proof (fpo_vout_n _ _ _ _ _ _ P) as SPvn.
  pose proof (fpo_vout_p _ _ _ _ _ _ P) as SPvp. pose proof (fpo_vout_other _ _ _ _ _ _ P) as SPvx.
  pose proof (fpo_adj_G _ _ _ _ _ _ P) as SPaG. pose proof (fpo_adj_other _ _ _ _ _ _ P) as SPax. clear P.
  pose proof (wl_face1 _ _ _ _ _ _ X) as F1.
  remember (length (d_hedges d)) as N eqn:EN. remember (length (d_faces d)) as G eqn:EG.
  assert (Oth : forall x, x <> inner -> x <> nxt -> x <> prv ->
            e_next d' x = e_next d x /\ e_prev d' x = e_prev d x /\ e_face d' x = e_face d x /\ e_origin d' x = e_origin d x).
  { intros x X1 X2 X3. apply he_fields_eq. apply SPo; assumption. }
  assert (Org : forall x, e_origin d' x = e_origin d x).
  { intros x. destruct (Nat.eq_dec x inner) as [->|X1]; [exact Io|].
    destruct (Nat.eq_dec x nxt) as [->|X2]; [exact Xo|].
    destruct (Nat.eq_dec x prv) as [->|X3]; [exact Po|]. apply Oth; assumption. }
  assert (LE_eq : forall e, LEh d' e <-> LEh d e) by (intros e; unfold LEh; rewrite LH', <- EN; tauto).
  assert (LV_eq : forall w, LVh d' w <-> LVh d w) by (intros w; unfold LVh; rewrite LV'; tauto).
  assert (LF_old : forall f, LFh d f -> LFh d' f) by (intros f (A & B); split; [rewrite LF'; ch_lia|exact B]).
  assert (LGG : LFh d' G) by (split; [rewrite LF'; ch_lia|intros D; apply DFL in D; ch_lia]).
  assert (CE_cases : forall e, LEh d' e -> (CEh d inner [nxt; prv] e) \/ e = inner \/ e = nxt \/ e = prv).
  { intros e A. apply LE_eq in A.
    destruct (Nat.eq_dec e inner) as [->|X1]; [right; left; reflexivity|].
    destruct (Nat.eq_dec e nxt) as [->|X2]; [right; right; left; reflexivity|].
    destruct (Nat.eq_dec e prv) as [->|X3]; [right; right; right; reflexivity|].
    left. split; [exact A|]. intros [Q|[Q|[Q|[]]]]; congruence. }
  assert (CE_old : forall e, CEh d inner [nxt; prv] e -> LEh d' e) by (intros e (A & _); apply LE_eq; exact A).
  assert (Old_ne : forall e, CEh d inner [nxt; prv] e -> e <> inner /\ e <> nxt /\ e <> prv).
  { intros e (_ & B). repeat split; intros ->; apply B; [left; reflexivity|right; left; reflexivity|right; right; left; reflexivity]. }
  assert (Li' : LEh d' inner) by (apply LE_eq; exact Li).
  assert (Ln' : LEh d' nxt) by (apply LE_eq; exact Ln).
  assert (Lp' : LEh d' prv) by (apply LE_eq; exact Lp).
  assert (Lift : forall u, CEh d inner [nxt; prv] u -> LEh d' u /\ d_ccw d' u = d_ccw d u).
  { intros u Cu. split; [apply CE_old; exact Cu|]. destruct (Old_ne u Cu) as (E1 & E2 & E3).
    destruct (Oth u E1 E2 E3) as (_ & Q & _). unfold d_ccw. rewrite Q. reflexivity. }
  assert (CcwI : d_ccw d' inner = rev prv) by (unfold d_ccw, e_rev; rewrite Ip; reflexivity).
  assert (CcwX : d_ccw d' nxt = rev inner) by (unfold d_ccw, e_rev; rewrite Xp; reflexivity).
  assert (CcwP : d_ccw d' prv = rev nxt) by (unfold d_ccw, e_rev; rewrite Pp; reflexivity).
  assert (NCi : ~ CEh d inner [nxt; prv] inner) by (intros (_ & Q); apply Q; left; reflexivity).
  assert (NCx : ~ CEh d inner [nxt; prv] nxt) by (intros (_ & Q); apply Q; right; left; reflexivity).
  assert (NCp : ~ CEh d inner [nxt; prv] prv) by (intros (_ & Q); apply Q; right; right; left; reflexivity).
  intros w x z Lx Lz Ox Oz. rewrite Org in Ox, Oz. apply LE_eq in Lx. apply LE_eq in Lz.
  apply (Path_iter d' (LEh d')).
  destruct (Nat.eq_dec w fo) as [->|W1].
  - apply (close_cycle d d' (CEh d inner [nxt; prv]) _ (rev prv) inner x z Lift NCi Li' CcwI).
    + apply PP; [right; right; left; reflexivity|exact Lx|rewrite Ox; symmetry; exact Cc].
    + apply PP; [right; right; left; reflexivity|exact Lz|rewrite Oz; symmetry; exact Cc].
    + apply PP; [right; right; left; reflexivity|exact Li|rewrite FO; symmetry; exact Cc].
  - destruct (Nat.eq_dec w (e_origin d nxt)) as [->|W2].
    + apply (close_cycle d d' (CEh d inner [nxt; prv]) _ (rev inner) nxt x z Lift NCx Ln' CcwX).
      * apply PP; [left; reflexivity|exact Lx|rewrite Ox; symmetry; exact Ca].
      * apply PP; [left; reflexivity|exact Lz|rewrite Oz; symmetry; exact Ca].
      * apply PP; [left; reflexivity|exact Ln|symmetry; exact Ca].
    + destruct (Nat.eq_dec w (e_origin d prv)) as [->|W3].
      * apply (close_cycle d d' (CEh d inner [nxt; prv]) _ (rev nxt) prv x z Lift NCp Lp' CcwP).
        -- apply PP; [right; left; reflexivity|exact Lx|rewrite Ox; symmetry; exact Cb].
        -- apply PP; [right; left; reflexivity|exact Lz|rewrite Oz; symmetry; exact Cb].
        -- apply PP; [right; left; reflexivity|exact Lp|symmetry; exact Cb].
      * apply (Path_lift d d' _ _ _ _ Lift). apply CC; [exact Lx|exact Lz|rewrite Ox, Oz; reflexivity|].
        split; [apply (wl_LV_org _ _ _ _ _ _ X); exact Lx|].
        rewrite Ox. cbn [map]. intros [Q|[Q|[Q|[]]]]; [apply W1; rewrite <- FO|apply W2|apply W3]; symmetry; exact Q.
Qed.

Lemma fan_loop_hp : forall stack d inner ne d1 bl1 inner1 ne1,
  Hole d inner stack -> HP d inner stack -> H0 <= length (d_hedges d) -> 2 <= length stack ->
  fan_loop d stack inner fo ne = (d1, bl1, inner1, ne1) ->
  exists nx pv, bl1 = [nx; pv] /\ Hole d1 inner1 [nx; pv] /\ HP d1 inner1 [nx; pv].
Proof.
  induction stack as [|outer rest IH]; intros d inner ne d1 bl1 inner1 ne1 HO HPd HH L F; [cbn [length] in L; lia|].
  rewrite fan_loop_unfold in F.
  destruct (2 <? length (outer :: rest)) eqn:E.
  - apply Nat.ltb_lt in E. cbn [length] in E.
    destruct (hole_body_pre dead deadF v fo H0 d inner outer rest HO) as (Ev & Hi & Ho & Nio & Hv).
    pose proof (fan_body_post d inner outer fo Ev Hi Ho Nio Hv) as P.
    assert (RN : rest <> []) by (intros ->; cbn [length] in E; lia).
    pose proof (hole_step dead deadF v fo H0 dead_rev d inner outer rest _ HO RN HH P) as HO'.
    pose proof (hp_step d inner outer rest _ HO HPd RN HH P) as HP'.
    assert (NI : e_rev (normalized (num_undirected_edges d)) = S (length (d_hedges d))).
    { unfold e_rev, normalized, num_undirected_edges. rewrite rev_even. lia. }
    rewrite NI in F.
    apply IH in F; [exact F|exact HO'|exact HP'|rewrite (sp_lenH _ _ _ _ _ P); lia|lia].
  - apply Nat.ltb_ge in E. inversion F; subst d1 bl1 inner1 ne1. cbn [length] in *.
    destruct rest as [|pv [|z rest]]; cbn [length] in *; try lia.
    exists outer, pv. split; [reflexivity|]. split; [exact HO|exact HPd].
Qed.

Theorem remesh_Conn : forall d b0 bl etr ftr d1 iso,
  Hole d b0 bl -> HP d b0 bl -> H0 <= length (d_hedges d) -> 2 <= length bl ->
  remesh_edge_ring d (b0 :: bl) etr ftr = Some (d1, iso) ->
  forall w, Conn d1 (LEh d1) w.
Proof.
  intros d b0 bl etr ftr d1 iso HO HPd HH L R.
  rewrite remesh_edge_ring_unfold in R.
  rewrite (ho_fo _ _ _ _ _ _ _ _ HO) in R.
  destruct (fan_loop d bl b0 fo []) as [[[dl bl1] inner] ne] eqn:F.
  apply (fan_loop_hp bl d b0 [] dl bl1 inner ne HO HPd HH L) in F.
  destruct F as (nx & pv & -> & HO1 & HP1).
  inversion R; subst d1 iso; clear R.
  destruct (hole_close_pre dead deadF v fo H0 dl inner nx pv HO1) as (A1 & A2 & A3 & A4 & A5 & A6 & A7 & A8 & A9 & A10 & A11 & A12).
  pose proof (fan_close_post dl inner nx pv fo A1 A2 A3 A4 A5 A6 A7 A8 A9 A10 A11 A12) as P.
  exact (hp_final dl inner nx pv _ HO1 HP1 P).
Qed.
End HPSec.

(* ================================================================================================ *)
(* PART 3.  the star of an interior vertex                                                           *)
(* ================================================================================================ *)
Section StarHP.
Variable d : dcel.
Variables (v a : nat) (es es' : list nat).
Hypothesis W : DW d.
Hypothesis Hv : v < length (d_verts d).
Hypothesis Va : v_out_edge d v = Some a.
Hypothesis O : Orb (d_ccw d) a a es.
Hypothesis Inn : forall x, In x es -> is_outer d x = false.
Hypothesis Cov : forall e, e < length (d_hedges d) -> e_origin d e = v -> In e es.
Hypothesis NDn : NoDup (map (e_to d) es).
Hypothesis Ees : es = a :: es'.
Hypothesis ConnIn : forall w, Conn d (all_he d) w.
Notation n := (length (d_hedges d)).
Local Notation CE0 := (CEh (sdead es) d (e_next d a) (map (e_next d) es')).
Local Notation bl := (sbl d es).

Let X0 : DWX d (all_he d) (all_f d) (all_v d) := DW_DWX_full d W.
Let EF := es_fact d v a es W Hv Va O Inn.
Let ET := es_tri d v a es W Hv Va O Inn Cov NDn.

Lemma shp_BL : e_next d a :: map (e_next d) es' = bl.
Proof. unfold sbl. rewrite Ees. reflexivity. Qed.

Lemma shp_PE : forall e, PEh (e_next d a) (map (e_next d) es') e <-> In e bl.
Proof. intros e. rewrite <- shp_BL. unfold PEh. cbn [In]. split; (intros [Q|Q]; [left; symmetry; exact Q|right; exact Q]). Qed.

Lemma shp_CE : forall e, CE0 e <-> (e < n /\ ~ sdead es e /\ ~ In e bl).
Proof. intros e. unfold CEh, LEh. rewrite shp_PE. tauto. Qed.

Lemma sdead_dec : forall e, sdead es e \/ ~ sdead es e.
Proof.
  intros e. unfold sdead. destruct (in_dec Nat.eq_dec e es) as [A|A]; [left; left; exact A|].
  destruct (in_dec Nat.eq_dec (rev e) es) as [B|B]; [left; right; exact B|right; tauto].
Qed.

Lemma shp_CE_dec : forall e, CE0 e \/ ~ CE0 e.
Proof.
  intros e. rewrite shp_CE. destruct (lt_dec e n) as [A|A]; [|right; tauto].
  destruct (sdead_dec e) as [B|B]; [right; tauto|].
  destruct (in_dec Nat.eq_dec e bl) as [C|C]; [right; tauto|left; tauto].
Qed.

Lemma shp_iter : forall x k, x < n -> Nat.iter k (d_ccw d) x < n /\ e_origin d (Nat.iter k (d_ccw d) x) = e_origin d x.
Proof. intros x k Hx. apply (iter_ccw_live d _ _ _ x k X0 Hx). Qed.

(* around a vertex that is not a neighbour of v nothing is pending: the whole orbit consists of complete half-edges *)
Lemma shp_far : forall u, u < n -> e_origin d u <> v -> ~ In (e_origin d u) (map (e_to d) es) -> CE0 u.
Proof.
  intros u Hu Nv Nr. apply shp_CE. split; [exact Hu|]. split.
  - intros [D|D].
    + destruct (EF u D) as (_ & Q & _). exact (Nv Q).
    + apply Nr. apply in_map_iff. exists (rev u). split; [|exact D]. unfold e_to, e_rev. rewrite rev_rev. reflexivity.
  - intros B. apply in_sbl in B. destruct B as (t & It & ->). apply Nr.
    destruct (ET t It) as (_ & _ & _ & _ & _ & _ & _ & _ & T9 & _). rewrite T9. apply in_map. exact It.
Qed.

(* around the neighbour m = e_to t of v (t a spoke): the only half-edges leaving m that are not complete are the twin of t (dead) and the
   border edge next t (pending) *)
Lemma shp_near : forall t u, In t es -> u < n -> e_origin d u = e_to d t -> ~ CE0 u -> u = rev t \/ u = e_next d t.
Proof.
  intros t u It Hu Ou NC.
  assert (Inj : forall t', In t' es -> e_to d t' = e_to d t -> t' = t) by (intros t' It' E; apply (NoDup_map_neq _ _ (e_to d) es); assumption).
  destruct (EF t It) as (Ht & Ot & _).
  destruct (sdead_dec u) as [[D|D]|ND].
  - exfalso. destruct (EF u D) as (_ & Q & _). apply (dw_org_neq d W t Ht). rewrite Ot, <- Q, Ou. reflexivity.
  - left. rewrite <- (Inj (rev u) D); [symmetry; apply rev_rev|]. unfold e_to, e_rev. rewrite rev_rev. exact Ou.
  - destruct (in_dec Nat.eq_dec u bl) as [B|NB]; [|exfalso; apply NC; apply shp_CE; tauto].
    right. apply in_sbl in B. destruct B as (t' & It' & ->). f_equal. apply Inj; [exact It'|].
    destruct (ET t' It') as (_ & _ & _ & _ & _ & _ & _ & _ & T9 & _). rewrite <- T9. exact Ou.
Qed.

(* the path around the neighbour at which the border edge next x arrives *)
Lemma shp_path : forall x, In x es -> forall k z, ~ sdead es z ->
  Nat.iter k (d_ccw d) (rev (e_next d x)) = z -> Path d CE0 (rev (e_next d x)) z.
Proof.
  intros x Ix.
  destruct (ET x Ix) as (T1 & T2 & T3 & T4 & T5 & T6 & T7 & T8 & T9 & T10 & T11 & T12 & T13).
  set (t := rev (e_prev d x)) in *. set (s := rev (e_next d x)).
  destruct (EF t T13) as (Ht & Ot & _).
  assert (Hs : s < n) by (apply dw_rev_lt; assumption).
  assert (Os : e_origin d s = e_to d t).
  { unfold s, t, e_to, e_rev. rewrite rev_rev. exact T10. }
  assert (F1 : d_ccw d (e_next d t) = rev t) by (unfold d_ccw, e_rev; rewrite (dw_prev_next d W t Ht); reflexivity).
  assert (F2 : d_ccw d (rev t) = s) by (unfold d_ccw, e_rev, t, s; rewrite rev_rev, T6; reflexivity).
  intros k. induction k as [k IH] using lt_wf_ind. intros z Nz Ez.
  destruct (bounded_all_or_ex (fun i => CE0 (Nat.iter i (d_ccw d) s)) k (fun i => shp_CE_dec _)) as [All|(i & Hi & Ni)].
  - rewrite <- Ez. apply Path_walk. exact All.
  - destruct (shp_iter s i Hs) as (Ru & Ou). rewrite Os in Ou.
    destruct (shp_near t _ T13 Ru Ou Ni) as [Eu|Eu].
    + (* the walk has reached the dead twin of t: one more step leads back to the start *)
      assert (Es : Nat.iter (S i) (d_ccw d) s = s) by (rewrite iter_S, Eu; exact F2).
      apply (IH (k - S i)); [lia|exact Nz|].
      rewrite <- Ez. pose proof (iter_add (d_ccw d) (k - S i) (S i) s) as Q. rewrite Es in Q.
      replace (k - S i + S i) with k in Q by lia. symmetry. exact Q.
    + assert (E1 : Nat.iter (S i) (d_ccw d) s = rev t) by (rewrite iter_S, Eu; exact F1).
      destruct (Nat.eq_dec (S i) k) as [Ek|Nk].
      * exfalso. apply Nz. rewrite <- Ez, <- Ek, E1. right. rewrite rev_rev. exact T13.
      * assert (Es : Nat.iter (S (S i)) (d_ccw d) s = s) by (rewrite iter_S, E1; exact F2).
        apply (IH (k - S (S i))); [lia|exact Nz|].
        rewrite <- Ez. pose proof (iter_add (d_ccw d) (k - S (S i)) (S (S i)) s) as Q. rewrite Es in Q.
        replace (k - S (S i) + S (S i)) with k in Q by lia. symmetry. exact Q.
Qed.

Theorem star_hp :
  HP (sdead es) v d (e_next d a) (map (e_next d) es').
Proof.
  constructor.
  - intros p z Pp (Hz & Nz) Oz. apply shp_PE in Pp. apply in_sbl in Pp. destruct Pp as (x & Ix & ->).
    destruct (ET x Ix) as (T1 & _).
    assert (Hs : rev (e_next d x) < n) by (apply dw_rev_lt; assumption).
    destruct (ConnIn (e_origin d z) (rev (e_next d x)) z Hs Hz) as (k & Ek); [exact (eq_sym Oz)|reflexivity|].
    apply (shp_path x Ix k z Nz Ek).
  - intros x z (Hx & Nx) (Hz & Nz) Oxz ((LVw1 & LVw2) & NPw).
    change (map (e_origin d) (e_next d a :: map (e_next d) es')) with (map (e_origin d) (e_next d a :: map (e_next d) es')) in NPw.
    rewrite shp_BL, (sbl_origins d v a es W Hv Va O Inn Cov NDn) in NPw.
    destruct (ConnIn (e_origin d x) x z Hx Hz eq_refl (eq_sym Oxz)) as (k & Ek).
    rewrite <- Ek. apply Path_walk. intros i _.
    destruct (shp_iter x i Hx) as (Ru & Ou).
    apply shp_far; [exact Ru|rewrite Ou; exact LVw2|rewrite Ou; exact NPw].
  - intros p q Pp Pq E. apply shp_PE in Pp, Pq. apply in_sbl in Pp, Pq.
    destruct Pp as (x & Ix & ->). destruct Pq as (y & Iy & ->).
    destruct (ET x Ix) as (_ & _ & _ & _ & _ & _ & _ & _ & _ & X10 & _ & _ & X13).
    destruct (ET y Iy) as (_ & _ & _ & _ & _ & _ & _ & _ & _ & Y10 & _ & _ & Y13).
    assert (Q : rev (e_prev d x) = rev (e_prev d y)).
    { apply (NoDup_map_neq _ _ (e_to d) es); [exact NDn|exact X13|exact Y13|].
      unfold e_to, e_rev. rewrite !rev_rev. rewrite <- X10, <- Y10. exact E. }
    apply rev_inj in Q. f_equal.
    apply (dw_prev_inj d W); [apply (EF x Ix)|apply (EF y Iy)|exact Q].
Qed.
End StarHP.

(* ================================================================================================ *)
(* PART 4.  legalization, cleanup, swap_remove_vertex; the theorem                                   *)
(* ================================================================================================ *)

Lemma legalize_after_removal_Conn : forall pts (LE LF LV : nat -> Prop) smallest k d stack d',
  DWX d LE LF LV -> NewInner LE smallest d ->
  (forall u, In u stack -> u < length (d_flags d)) ->
  (forall w, Conn d LE w) ->
  legalize_after_removal pts k d stack smallest = Some d' ->
  forall w, Conn d' LE w.
Proof.
  intros pts LE LF LV smallest. induction k as [|k IH]; intros d stack d' X NI SO C H; cbn [legalize_after_removal] in H; [discriminate|].
  destruct stack as [|u rest]; [inversion H; subst; exact C|].
  cbv zeta in H.
  assert (SOr : forall w, In w rest -> w < length (d_flags d)) by (intros w Hw; apply SO; right; exact Hw).
  destruct (is_flagged d (normalized u) || (u <? smallest)) eqn:Skip; [apply (IH d rest d' X NI SOr C H)|].
  apply orb_false_iff in Skip. destruct Skip as (_ & Sm). apply Nat.ltb_ge in Sm.
  assert (Lu : u < length (d_flags d)) by (apply SO; left; reflexivity).
  destruct (NI u Sm Lu) as (Le & F0 & F1).
  unfold normalized, e_rev in H. rewrite rev_even in H.
  assert (O0 : is_outer d (2 * u) = false) by (unfold is_outer; apply Nat.eqb_neq; exact F0).
  assert (O1 : is_outer d (2 * u + 1) = false) by (unfold is_outer; apply Nat.eqb_neq; exact F1).
  rewrite O0, O1 in H.
  destruct (0 <? incircle (vpos pts (e_origin d (2 * u))) (vpos pts (e_to d (2 * u)))
                          (vpos pts (apex d (2 * u))) (vpos pts (apex d (2 * u + 1))))%Z eqn:SF.
  - assert (Apex : e_origin d (e_prev d (2 * u)) <> e_origin d (e_prev d (2 * u + 1))).
    { intros E. unfold apex in SF. rewrite E in SF. rewrite incircle_same_apex in SF. discriminate. }
    assert (AU : as_undirected (2 * u) = u) by (unfold as_undirected; apply Nat.div2_double).
    rewrite AU in H.
    destruct (flip_cw_DWX d u LE LF LV X Le F0 F1 Apex) as (X' & Post & Face0 & _).
    pose proof (flip_cw_Conn d u LE LF LV X Le F0 F1 Apex C) as C'.
    assert (LG : length (d_flags (fst (flip_cw d u))) = length (d_flags d)) by (rewrite (fp_flags _ _ _ Post); reflexivity).
    refine (IH _ _ d' X' _ _ C' H).
    + intros w W1 W2. rewrite LG in W2. destruct (NI w W1 W2) as (A & B & C0).
      split; [exact A|]. split; intros Q; [apply B|apply C0]; apply Face0; exact Q.
    + unfold DWX in X.
      assert (Lr : LE (2 * u + 1)) by (rewrite <- rev_even; apply (wl_LE_rev _ _ _ _ _ _ X); exact Le).
      assert (U : forall x, LE x -> as_undirected x < length (d_flags d)).
      { intros x Lx. unfold as_undirected. apply div2_lt_even. rewrite (wl_even _ _ _ _ _ _ X). apply (wl_LE_lt _ _ _ _ _ _ X). exact Lx. }
      intros w Hw. rewrite LG.
      apply push_if_not_contained_cases in Hw. destruct Hw as [->|Hw]; [apply U; apply (wl_CE_prev _ _ _ _ _ _ X); exact Lr|].
      apply push_if_not_contained_cases in Hw. destruct Hw as [->|Hw]; [apply U; apply (wl_CE_next _ _ _ _ _ _ X); exact Lr|].
      apply push_if_not_contained_cases in Hw. destruct Hw as [->|Hw]; [apply U; apply (wl_CE_prev _ _ _ _ _ _ X); exact Le|].
      apply push_if_not_contained_cases in Hw. destruct Hw as [->|Hw]; [apply U; apply (wl_CE_next _ _ _ _ _ _ X); exact Le|].
      apply SOr. exact Hw.
  - apply (IH d rest d' X NI SOr C H).
Qed.

Lemma Orb_iter_in : forall f a l, Orb f a a l -> forall n, In (Nat.iter n f a) l.
Proof.
  intros f a l O n. induction n as [|n IH].
  - destruct (Orb_head _ _ _ _ O) as (l' & ->). left. reflexivity.
  - rewrite iter_S. destruct (Orb_succ _ _ _ _ O _ IH) as [Q|Q]; [exact Q|].
    rewrite Q. destruct (Orb_head _ _ _ _ O) as (l' & ->). left. reflexivity.
Qed.

Lemma NoDup_range_length : forall l m, NoDup l -> (forall f, In f l -> 0 < f /\ f < m) -> length l < m \/ l = [].
Proof.
  intros l m ND R. destruct l as [|x t]; [right; reflexivity|left].
  assert (I : incl (x :: t) (seq 1 (m - 1))) by (intros f Hf; apply in_seq; specialize (R f Hf); lia).
  pose proof (NoDup_incl_length ND I) as L. rewrite seq_length in L.
  destruct (R x (or_introl eq_refl)). lia.
Qed.

Lemma iter_ext_in : forall (P : nat -> Prop) (f g : nat -> nat) n x,
  (forall u, P u -> g u = f u /\ P (f u)) -> P x -> Nat.iter n g x = Nat.iter n f x /\ P (Nat.iter n f x).
Proof.
  intros P f g n x E Px. induction n as [|n (I1 & I2)]; [split; [reflexivity|exact Px]|].
  rewrite !iter_S, I1. destruct (E _ I2) as (E1 & E2). split; assumption.
Qed.

(* THE THEOREM: removing an interior vertex with pairwise different neighbours from a link-level well-formed dcel that satisfies the
   vertex-orbit clause gives a link-level well-formed dcel that satisfies the vertex-orbit clause *)
Theorem remove_interior_DWf : forall pts fuel d v a bl es d' r,
  DWf d -> (forall w, Conn d (all_he d) w) ->
  v_out_edge d v = Some a -> border_scan fuel d a a [] = Some (bl, None) ->
  out_edges fuel d v = Some es ->
  NoDup (map (e_to d) es) ->
  remove_vertex_full pts fuel d v = Some (d', r) ->
  DWf d' /\ (forall w, Conn d' (all_he d') w).
Proof.
  intros pts fuel d v a bl es d' r Wf ConnIn Va B OE NDn H.
  apply DWf_DW in Wf. rename Wf into W.
  unfold remove_vertex_full in H.
  destruct (Nat.leb_spec (Raw.num_vertices d) v) as [|Hv]; [discriminate|]. unfold Raw.num_vertices in Hv.
  (* the orbit *)
  pose proof OE as OE'. unfold out_edges in OE'. rewrite Va in OE'.
  apply circ_iter_Orb in OE'. destruct OE' as (O & Lk).
  assert (Ra : a < length (d_hedges d)) by (eapply (dw_vout_rng d W v); [exact Hv|exact Va]).
  assert (Oa : e_origin d a = v) by (pose proof (dw_vptr d W v Hv) as P; rewrite Va in P; exact P).
  assert (Cov : forall e, e < length (d_hedges d) -> e_origin d e = v -> In e es).
  { intros e He Oe. destruct (ConnIn v a e Ra He Oa Oe) as (k & <-). apply Orb_iter_in. exact O. }
  assert (Rng : forall x, In x es -> x < length (d_hedges d)).
  { apply (Orb_closed (d_ccw d) a (fun x => x < length (d_hedges d))) with (c := a); [|exact O|exact Ra].
    intros x Hx. unfold d_ccw, e_rev. apply dw_rev_lt; [exact W|]. apply dw_prev_lt; assumption. }
  assert (Inv : forall x, In x es -> d_cw d (d_ccw d x) = x).
  { intros x Hx. unfold d_cw, d_ccw, e_rev. rewrite rev_rev. apply dw_next_prev; [exact W|apply Rng; exact Hx]. }
  pose proof B as B'.
  replace fuel with ((fuel - length es) + length es) in B' by lia.
  apply (border_scan_orbit d a a es O Inv) in B'. destruct B' as (Inn & B').
  rewrite Nat.eqb_refl in B'. rewrite app_nil_r in B'.
  destruct (Orb_head _ _ _ _ O) as (es' & Ees).
  pose proof (star_hole d v a es W Hv Va O Inn Cov NDn es' Ees) as HO.
  pose proof (star_hp d v a es es' W Hv Va O Inn Cov NDn Ees ConnIn) as HPd.
  pose proof (es_fact d v a es W Hv Va O Inn) as EF.
  assert (F2 : (Raw.num_faces d <=? 1) = false).
  { apply Nat.leb_gt. destruct (EF a) as (_ & _ & Ia); [rewrite Ees; left; reflexivity|].
    pose proof (dw_face_lt d W a Ra). unfold inner in Ia. unfold Raw.num_faces. lia. }
  rewrite F2 in H. unfold remove_2d in H. rewrite Va, B in H.
  unfold isolate_vertex_and_fill_hole in H. rewrite OE in H.
  rewrite (filter_face_es d v a es W Hv Va O Inn) in H.
  destruct (remesh_edge_ring d bl (map as_undirected es) (map (e_face d) es)) as [[d1 iso]|] eqn:R; [|discriminate].
  pose proof (remesh_edge_ring_sizes _ _ _ _ _ _ R) as (S1 & S2 & _ & _ & S5 & _).
  remember (map as_undirected es) as etr eqn:Eetr. remember (map (e_face d) es) as ftr eqn:Eftr.
  pose proof R as R0.
  rewrite B', Ees in R. cbn [map] in R.
  assert (L2 : 2 <= length (map (e_next d) es')).
  { rewrite B', Ees in S1. cbn [map length] in S1. lia. }
  destruct (remesh_DWX (sdead es) (sdeadF d es) v _ _ (sdead_rev es) d _ _ _ _ d1 iso HO (le_n _) L2 R)
    as (X1 & NI1 & DL1 & DFL1 & LL & I1 & I2 & I3 & I4).
  pose proof (remesh_Conn (sdead es) (sdeadF d es) v _ _ (sdead_rev es) d _ _ _ _ d1 iso HO HPd (le_n _) L2 R) as C1.
  (* legalization *)
  destruct (legalize_after_removal pts fuel d1 (iso_new_edges iso) (iso_smallest_new_edge iso)) as [d2|] eqn:G; [|discriminate].
  rewrite I3 in G.
  pose proof (Keep_legalize_after_removal _ _ _ _ _ _ G) as (K1 & K2 & K3 & K4).
  pose proof (dw_even d W) as Ev0. pose proof (wl_even _ _ _ _ _ _ X1) as Ev1.
  assert (NIn : NewInner (LEh (sdead es) d1) (length (d_flags d)) d1).
  { intros u U1 U2.
    assert (A : forall e, length (d_hedges d) <= e -> e < length (d_hedges d1) -> LEh (sdead es) d1 e).
    { intros e E1 E2. split; [exact E2|]. intros D. apply (ho_dead_lt _ _ _ _ _ _ _ _ HO) in D. lia. }
    assert (A0 : LEh (sdead es) d1 (2 * u)) by (apply A; lia).
    assert (A1 : LEh (sdead es) d1 (2 * u + 1)) by (apply A; lia).
    split; [exact A0|]. split; apply NI1; try assumption; lia. }
  assert (SO : forall u, In u (iso_new_edges iso) -> u < length (d_flags d1)) by (intros u Hu; apply I4; exact Hu).
  destruct (legalize_after_removal_DWX pts _ _ _ _ fuel d1 _ d2 X1 NIn SO G) as (X2 & _).
  pose proof (legalize_after_removal_Conn pts _ _ _ _ fuel d1 _ d2 X1 NIn SO C1 G) as C2.
  (* cleanup: edges *)
  destruct (cleanup_isolated_vertex d2 iso) as [d3|] eqn:C; [|discriminate].
  unfold cleanup_isolated_vertex in C. rewrite I1, I2 in C. subst etr ftr.
  destruct (fold_opt swap_remove_undirected_edge (sort_desc (map as_undirected es)) d2) as [d3e|] eqn:CE; [|discriminate].
  pose proof (fold_swap_remove_edges_sizes _ _ _ CE) as (Z1 & Z2 & _ & _).
  assert (PermE : forall u, In u (sort_desc (map as_undirected es)) <-> In u (map as_undirected es)).
  { intros u. split; apply Permutation_in; [apply Permutation_sym|]; apply sort_desc_perm. }
  assert (PermF : forall f, In f (sort_desc (map (e_face d) es)) <-> In f (map (e_face d) es)).
  { intros f. split; apply Permutation_in; [apply Permutation_sym|]; apply sort_desc_perm. }
  assert (LEeq : forall e, LEh (sdead es) d1 e <-> e < length (d_hedges d2) /\ ~ In (Nat.div2 e) (sort_desc (map as_undirected es))).
  { intros e. unfold LEh. rewrite K2, PermE, <- (sdead_div2 es). reflexivity. }
  destruct (cleanup_edges_Conn (sort_desc (map as_undirected es)) d2 (LFh (sdeadF d es) d1) (LVh v d1) d3e) as (X3e & C3e).
  { apply sort_desc_sorted. apply (NoDup_und_es d v a es W Hv Va O Inn NDn). }
  { intros u Hu. apply PermE in Hu. unfold Raw.num_undirected_edges. rewrite K4.
    apply in_map_iff in Hu. destruct Hu as (x & <- & Ix).
    unfold as_undirected. apply div2_lt_even. rewrite Ev1. apply DL1. left. exact Ix. }
  { unfold DWX. apply (DWL_ext d2 (LEh (sdead es) d1) (LEh (sdead es) d1) (LFh (sdeadF d es) d1) (LVh v d1) (LVh v d1)); try (intros; reflexivity); [exact LEeq|exact LEeq|exact X2]. }
  { intros w. apply (Conn_ext d2 (LEh (sdead es) d1)); [exact LEeq|apply C2]. }
  { exact CE. }
  (* cleanup: faces *)
  assert (SortF : StronglySorted gt (sort_desc (map (e_face d) es))).
  { apply sort_desc_sorted. apply (NoDup_face_es d v a es W Hv Va O Inn Cov NDn). }
  assert (RngF : forall f, In f (sort_desc (map (e_face d) es)) -> 0 < f /\ f < Raw.num_faces d3e).
  { intros f Hf. apply PermF in Hf. split; [apply (face_es_rng d v a es W Hv Va O Inn f Hf)|].
    unfold Raw.num_faces. rewrite Z2, K3. apply DFL1. exact Hf. }
  assert (X3f : DWX d3e (fun e => e < length (d_hedges d3e)) (fun g => g < length (d_faces d3e) /\ ~ In g (sort_desc (map (e_face d) es))) (LVh v d1)).
  { unfold DWX. apply (DWL_ext d3e (fun e => e < length (d_hedges d3e)) (fun e => e < length (d_hedges d3e)) (LFh (sdeadF d es) d1) (LVh v d1) (LVh v d1));
      try (intros; reflexivity); [|exact X3e].
    intros f. unfold LFh, sdeadF. rewrite Z2, K3, PermF. reflexivity. }
  destruct (cleanup_faces_DWX _ d3e _ _ d3 SortF RngF X3f C) as (X3 & V3 & _ & H3).
  pose proof (cleanup_faces_Conn _ d3e _ _ d3 SortF RngF X3f C3e C) as C3.
  pose proof (fold_swap_remove_faces_sizes _ _ _ C) as (_ & _ & _ & Z4). rewrite sort_desc_length, map_length in Z4.
  (* the vertex *)
  assert (LV3 : length (d_verts d3) = length (d_verts d)).
  { rewrite V3. rewrite (vtable_len _ _ Z1), (vtable_len _ _ K1), (vtable_len _ _ S2). reflexivity. }
  assert (X3' : DWX d3 (all_he d3) (all_f d3) (fun w => w < length (d_verts d3) /\ w <> v)).
  { unfold DWX. apply (DWL_ext d3 (fun e => e < length (d_hedges d3e)) (fun e => e < length (d_hedges d3e))
                          (fun g => g < length (d_faces d3)) (LVh v d1) (LVh v d1)); try (intros; reflexivity); [| | | |exact X3].
    - intros e. unfold all_he. rewrite H3. reflexivity.
    - intros e. unfold all_he. rewrite H3. reflexivity.
    - intros w. unfold LVh. rewrite LV3, (vtable_len _ _ S2). reflexivity.
    - intros w. unfold LVh. rewrite LV3, (vtable_len _ _ S2). reflexivity. }
  assert (C3' : forall w, Conn d3 (all_he d3) w).
  { intros w. apply (Conn_ext d3 (fun e => e < length (d_hedges d3e))); [intros e; unfold all_he; rewrite H3; reflexivity|apply C3]. }
  (* d3 has half-edges: it still has an inner face *)
  assert (NH : 0 < length (d_hedges d3)).
  { assert (NF : 2 <= length (d_faces d3)).
    { destruct (NoDup_range_length (map (e_face d) es) (length (d_faces d))
                 (NoDup_face_es d v a es W Hv Va O Inn Cov NDn) (face_es_rng d v a es W Hv Va O Inn)) as [Q|Q].
      - rewrite map_length in Q. rewrite B', map_length in S1, S5. rewrite Z2, K3 in Z4. lia.
      - rewrite Ees in Q. discriminate. }
    unfold DWX in X3'. pose proof (wl_adj _ _ _ _ _ _ X3' 1) as Q. unfold all_f in Q.
    destruct (f_adjacent d3 1) as [e|].
    - destruct Q as (Q & _); [lia|]. unfold all_he in Q. lia.
    - destruct Q as (Q & _); [lia|]. discriminate. }
  assert (Cases : S v = length (d_verts d3) \/ OrbitCovers fuel d3 (length (d_verts d3) - 1)).
  { destruct (Nat.eq_dec (S v) (length (d_verts d3))) as [E|NE]; [left; exact E|right].
    set (last := length (d_verts d3) - 1).
    assert (VL : v < last) by (unfold last; lia).
    unfold DWX in X3'. pose proof (wl_vout _ _ _ _ _ _ X3' last) as Q.
    destruct (v_out_edge d3 last) as [a2|] eqn:Va2; [|exfalso; destruct Q; [split; unfold last; lia|lia]].
    destruct Q as (Qa & Qo); [split; unfold last; lia|]. unfold all_he in Qa.
    (* the orbit list comes from the successful run *)
    pose proof H as H'. unfold swap_remove_vertex in H'. unfold Raw.num_vertices in H'.
    destruct (Nat.leb_spec (length (d_verts d3)) v); [lia|]. cbv zeta in H'.
    cbn [with_verts d_verts] in H'. rewrite swap_remove_list_length in H'.
    fold last in H'. destruct (Nat.eqb_spec last v); [lia|]. cbn [negb] in H'.
    set (d4 := with_verts d3 (swap_remove_list dflt_v v (d_verts d3))) in *.
    assert (VO : v_out_edge d4 v = Some a2).
    { unfold v_out_edge, d4, with_verts. cbn [d_verts].
      rewrite (swap_remove_list_nth _ dflt_v (d_verts d3) last v v); [rewrite Nat.eqb_refl; exact Va2|unfold last; lia|exact VL|exact VL]. }
    unfold out_edges in H'. rewrite VO in H'.
    destruct (circ_iter (d_ccw d4) fuel a2 a2) as [es2|] eqn:CI; [|discriminate].
    exists a2, es2. split; [exact Va2|]. split; [exact CI|].
    intros e He Oe. destruct (C3' last a2 e Qa He Qo Oe) as (k & <-).
    apply circ_iter_Orb in CI. destruct CI as (O2 & _).
    change (d_ccw d4) with (d_ccw d3) in O2. apply Orb_iter_in. exact O2. }
  assert (Hv3 : v < length (d_verts d3)) by (rewrite LV3; exact Hv).
  destruct (swap_remove_vertex_relabel fuel d3 v d' r X3' Hv3 Cases H) as (phi & LH & EF' & EG & LVd & RD & PR & PI & PS).
  split.
  - apply DWf_DW. apply (vertex_relabel_DW d3 d' v phi X3' LH EF' EG RD PR PI PS).
  - intros w x y Lx Ly Ox Oy. unfold all_he in Lx, Ly. rewrite LH in Lx, Ly.
    destruct (RD x Lx) as (_ & _ & _ & Rx). destruct (RD y Ly) as (_ & _ & _ & Ry).
    unfold DWX, all_he in X3'.
    destruct (wl_org _ _ _ _ _ _ X3' x Lx) as ((Vx1 & Vx2) & _). destruct (wl_org _ _ _ _ _ _ X3' y Ly) as ((Vy1 & Vy2) & _).
    assert (E : e_origin d3 x = e_origin d3 y) by (apply PI; try assumption; rewrite <- Rx, <- Ry, Ox, Oy; reflexivity).
    destruct (C3' (e_origin d3 x) x y Lx Ly eq_refl (eq_sym E)) as (k & Ek).
    exists k. rewrite <- Ek.
    apply (iter_ext_in (fun u => u < length (d_hedges d3)) (d_ccw d3) (d_ccw d') k x); [|exact Lx].
    intros u Hu. split.
    + destruct (RD u Hu) as (_ & Q & _). unfold d_ccw. rewrite Q. reflexivity.
    + apply (ccw_live d3 _ _ _ u X3' Hu).
Qed.
Print Assumptions remove_interior_DWf.

(* ================================================================================================ *)
(* PART 5.  the vertex-orbit clause of the full Wf (Obs/SpecProp.v WfVertexOrbits) implies Conn        *)
(* ================================================================================================ *)

Lemma NoDup_snoc : forall A (l : list A) x, NoDup l -> ~ In x l -> NoDup (l ++ [x]).
Proof.
  intros A l x ND NI. induction l as [|a t IH]; cbn [app]; [constructor; [intros []|constructor]|].
  apply NoDup_cons_iff in ND. destruct ND as (Na & ND). constructor.
  - intros I. apply in_app_or in I. destruct I as [I|[I|[]]]; [exact (Na I)|apply NI; left; symmetry; exact I].
  - apply IH; [exact ND|intros I; apply NI; right; exact I].
Qed.

Lemma dup_or_nodup : forall (g : nat -> nat) n,
  (exists i j, i < j /\ j <= n /\ g i = g j) \/ NoDup (map g (seq 0 (S n))).
Proof.
  intros g n. induction n as [|n IH].
  - right. cbn. constructor; [intros []|constructor].
  - destruct IH as [(i & j & A & B & C)|ND]; [left; exists i, j; repeat split; [exact A|lia|exact C]|].
    replace (seq 0 (S (S n))) with (seq 0 (S n) ++ [S n]) by (rewrite <- seq_S; reflexivity).
    rewrite map_app. cbn [map].
    destruct (in_dec Nat.eq_dec (g (S n)) (map g (seq 0 (S n)))) as [I|NI].
    + left. apply in_map_iff in I. destruct I as (i & E & Ii). apply in_seq in Ii.
      exists i, (S n). repeat split; [lia|lia|exact E].
    + right. apply NoDup_snoc; assumption.
Qed.

(* an injective self-map of a bounded set: every orbit is periodic *)
Lemma iter_period : forall (P : nat -> Prop) (f : nat -> nat) N a,
  (forall u, P u -> P (f u) /\ u < N) ->
  (forall u w, P u -> P w -> f u = f w -> u = w) ->
  P a -> exists p, 0 < p /\ Nat.iter p f a = a.
Proof.
  intros P f N a Cl Inj Pa.
  assert (PI : forall k, P (Nat.iter k f a)) by (induction k as [|k IH]; [exact Pa|rewrite iter_S; apply Cl; exact IH]).
  destruct (dup_or_nodup (fun k => Nat.iter k f a) N) as [(i & j & A & B & C)|ND].
  - exists (j - i). split; [lia|].
    replace j with (i + (j - i)) in C by lia. rewrite iter_add in C.
    clear B. revert C. generalize (Nat.iter (j - i) f a), (PI (j - i)). intros b Pb.
    induction i as [|i IH]; intros C; [symmetry; exact C|].
    apply IH; [lia|]. rewrite !iter_S in C. apply Inj in C; [exact C|apply PI|].
    clear - Cl Pb. induction i as [|i IH]; [exact Pb|rewrite iter_S; apply Cl; exact IH].
  - exfalso. assert (I : incl (map (fun k => Nat.iter k f a) (seq 0 (S N))) (seq 0 N)).
    { intros x Hx. apply in_map_iff in Hx. destruct Hx as (k & <- & _). apply in_seq. destruct (Cl _ (PI k)). lia. }
    pose proof (NoDup_incl_length ND I) as L. rewrite map_length, !seq_length in L. lia.
Qed.

Lemma iter_mul_period : forall (f : nat -> nat) p a m, Nat.iter p f a = a -> Nat.iter (m * p) f a = a.
Proof.
  intros f p a m E. induction m as [|m IH]; [reflexivity|].
  change (S m * p) with (p + m * p). rewrite iter_add, IH. exact E.
Qed.

Theorem WfVertexOrbits_Conn : forall d, DW d -> Obs.SpecProp.WfVertexOrbits (obs_of_dcel d) -> forall w, Conn d (all_he d) w.
Proof.
  intros d W VO w x y Hx Hy Ox Oy. unfold all_he in Hx, Hy.
  pose proof (DW_DWX_full d W) as X.
  assert (Hw : w < length (d_verts d)) by (rewrite <- Ox; apply dw_org_lt; assumption).
  pose proof (dw_vptr d W w Hw) as Vp.
  destruct (v_out_edge d w) as [a|] eqn:Va; [|lia].
  pose proof (dw_vout_rng d W w Hw a Va) as Ha.
  assert (CC : forall e, Obs.State.ccw (obs_of_dcel d) e = d_ccw d e) by reflexivity.
  assert (IT : forall k e, Nat.iter k (Obs.State.ccw (obs_of_dcel d)) e = Nat.iter k (d_ccw d) e).
  { intros k e. induction k as [|k IH]; [reflexivity|]. rewrite !iter_S, IH. apply CC. }
  destruct (VO w Hw a Va x Hx Ox) as (k1 & _ & E1). destruct (VO w Hw a Va y Hy Oy) as (k2 & _ & E2).
  rewrite IT in E1, E2.
  destruct (iter_period (fun u => u < length (d_hedges d)) (d_ccw d) (length (d_hedges d)) a) as (p & Pp & Ep).
  - intros u Hu. split; [apply (ccw_live d _ _ _ u X Hu)|exact Hu].
  - intros u u' Hu Hu' E. rewrite <- (cw_ccw d _ _ _ u X Hu), <- (cw_ccw d _ _ _ u' X Hu'), E. reflexivity.
  - exact Ha.
  - (* x = ccw^k1 a, so ccw^(k1 (p-1)) x = ccw^(k1 p) a = a, and k2 more steps lead to y *)
    assert (Q : Nat.iter (k1 * (p - 1)) (d_ccw d) x = a).
    { rewrite <- E1, <- iter_add. replace (k1 * (p - 1) + k1) with (k1 * p) by nia. apply iter_mul_period. exact Ep. }
    exists (k2 + k1 * (p - 1)). rewrite iter_add, Q. exact E2.
Qed.
Print Assumptions WfVertexOrbits_Conn.

(* the theorem with the orbit clause of the full Wf as hypothesis *)
Corollary remove_interior_DWf_from_Wf : forall pts fuel d v a bl es d' r,
  DWf d -> Obs.SpecProp.WfVertexOrbits (obs_of_dcel d) ->
  v_out_edge d v = Some a -> border_scan fuel d a a [] = Some (bl, None) ->
  out_edges fuel d v = Some es ->
  NoDup (map (e_to d) es) ->
  remove_vertex_full pts fuel d v = Some (d', r) ->
  DWf d' /\ (forall w, Conn d' (all_he d') w).
Proof.
  intros pts fuel d v a bl es d' r Wf VO. apply remove_interior_DWf; [exact Wf|].
  apply WfVertexOrbits_Conn; [apply DWf_DW; exact Wf|exact VO].
Qed.
Print Assumptions remove_interior_DWf_from_Wf.

(* ... and conversely (the number of steps is below the number of out-edges) *)
Theorem Conn_WfVertexOrbits : forall d, DW d -> (forall w, Conn d (all_he d) w) -> Obs.SpecProp.WfVertexOrbits (obs_of_dcel d).
Proof.
  intros d W C w Hw a Va e He Oe.
  change (nV (obs_of_dcel d)) with (length (d_verts d)) in Hw.
  change (vout (obs_of_dcel d) w) with (v_out_edge d w) in Va.
  unfold Obs.SpecProp.HE in He. change (nH (obs_of_dcel d)) with (length (d_hedges d)) in He.
  change (org (obs_of_dcel d) e) with (e_origin d e) in Oe.
  pose proof (DW_DWX_full d W) as X.
  pose proof (dw_vout_rng d W w Hw a Va) as Ha.
  assert (Oa : e_origin d a = w) by (pose proof (dw_vptr d W w Hw) as P; rewrite Va in P; exact P).
  assert (IT : forall k x, Nat.iter k (Obs.State.ccw (obs_of_dcel d)) x = Nat.iter k (d_ccw d) x).
  { intros k x. induction k as [|k IH]; [reflexivity|]. rewrite !iter_S, IH. reflexivity. }
  set (L := length (Obs.SpecProp.out_edges_of (obs_of_dcel d) w)).
  assert (InOut : forall k, In (Nat.iter k (d_ccw d) a) (Obs.SpecProp.out_edges_of (obs_of_dcel d) w)).
  { intros k. destruct (iter_ccw_live d _ _ _ a k X Ha) as (R & Q). unfold all_he in R.
    unfold Obs.SpecProp.out_edges_of. apply filter_In. split; [apply in_seq; change (nH (obs_of_dcel d)) with (length (d_hedges d)); lia|].
    change (org (obs_of_dcel d) (Nat.iter k (d_ccw d) a)) with (e_origin d (Nat.iter k (d_ccw d) a)). rewrite Q, Oa. apply Nat.eqb_refl. }
  destruct (C w a e Ha He Oa Oe) as (n & En).
  assert (G : forall n, Nat.iter n (d_ccw d) a = e -> exists k, k < L /\ Nat.iter k (d_ccw d) a = e).
  { clear n En. intros n. induction n as [n IH] using lt_wf_ind. intros En.
    destruct (lt_dec n L) as [Q|Q]; [exists n; split; assumption|].
    destruct (dup_or_nodup (fun k => Nat.iter k (d_ccw d) a) L) as [(i & j & A & B & E)|ND].
    - apply (IH (n - (j - i))); [lia|].
      replace (n - (j - i)) with ((n - j) + i) by lia. rewrite iter_add, E, <- iter_add.
      replace (n - j + j) with n by lia. exact En.
    - exfalso. assert (I : incl (map (fun k => Nat.iter k (d_ccw d) a) (seq 0 (S L))) (Obs.SpecProp.out_edges_of (obs_of_dcel d) w)).
      { intros x Hx. apply in_map_iff in Hx. destruct Hx as (k & <- & _). apply InOut. }
      pose proof (NoDup_incl_length ND I) as Len. rewrite map_length, seq_length in Len. fold L in Len. lia. }
  destruct (G n En) as (k & Hk & Ek). exists k. split; [exact Hk|]. rewrite IT. exact Ek.
Qed.
Print Assumptions Conn_WfVertexOrbits.

(* both link-level well-formedness and the vertex-orbit clause of the full Wf are preserved *)
Corollary remove_interior_preserves_DWf_and_vertex_orbits : forall pts fuel d v a bl es d' r,
  DWf d -> Obs.SpecProp.WfVertexOrbits (obs_of_dcel d) ->
  v_out_edge d v = Some a -> border_scan fuel d a a [] = Some (bl, None) ->
  out_edges fuel d v = Some es ->
  NoDup (map (e_to d) es) ->
  remove_vertex_full pts fuel d v = Some (d', r) ->
  DWf d' /\ Obs.SpecProp.WfVertexOrbits (obs_of_dcel d').
Proof.
  intros pts fuel d v a bl es d' r Wf VO Va B OE ND H.
  destruct (remove_interior_DWf_from_Wf pts fuel d v a bl es d' r Wf VO Va B OE ND H) as (W' & C').
  split; [exact W'|]. apply Conn_WfVertexOrbits; [apply DWf_DW; exact W'|exact C'].
Qed.
Print Assumptions remove_interior_preserves_DWf_and_vertex_orbits.

(* a concrete instance (the hypotheses are satisfiable and the relabelling branch of swap_remove_vertex is exercised): a triangle 1-2-3 with
   the interior vertex 0; removing 0 moves vertex 3 into slot 0 *)
Definition k4_example : dcel :=
  mkdcel [mkv 0 0 0 (Some 0); mkv 0 0 1 (Some 6); mkv 0 0 2 (Some 8); mkv 0 0 3 (Some 10)]
         [mkh 6 3 1 0; mkh 4 10 3 1; mkh 8 5 2 0; mkh 0 6 1 2; mkh 10 1 3 0; mkh 2 8 2 3; mkh 3 0 1 1; mkh 11 9 0 2; mkh 5 2 2 2; mkh 7 11 0 3; mkh 1 4 3 3; mkh 9 7 0 1]
         [Some 7; Some 0; Some 2; Some 4]
         [false; false; false; false; false; false].

Example k4_example_removal :
  exists d' r, remove_vertex_full [] 20 k4_example 0 = Some (d', r) /\ DWf d' /\ Obs.SpecProp.WfVertexOrbits (obs_of_dcel d') /\
               Raw.num_vertices d' = 3 /\ Raw.num_undirected_edges d' = 3 /\ Raw.num_faces d' = 2.
Proof.
  destruct (remove_vertex_full [] 20 k4_example 0) as [[d' r]|] eqn:E; [|vm_compute in E; discriminate].
  exists d', r. split; [reflexivity|].
  assert (P : DWf d' /\ Obs.SpecProp.WfVertexOrbits (obs_of_dcel d')).
  { apply (remove_interior_preserves_DWf_and_vertex_orbits [] 20 k4_example 0 0 [6; 8; 10] [0; 2; 4] d' r).
    - apply wfcore_b_spec. vm_compute. reflexivity.
    - apply Obs.SpecProofs.wf_vertex_orbits_spec. vm_compute. reflexivity.
    - reflexivity.
    - vm_compute. reflexivity.
    - vm_compute. reflexivity.
    - vm_compute. repeat constructor; cbn; intuition discriminate.
    - exact E. }
  destruct P as (P1 & P2). split; [exact P1|]. split; [exact P2|].
  vm_compute in E. inversion E; subst d'. vm_compute. repeat split.
Qed.

(* ================================================================================================ *)
(* PART 6.  the hypotheses as clauses of the full Wf: distinct neighbours follow from WfSimple         *)
(* ================================================================================================ *)

Lemma Orb_length_pos : forall f a c l, Orb f a c l -> 0 < length l.
Proof. intros f a c l O. destruct O; cbn [length]; lia. Qed.

Lemma Orb_nth : forall f a c l, Orb f a c l -> forall i, i < length l ->
  nth i l 0 = Nat.iter i f c /\ (S i < length l -> f (Nat.iter i f c) <> a) /\ (S i = length l -> f (Nat.iter i f c) = a).
Proof.
  intros f a c l O. induction O as [c E|c l N O IH]; intros i Hi.
  - cbn [length] in Hi. assert (i = 0) by lia. subst i. cbn. repeat split; [lia|intros _; exact E].
  - destruct i as [|i].
    + cbn [nth Nat.iter length]. change (Nat.iter 0 f c) with c. repeat split; [intros _; exact N|].
      intros Q. pose proof (Orb_length_pos _ _ _ _ O). cbn [length] in Q. lia.
    + cbn [length] in Hi. destruct (IH i) as (A & B & C); [lia|].
      cbn [nth length]. rewrite !iter_S'. repeat split; [exact A|intros Q; apply B; lia|intros Q; apply C; lia].
Qed.

Lemma Orb_NoDup : forall (P : nat -> Prop) f a l, Orb f a a l ->
  (forall u, P u -> P (f u)) -> (forall u w, P u -> P w -> f u = f w -> u = w) -> P a -> NoDup l.
Proof.
  intros P f a l O Cl Inj Pa.
  assert (PI : forall k, P (Nat.iter k f a)) by (induction k as [|k IH]; [exact Pa|rewrite iter_S; apply Cl; exact IH]).
  assert (Back : forall i p, Nat.iter i f a = Nat.iter (i + p) f a -> a = Nat.iter p f a).
  { induction i as [|i IH]; intros p E; [exact E|]. apply IH. change (S i + p) with (S (i + p)) in E. rewrite !iter_S in E.
    apply Inj in E; [exact E|apply PI|apply PI]. }
  assert (Key : forall i j, i < j -> j < length l -> nth i l 0 <> nth j l 0).
  { intros i j Hij Hj E.
    destruct (Orb_nth _ _ _ _ O i) as (Ai & _); [lia|]. destruct (Orb_nth _ _ _ _ O j Hj) as (Aj & _).
    rewrite Ai, Aj in E. replace j with (i + (j - i)) in E by lia. apply Back in E.
    destruct (Orb_nth _ _ _ _ O (j - i - 1)) as (_ & B & _); [lia|].
    apply B; [lia|]. rewrite <- iter_S. replace (S (j - i - 1)) with (j - i) by lia. symmetry. exact E. }
  apply (NoDup_nth l 0). intros i j Hi Hj E.
  destruct (Nat.lt_trichotomy i j) as [Q|[Q|Q]]; [exfalso; apply (Key i j Q Hj E)|exact Q|exfalso; apply (Key j i Q Hi); symmetry; exact E].
Qed.

Theorem remove_interior_preserves_Wf_clauses : forall pts fuel d v a bl d' r,
  DWf d -> Obs.SpecProp.WfVertexOrbits (obs_of_dcel d) -> Obs.SpecProp.WfSimple (obs_of_dcel d) ->
  v_out_edge d v = Some a -> border_scan fuel d a a [] = Some (bl, None) ->
  remove_vertex_full pts fuel d v = Some (d', r) ->
  DWf d' /\ Obs.SpecProp.WfVertexOrbits (obs_of_dcel d').
Proof.
  intros pts fuel d v a bl d' r Wf VO SI Va B H.
  pose proof Wf as W. apply DWf_DW in W.
  assert (Hv : v < length (d_verts d)).
  { unfold remove_vertex_full in H. destruct (Nat.leb_spec (Raw.num_vertices d) v); [discriminate|assumption]. }
  pose proof (dw_vout_rng d W v Hv a Va) as Ha.
  destruct (out_edges fuel d v) as [es|] eqn:OE.
  - apply (remove_interior_preserves_DWf_and_vertex_orbits pts fuel d v a bl es d' r Wf VO Va B OE); [|exact H].
    pose proof OE as OE'. unfold out_edges in OE'. rewrite Va in OE'. apply circ_iter_Orb in OE'. destruct OE' as (O & _).
    pose proof (DW_DWX_full d W) as X.
    assert (ND : NoDup es).
    { apply (Orb_NoDup (fun u => u < length (d_hedges d)) (d_ccw d) a es O); [| |exact Ha].
      - intros u Hu. apply (ccw_live d _ _ _ u X Hu).
      - intros u u' Hu Hu' E. rewrite <- (cw_ccw d _ _ _ u X Hu), <- (cw_ccw d _ _ _ u' X Hu'), E. reflexivity. }
    assert (Oa : e_origin d a = v) by (pose proof (dw_vptr d W v Hv) as P; rewrite Va in P; exact P).
    assert (EsF : forall x, In x es -> x < length (d_hedges d) /\ e_origin d x = v).
    { apply (Orb_closed (d_ccw d) a (fun x => x < length (d_hedges d) /\ e_origin d x = v)) with (c := a); [|exact O|split; assumption].
      intros y (Y1 & Y2). destruct (ccw_live d _ _ _ y X Y1) as (Q1 & Q2). split; [exact Q1|rewrite Q2; exact Y2]. }
    apply NoDup_map_inj_in; [exact ND|]. intros x y Ix Iy E.
    destruct (EsF x Ix) as (Hx & Ox). destruct (EsF y Iy) as (Hy & Oy).
    apply (SI x y Hx Hy); [change (e_origin d x = e_origin d y); congruence|exact E].
  - exfalso. unfold remove_vertex_full in H.
    destruct (Nat.leb_spec (Raw.num_vertices d) v); [discriminate|].
    destruct (Nat.leb_spec (Raw.num_faces d) 1) as [F1|F1].
    + (* a state with one face: the first out-edge met by the scan is an outer edge *)
      destruct fuel as [|k]; [cbn in B; discriminate|]. cbn [border_scan] in B. cbv zeta in B.
      assert (Q : is_outer d (d_cw d a) = true).
      { unfold is_outer. apply Nat.eqb_eq. unfold d_cw, e_rev.
        pose proof (dw_face_lt d W (e_next d (rev a)) (dw_next_lt d W _ (dw_rev_lt d W a Ha))). unfold Raw.num_faces in F1. lia. }
      rewrite Q in B. discriminate.
    + unfold remove_2d in H. rewrite Va, B in H. unfold isolate_vertex_and_fill_hole in H. rewrite OE in H. discriminate.
Qed.
Print Assumptions remove_interior_preserves_Wf_clauses.
