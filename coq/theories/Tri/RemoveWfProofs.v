(* Tri/RemoveWfProofs.v -- the removal of an interior vertex (Tri/Remove.v, remove_2d, inner branch: isolate_vertex_and_fill_hole,
   legalize_edges_after_removal, cleanup_isolated_vertex, swap_remove_vertex) preserves link-level well-formedness.

   Between isolate_vertex_and_fill_hole and the end of cleanup_isolated_vertex the tables contain unreferenced garbage (the spokes of
   the removed vertex, the faces around it, the vertex), so the invariant is `DWX` / `DWL` of Dcel/WfLive.v: DW of the live part.

   PART 1  the fan re-triangulation of the hole (remesh_edge_ring): one iteration of the loop and the closing triangle described
           pointwise (StepPost, FinalPost, evaluated with the tactics of Dcel/Chain.v), the hole invariant `Hole` (DWL with the
           boundary of the unfilled hole pending), fan_loop_hole, remesh_DWX
   PART 2  the star of an interior vertex of a DW dcel is a hole (star_hole)
   PART 3  legalize_edges_after_removal keeps DWX: it flips only new edges, which have inner faces on both sides, and flips only
           when the apexes are different vertices (legalize_after_removal_DWX)
   PART 4  cleanup + swap_remove_vertex, the theorem (remove_interior_DWf_partial / remove_interior_last_DWf) *)
From Coq Require Import ZArith List Bool Arith Lia Sorted Permutation.
From SpadeV Require Import Geom.Pred Obs.State Vmap.Model Dcel.Raw Dcel.Chain Dcel.WfCore Gen.DcelOps Dcel.ProofsFlip Dcel.WfLive
  Dcel.WfLiveFlip Query.Hull Tri.Legalize Tri.Insert Tri.Remove Tri.RemoveProofs Tri.RemoveWfCleanupProofs.
Import ListNotations.

(* ================================================================================================ *)
(* PART 1.  the fan re-triangulation                                                                 *)
(* ================================================================================================ *)

(* one iteration of fan_loop's body *)
Definition fan_body (d : dcel) (inner_edge outer_edge fan_origin : nat) : dcel :=
  let outer_edge_from := e_origin d outer_edge in
  let outer_edge_to := e_to d outer_edge in
  let new_edge_handle := normalized (num_undirected_edges d) in
  let new_face_handle := num_faces d in
  let new_norm := mkh inner_edge outer_edge new_face_handle outer_edge_to in
  let new_twin := mkh handle_max handle_max handle_max fan_origin in
  let d := set_face d outer_edge new_face_handle in
  let d := set_next d outer_edge new_edge_handle in
  let d := set_prev d outer_edge inner_edge in
  let d := set_prev d inner_edge new_edge_handle in
  let d := set_next d inner_edge outer_edge in
  let d := set_face d inner_edge new_face_handle in
  let d := set_out_edge d outer_edge_from (Some outer_edge) in
  let d := push_edge d new_norm new_twin in
  push_face d (Some new_edge_handle).

Lemma fan_loop_unfold : forall d outer rest inner fo ne,
  fan_loop d (outer :: rest) inner fo ne =
  if 2 <? length (outer :: rest)
  then fan_loop (fan_body d inner outer fo) rest (e_rev (normalized (num_undirected_edges d))) fo
                (as_undirected (normalized (num_undirected_edges d)) :: ne)
  else (d, outer :: rest, inner, ne).
Proof. reflexivity. Qed.

(* the closing triangle of remesh_edge_ring *)
Definition fan_close (d : dcel) (inner_edge inner_edge_next inner_edge_prev fan_origin : nat) : dcel :=
  let new_face_handle := num_faces d in
  let d := set_face d inner_edge new_face_handle in
  let d := push_face d (Some inner_edge) in
  let d := set_face d inner_edge_prev new_face_handle in
  let d := set_face d inner_edge_next new_face_handle in
  let d := set_prev d inner_edge inner_edge_prev in
  let d := set_next d inner_edge_prev inner_edge in
  let d := set_next d inner_edge inner_edge_next in
  let d := set_prev d inner_edge_next inner_edge in
  let d := set_prev d inner_edge_prev inner_edge_next in
  let d := set_next d inner_edge_next inner_edge_prev in
  let prev_origin := e_origin d inner_edge_prev in
  let d := set_out_edge d prev_origin (Some inner_edge_prev) in
  let next_origin := e_origin d inner_edge_next in
  let d := set_out_edge d next_origin (Some inner_edge_next) in
  set_out_edge d fan_origin (Some inner_edge).

Lemma remesh_edge_ring_unfold : forall d b0 bl etr ftr,
  remesh_edge_ring d (b0 :: bl) etr ftr =
  let '(d1, bl1, inner, ne) := fan_loop d bl b0 (e_origin d b0) [] in
  match bl1 with
  | nx :: pv :: _ => Some (fan_close d1 inner nx pv (e_origin d b0), mkiso ne (num_undirected_edges d) etr ftr)
  | _ => None
  end.
Proof.
  intros d b0 bl etr ftr. unfold remesh_edge_ring. cbv zeta.
  destruct (fan_loop d bl b0 (e_origin d b0) []) as [[[d1 bl1] inner] ne].
  destruct bl1 as [|nx [|pv rest]]; reflexivity.
Qed.

(* ---- pointwise description of one iteration ---- *)
Record StepPost (d d' : dcel) (inner outer fo : nat) : Prop := mkStepPost {
  sp_lenH : length (d_hedges d') = length (d_hedges d) + 2;
  sp_lenF : length (d_faces d') = length (d_faces d) + 1;
  sp_lenV : length (d_verts d') = length (d_verts d);
  sp_lenG : length (d_flags d') = length (d_flags d) + 1;
  sp_vtable : vtable d' = vtable d;
  sp_outer : half_edge d' outer = mkh (length (d_hedges d)) inner (length (d_faces d)) (e_origin d outer);
  sp_inner : half_edge d' inner = mkh outer (length (d_hedges d)) (length (d_faces d)) (e_origin d inner);
  sp_N : half_edge d' (length (d_hedges d)) = mkh inner outer (length (d_faces d)) (e_to d outer);
  sp_T : half_edge d' (S (length (d_hedges d))) = mkh 0 0 0 fo;
  sp_other : forall x, x < length (d_hedges d) -> x <> inner -> x <> outer -> half_edge d' x = half_edge d x;
  sp_vout_o : v_out_edge d' (e_origin d outer) = Some outer;
  sp_vout_other : forall w, w <> e_origin d outer -> v_out_edge d' w = v_out_edge d w;
  sp_adj_G : f_adjacent d' (length (d_faces d)) = Some (length (d_hedges d));
  sp_adj_other : forall f, f < length (d_faces d) -> f_adjacent d' f = f_adjacent d f
}.

Lemma fan_body_post : forall d inner outer fo,
  length (d_flags d) * 2 = length (d_hedges d) ->
  inner < length (d_hedges d) -> outer < length (d_hedges d) -> inner <> outer ->
  e_origin d outer < length (d_verts d) ->
  StepPost d (fan_body d inner outer fo) inner outer fo.
Proof.
  intros d inner outer fo Ev Hi Ho Nio Hv.
  remember (fan_body d inner outer fo) as d' eqn:Hd.
  unfold fan_body in Hd. cbv zeta in Hd. unfold normalized, num_undirected_edges, num_faces, handle_max in Hd.
  replace (2 * length (d_flags d)) with (length (d_hedges d)) in Hd by lia.
  remember (e_origin d outer) as oo eqn:Eoo. remember (e_to d outer) as ot eqn:Eot.
  remember (e_origin d inner) as oi eqn:Eoi.
  remember (length (d_hedges d)) as N eqn:EN. remember (length (d_faces d)) as G eqn:EG.
  assert (NN : inner <> N) by lia. assert (NO : outer <> N) by lia.
  constructor.
  all: rewrite <- ?Eoo, <- ?Eot, <- ?Eoi, <- ?EN, <- ?EG.
  - rewrite Hd. ch_len. lia.
  - rewrite Hd. ch_len. lia.
  - rewrite Hd. ch_len. reflexivity.
  - rewrite Hd. cbn [push_face push_edge d_flags]. rewrite app_length. cbn [length].
    unfold set_out_edge. cbn [d_flags]. rewrite !flags_set_face, !flags_set_next, !flags_set_prev. reflexivity.
  - rewrite Hd. rewrite vtable_push_face, vtable_push_edge, vtable_set_out_edge. reflexivity.
  - rewrite Hd; ch_fields; ch_read; subst; ch_fin.
  - rewrite Hd; ch_fields; ch_read; subst; ch_fin.
  - rewrite Hd; ch_fields; ch_read; subst; ch_fin.
  - rewrite Hd; ch_fields; ch_read; subst; ch_fin.
  - intros x Hx X1 X2. rewrite Hd. ch_read. reflexivity.
  - rewrite Hd. ch_read. reflexivity.
  - intros w Hw. rewrite Hd. ch_read. reflexivity.
  - rewrite Hd. ch_read. reflexivity.
  - intros f Hf. rewrite Hd. ch_read. reflexivity.
Qed.

(* ---- pointwise description of the closing triangle ---- *)
Record FinalPost (d d' : dcel) (inner nxt prv fo : nat) : Prop := mkFinalPost {
  fpo_lenH : length (d_hedges d') = length (d_hedges d);
  fpo_lenF : length (d_faces d') = length (d_faces d) + 1;
  fpo_lenV : length (d_verts d') = length (d_verts d);
  fpo_flags : d_flags d' = d_flags d;
  fpo_vtable : vtable d' = vtable d;
  fpo_inner : half_edge d' inner = mkh nxt prv (length (d_faces d)) (e_origin d inner);
  fpo_nxt : half_edge d' nxt = mkh prv inner (length (d_faces d)) (e_origin d nxt);
  fpo_prv : half_edge d' prv = mkh inner nxt (length (d_faces d)) (e_origin d prv);
  fpo_other : forall x, x <> inner -> x <> nxt -> x <> prv -> half_edge d' x = half_edge d x;
  fpo_vout_fo : v_out_edge d' fo = Some inner;
  fpo_vout_n : v_out_edge d' (e_origin d nxt) = Some nxt;
  fpo_vout_p : v_out_edge d' (e_origin d prv) = Some prv;
  fpo_vout_other : forall w, w <> fo -> w <> e_origin d nxt -> w <> e_origin d prv -> v_out_edge d' w = v_out_edge d w;
  fpo_adj_G : f_adjacent d' (length (d_faces d)) = Some inner;
  fpo_adj_other : forall f, f < length (d_faces d) -> f_adjacent d' f = f_adjacent d f
}.

Lemma fan_close_post : forall d inner nxt prv fo,
  inner < length (d_hedges d) -> nxt < length (d_hedges d) -> prv < length (d_hedges d) ->
  inner <> nxt -> inner <> prv -> nxt <> prv ->
  fo < length (d_verts d) -> e_origin d nxt < length (d_verts d) -> e_origin d prv < length (d_verts d) ->
  fo <> e_origin d nxt -> fo <> e_origin d prv -> e_origin d nxt <> e_origin d prv ->
  FinalPost d (fan_close d inner nxt prv fo) inner nxt prv fo.
Proof.
  intros d inner nxt prv fo Hi Hn Hp N1 N2 N3 Vf Vn Vp M1 M2 M3.
  remember (fan_close d inner nxt prv fo) as d' eqn:Hd.
  unfold fan_close in Hd. cbv zeta in Hd. unfold num_faces in Hd.
  (* the two origins read from the chain are the old origins *)
  match type of Hd with context [set_out_edge ?D (e_origin ?D prv) (Some prv)] =>
    assert (OP : e_origin D prv = e_origin d prv) by (unfold e_origin; ch_read; reflexivity); rewrite OP in Hd end.
  match type of Hd with context [set_out_edge ?D (e_origin ?D nxt) (Some nxt)] =>
    assert (ON : e_origin D nxt = e_origin d nxt) by (unfold e_origin; ch_read; reflexivity); rewrite ON in Hd end.
  clear OP ON.
  remember (e_origin d nxt) as on eqn:Eon. remember (e_origin d prv) as op eqn:Eop.
  remember (e_origin d inner) as oi eqn:Eoi.
  remember (length (d_faces d)) as G eqn:EG.
  constructor.
  all: rewrite <- ?Eon, <- ?Eop, <- ?Eoi, <- ?EG.
  - rewrite Hd. ch_len. reflexivity.
  - rewrite Hd. ch_len. lia.
  - rewrite Hd. ch_len. reflexivity.
  - rewrite Hd. reflexivity.
  - rewrite Hd. rewrite !vtable_set_out_edge. reflexivity.
  - rewrite Hd; ch_fields; ch_read; subst; ch_fin.
  - rewrite Hd; ch_fields; ch_read; subst; ch_fin.
  - rewrite Hd; ch_fields; ch_read; subst; ch_fin.
  - intros x X1 X2 X3. rewrite Hd. ch_read. reflexivity.
  - rewrite Hd. ch_read. reflexivity.
  - rewrite Hd. ch_read. reflexivity.
  - rewrite Hd. ch_read. reflexivity.
  - intros w W1 W2 W3. rewrite Hd. ch_read. reflexivity.
  - rewrite Hd. ch_read. reflexivity.
  - intros f Hf. rewrite Hd. ch_read. reflexivity.
Qed.

(* ---- the hole invariant ---- *)
Fixpoint chain (d : dcel) (x : nat) (l : list nat) (z : nat) : Prop :=
  match l with
  | [] => e_to d x = z
  | y :: t => e_to d x = e_origin d y /\ chain d y t z
  end.

Lemma chain_ext : forall d d' l x z,
  (forall y, (y = x \/ In y l) -> e_to d' y = e_to d y /\ e_origin d' y = e_origin d y) ->
  chain d x l z -> chain d' x l z.
Proof.
  intros d d' l. induction l as [|y t IH]; intros x z E C; cbn [chain] in *.
  - rewrite (proj1 (E x (or_introl eq_refl))). exact C.
  - destruct C as (C1 & C2). split.
    + rewrite (proj1 (E x (or_introl eq_refl))), (proj2 (E y (or_intror (or_introl eq_refl)))). exact C1.
    + apply IH; [|exact C2]. intros w [W|W]; apply E; right; [left; symmetry; exact W|right; exact W].
Qed.

Lemma he_fields4 : forall dd x a b c o, half_edge dd x = mkh a b c o ->
  e_next dd x = a /\ e_prev dd x = b /\ e_face dd x = c /\ e_origin dd x = o.
Proof. intros dd x a b c o H. unfold e_next, e_prev, e_face, e_origin. rewrite H. repeat split. Qed.

Lemma he_fields_eq : forall dd dd' x, half_edge dd' x = half_edge dd x ->
  e_next dd' x = e_next dd x /\ e_prev dd' x = e_prev dd x /\ e_face dd' x = e_face dd x /\ e_origin dd' x = e_origin dd x.
Proof. intros dd dd' x H. unfold e_next, e_prev, e_face, e_origin. rewrite H. repeat split. Qed.

Section HoleSec.
Variables (dead deadF : nat -> Prop) (v fo H0 : nat).
Hypothesis dead_rev : forall e, dead e -> dead (rev e).

Definition LEh (d : dcel) (e : nat) : Prop := e < length (d_hedges d) /\ ~ dead e.
Definition PEh (inner : nat) (stack : list nat) (e : nat) : Prop := e = inner \/ In e stack.
Definition CEh (d : dcel) (inner : nat) (stack : list nat) (e : nat) : Prop := LEh d e /\ ~ PEh inner stack e.
Definition LFh (d : dcel) (f : nat) : Prop := f < length (d_faces d) /\ ~ deadF f.
Definition LVh (d : dcel) (w : nat) : Prop := w < length (d_verts d) /\ w <> v.
Definition CVh (d : dcel) (inner : nat) (stack : list nat) (w : nat) : Prop :=
  LVh d w /\ ~ In w (map (e_origin d) (inner :: stack)).

Record Hole (d : dcel) (inner : nat) (stack : list nat) : Prop := mkHole {
  ho_dwl : DWL d (LEh d) (CEh d inner stack) (LFh d) (LVh d) (CVh d inner stack);
  ho_dead_lt : forall e, dead e -> e < length (d_hedges d);
  ho_deadF_lt : forall f, deadF f -> f < length (d_faces d);
  ho_pend : forall x, PEh inner stack x -> LEh d x;
  ho_fo : e_origin d inner = fo;
  ho_nodup : NoDup (map (e_origin d) (inner :: stack));
  ho_chain : chain d inner stack fo;
  ho_new : forall e, H0 <= e -> CEh d inner stack e -> e_face d e <> 0
}.

Lemma NoDup_map_neq : forall A B (f : A -> B) l x y, NoDup (map f l) -> In x l -> In y l -> f x = f y -> x = y.
Proof.
  intros A B f l. induction l as [|a t IH]; intros x y ND Hx Hy E; [destruct Hx|].
  cbn [map] in ND. inversion ND as [|? ? Na ND']; subst.
  destruct Hx as [<-|Hx]; destruct Hy as [<-|Hy]; try reflexivity.
  - exfalso. apply Na. rewrite E. apply in_map. exact Hy.
  - exfalso. apply Na. rewrite <- E. apply in_map. exact Hx.
  - apply IH; assumption.
Qed.

Lemma NoDup_drop2 : forall A (a b : A) l, NoDup (a :: b :: l) -> NoDup (a :: l).
Proof.
  intros A a b l H. inversion H as [|? ? Na H1]; subst. inversion H1 as [|? ? Nb H2]; subst.
  constructor; [intros Q; apply Na; right; exact Q|exact H2].
Qed.

Lemma hole_step : forall d inner outer rest d',
  Hole d inner (outer :: rest) -> rest <> [] -> H0 <= length (d_hedges d) ->
  StepPost d d' inner outer fo ->
  Hole d' (S (length (d_hedges d))) rest.
Proof.
  intros d inner outer rest d' [X DL DFL PN FO ND CH NW] RN HH0 P.
  pose proof (wl_even _ _ _ _ _ _ X) as Ev.
  assert (Li : LEh d inner) by (apply PN; left; reflexivity).
  assert (Lo : LEh d outer) by (apply PN; right; left; reflexivity).
  assert (Hi : inner < length (d_hedges d)) by apply Li. assert (Ho : outer < length (d_hedges d)) by apply Lo.
  assert (Nio : inner <> outer).
  { intros E. cbn [map] in ND. apply NoDup_cons_iff in ND. destruct ND as (Na & _). apply Na. left. rewrite E. reflexivity. }
  destruct (he_fields4 _ _ _ _ _ _ (sp_outer _ _ _ _ _ P)) as (On & Op & Of & Oo).
  destruct (he_fields4 _ _ _ _ _ _ (sp_inner _ _ _ _ _ P)) as (In_ & Ip & If & Io).
  destruct (he_fields4 _ _ _ _ _ _ (sp_N _ _ _ _ _ P)) as (Nn & Np & Nf & No).
  destruct (he_fields4 _ _ _ _ _ _ (sp_T _ _ _ _ _ P)) as (_ & _ & _ & To).
  pose proof (sp_lenH _ _ _ _ _ P) as LH'. pose proof (sp_lenF _ _ _ _ _ P) as LF'.
  pose proof (sp_lenV _ _ _ _ _ P) as LV'. pose proof (sp_lenG _ _ _ _ _ P) as LG'.
  pose proof (sp_other _ _ _ _ _ P) as SPo. pose proof (sp_vout_o _ _ _ _ _ P) as SPvo.
  pose proof (sp_vout_other _ _ _ _ _ P) as SPvx. pose proof (sp_adj_G _ _ _ _ _ P) as SPaG.
  pose proof (sp_adj_other _ _ _ _ _ P) as SPax. clear P.
  pose proof (wl_face1 _ _ _ _ _ _ X) as F1.
  remember (length (d_hedges d)) as N eqn:EN. remember (length (d_faces d)) as G eqn:EG.
  assert (Oth : forall x, x < N -> x <> inner -> x <> outer ->
            e_next d' x = e_next d x /\ e_prev d' x = e_prev d x /\ e_face d' x = e_face d x /\ e_origin d' x = e_origin d x).
  { intros x Hx X1 X2. apply he_fields_eq. apply SPo; assumption. }
  assert (Org : forall x, x < N -> e_origin d' x = e_origin d x).
  { intros x Hx. destruct (Nat.eq_dec x inner) as [->|X1]; [exact Io|].
    destruct (Nat.eq_dec x outer) as [->|X2]; [exact Oo|]. apply Oth; assumption. }
  assert (RevN : rev N = S N) by (rewrite <- Ev, Nat.mul_comm, rev_even; ch_lia).
  assert (RevT : rev (S N) = N) by (rewrite <- RevN; apply rev_rev).
  assert (RevLt : forall x, x < N -> rev x < N) by (intros x Hx; rewrite EN; apply (wl_rev_lt _ _ _ _ _ _ X); rewrite <- EN; exact Hx).
  (* the head of the remaining stack *)
  destruct rest as [|y rest']; [congruence|]. clear RN.
  cbn [chain] in CH. destruct CH as (Ca & Cb & Cc).
  assert (Ly : LEh d y) by (apply PN; right; right; left; reflexivity).
  assert (Fo_y : e_origin d y <> fo).
  { rewrite <- FO. intros E. cbn [map] in ND. apply NoDup_cons_iff in ND. destruct ND as (Na & _). apply Na. right. left. exact E. }
  assert (Nd : ~ dead N) by (intros D; apply DL in D; ch_lia).
  assert (Td : ~ dead (S N)) by (intros D; apply DL in D; ch_lia).
  assert (LE_old : forall e, LEh d e -> LEh d' e) by (intros e (A & B); split; [rewrite LH'; ch_lia|exact B]).
  assert (LE_cases : forall e, LEh d' e -> LEh d e \/ e = N \/ e = S N).
  { intros e (A & B). rewrite LH' in A. destruct (lt_dec e N); [left; split; [ch_lia|assumption]|ch_lia]. }
  assert (LV_eq : forall w, LVh d' w <-> LVh d w) by (intros w; unfold LVh; rewrite LV'; tauto).
  assert (LF_old : forall f, LFh d f -> LFh d' f) by (intros f (A & B); split; [rewrite LF'; ch_lia|exact B]).
  assert (LGG : LFh d' G) by (split; [rewrite LF'; ch_lia|intros D; apply DFL in D; ch_lia]).
  assert (CE_cases : forall e, CEh d' (S N) (y :: rest') e ->
            (CEh d inner (outer :: y :: rest') e) \/ e = inner \/ e = outer \/ e = N).
  { intros e (A & B). destruct (LE_cases e A) as [A'|[->| ->]].
    - destruct (Nat.eq_dec e inner) as [->|X1]; [right; left; reflexivity|].
      destruct (Nat.eq_dec e outer) as [->|X2]; [right; right; left; reflexivity|].
      left. split; [exact A'|]. intros [Q|[Q|Q]]; [congruence|congruence|]. apply B. right. exact Q.
    - right. right. right. reflexivity.
    - exfalso. apply B. left. reflexivity. }
  assert (CE_old : forall e, CEh d inner (outer :: y :: rest') e -> CEh d' (S N) (y :: rest') e).
  { intros e (A & B). split; [apply LE_old; exact A|]. intros [Q|Q].
    - destruct A as (A & _). ch_lia.
    - apply B. right. right. exact Q. }
  assert (NotIn_i : ~ In inner (y :: rest')).
  { intros Q. cbn [map] in ND. apply NoDup_cons_iff in ND. destruct ND as (Na & _). apply Na. right. apply (in_map (e_origin d)) in Q. exact Q. }
  assert (NotIn_o : ~ In outer (y :: rest')).
  { intros Q. cbn [map] in ND. apply NoDup_cons_iff in ND. destruct ND as (_ & ND1). apply NoDup_cons_iff in ND1. destruct ND1 as (Na & _). apply Na. apply (in_map (e_origin d)) in Q. exact Q. }
  assert (Ci : CEh d' (S N) (y :: rest') inner).
  { split; [apply LE_old; exact Li|]. intros [Q|Q]; [ch_lia|exact (NotIn_i Q)]. }
  assert (Co : CEh d' (S N) (y :: rest') outer).
  { split; [apply LE_old; exact Lo|]. intros [Q|Q]; [ch_lia|exact (NotIn_o Q)]. }
  assert (CN : CEh d' (S N) (y :: rest') N).
  { split; [split; [rewrite LH'; ch_lia|exact Nd]|]. intros [Q|Q]; [ch_lia|].
    assert (Z : LEh d N) by (apply PN; right; right; exact Q). destruct Z as (Z & _). ch_lia. }
  assert (Old_ne : forall e, CEh d inner (outer :: y :: rest') e -> e < N /\ e <> inner /\ e <> outer).
  { intros e ((A & _) & B). split; [ch_lia|]. split; intros ->; apply B; [left; reflexivity|right; left; reflexivity]. }
  assert (Org_stack : forall z, In z (y :: rest') -> e_origin d' z = e_origin d z /\ e_to d' z = e_to d z).
  { intros z Iz. assert (Lz : LEh d z) by (apply PN; right; right; exact Iz). destruct Lz as (Lz & _). rewrite <- EN in Lz.
    split; [apply Org; exact Lz|]. unfold e_to, e_rev. apply Org. apply RevLt. exact Lz. }
  constructor.
  - (* DWL *)
    constructor.
    + rewrite LG', LH'. ch_lia.
    + rewrite LF'. ch_lia.
    + intros e (A & _). exact A.
    + intros e (A & B). split.
      * rewrite LH' in *. destruct (lt_dec e N) as [Q|Q]; [pose proof (RevLt e Q); ch_lia|].
        assert (e = N \/ e = S N) as [-> | ->] by ch_lia; [rewrite RevN; ch_lia|rewrite RevT; ch_lia].
      * intros D. apply B. rewrite <- (rev_rev e). apply dead_rev. exact D.
    + intros e (A & _). exact A.
    + intros f (A & _). exact A.
    + intros w (A & _). exact A.
    + intros w (A & _). exact A.
    + (* wl_org *)
      intros e A. destruct (LE_cases e A) as [A'|[->| ->]].
      * destruct A' as (A1 & A2). rewrite <- EN in A1.
        rewrite (Org e A1), (Org (rev e) (RevLt e A1)). rewrite LV_eq. apply (wl_org _ _ _ _ _ _ X). split; [ch_lia|assumption].
      * rewrite No, RevN, To. split.
        -- rewrite LV_eq. unfold e_to, e_rev. apply (wl_LV_org _ _ _ _ _ _ X). apply (wl_LE_rev _ _ _ _ _ _ X). exact Lo.
        -- rewrite Cb. exact Fo_y.
      * rewrite To, RevT, No. split.
        -- rewrite LV_eq, <- FO. apply (wl_LV_org _ _ _ _ _ _ X). exact Li.
        -- rewrite Cb. apply not_eq_sym. exact Fo_y.
    + (* wl_rng *)
      intros e A. destruct (CE_cases e A) as [A'|[->|[->| ->]]].
      * destruct (Old_ne e A') as (E1 & E2 & E3). destruct (Oth e E1 E2 E3) as (-> & -> & -> & _).
        destruct (wl_rng _ _ _ _ _ _ X e A') as (R1 & R2 & R3).
        split; [apply CE_old; exact R1|split; [apply CE_old; exact R2|apply LF_old; exact R3]].
      * rewrite In_, Ip, If. split; [|split]; assumption.
      * rewrite On, Op, Of. split; [|split]; assumption.
      * rewrite Nn, Np, Nf. split; [|split]; assumption.
    + (* wl_vout *)
      intros w (A & B). cbn [map] in B.
      destruct (Nat.eq_dec w (e_origin d outer)) as [->|Wo].
      * rewrite SPvo. split; [apply LE_old; exact Lo|exact Oo].
      * rewrite (SPvx w Wo).
        assert (CVw : CVh d inner (outer :: y :: rest') w).
        { split; [apply LV_eq; exact A|]. cbn [map]. intros [Q|[Q|[Q|Q]]].
          - apply B. left. rewrite To, <- FO. exact Q.
          - apply Wo. symmetry. exact Q.
          - apply B. right. left. rewrite (proj1 (Org_stack y (or_introl eq_refl))). exact Q.
          - apply B. right. right. apply in_map_iff in Q. destruct Q as (z & Qz & Iz).
            apply in_map_iff. exists z. split; [|exact Iz].
            rewrite (proj1 (Org_stack z (or_intror Iz))). exact Qz. }
        pose proof (wl_vout _ _ _ _ _ _ X w CVw) as Q.
        destruct (v_out_edge d w) as [a|].
        -- destruct Q as (Q1 & Q2). split; [apply LE_old; exact Q1|]. rewrite Org; [exact Q2|]. destruct Q1 as (Q1 & _). ch_lia.
        -- ch_lia.
    + (* wl_adj *)
      intros f A. destruct (Nat.eq_dec f G) as [->|FG].
      * rewrite SPaG. split; [exact CN|exact Nf].
      * assert (A' : LFh d f) by (destruct A as (A1 & A2); rewrite LF' in A1; split; [clear - A1 FG EG; unfold LFh; lia|exact A2]).
        rewrite (SPax f) by (destruct A' as (A1 & _); ch_lia).
        pose proof (wl_adj _ _ _ _ _ _ X f A') as Q.
        destruct (f_adjacent d f) as [a|].
        -- destruct Q as (Q1 & Q2). split; [apply CE_old; exact Q1|].
           destruct (Old_ne a Q1) as (E1 & E2 & E3). destruct (Oth a E1 E2 E3) as (_ & _ & -> & _). exact Q2.
        -- ch_lia.
    + (* wl_links *)
      intros e A. destruct (CE_cases e A) as [A'|[->|[->| ->]]].
      * destruct (Old_ne e A') as (E1 & E2 & E3). destruct (Oth e E1 E2 E3) as (-> & -> & -> & _).
        destruct (wl_rng _ _ _ _ _ _ X e A') as (R1 & R2 & _).
        destruct (Old_ne _ R1) as (F1' & F2 & F3). destruct (Oth _ F1' F2 F3) as (_ & -> & -> & ->).
        destruct (Old_ne _ R2) as (G1 & G2 & G3). destruct (Oth _ G1 G2 G3) as (-> & _).
        rewrite (Org (rev e) (RevLt e E1)).
        apply (wl_links _ _ _ _ _ _ X e A').
      * repeat split.
        -- rewrite In_. exact Op.
        -- rewrite Ip. exact Nn.
        -- rewrite In_, Of, If. reflexivity.
        -- rewrite In_, Oo, (Org (rev inner) (RevLt _ Hi)). symmetry. exact Ca.
      * repeat split.
        -- rewrite On. exact Np.
        -- rewrite Op. exact In_.
        -- rewrite On, Nf, Of. reflexivity.
        -- rewrite On, No, (Org (rev outer) (RevLt _ Ho)). reflexivity.
      * repeat split.
        -- rewrite Nn. exact Ip.
        -- rewrite Np. exact On.
        -- rewrite Nn, If, Nf. reflexivity.
        -- rewrite Nn, Io, RevN, To. exact FO.
    + (* wl_tri *)
      intros e A Fe. destruct (CE_cases e A) as [A'|[->|[->| ->]]].
      * destruct (Old_ne e A') as (E1 & E2 & E3). destruct (Oth e E1 E2 E3) as (Q1 & _ & Q3 & _).
        rewrite Q3 in Fe. rewrite Q1, Q3.
        destruct (wl_rng _ _ _ _ _ _ X e A') as (R1 & _ & R3).
        destruct (Old_ne _ R1) as (F1' & F2 & F3). destruct (Oth _ F1' F2 F3) as (-> & _).
        destruct (wl_rng _ _ _ _ _ _ X _ R1) as (R1' & _).
        destruct (Old_ne _ R1') as (G1 & G2 & G3). destruct (Oth _ G1 G2 G3) as (-> & _).
        destruct (wl_tri _ _ _ _ _ _ X e A' Fe) as (T3 & a & Ha & Ea).
        split; [exact T3|].
        rewrite (SPax (e_face d e)) by (destruct R3 as (R3 & _); ch_lia).
        exists a. split; [exact Ha|].
        pose proof (wl_adj _ _ _ _ _ _ X _ R3) as Q. rewrite Ha in Q. destruct Q as (Ca' & _).
        destruct (Old_ne _ Ca') as (J1 & J2 & J3). destruct (Oth _ J1 J2 J3) as (-> & _).
        destruct (wl_rng _ _ _ _ _ _ X _ Ca') as (Cb' & _).
        destruct (Old_ne _ Cb') as (K1 & K2 & K3). destruct (Oth _ K1 K2 K3) as (-> & _).
        exact Ea.
      * split; [rewrite In_, On; exact Nn|]. rewrite If, SPaG. exists N. split; [reflexivity|]. right. left. symmetry. exact Nn.
      * split; [rewrite On, Nn; exact In_|]. rewrite Of, SPaG. exists N. split; [reflexivity|]. right. right. rewrite Nn. symmetry. exact In_.
      * split; [rewrite Nn, In_; exact On|]. rewrite Nf, SPaG. exists N. split; [reflexivity|]. left. reflexivity.
  - intros e D. rewrite LH'. apply DL in D. ch_lia.
  - intros f D. rewrite LF'. apply DFL in D. ch_lia.
  - intros x [->|Q]; [split; [rewrite LH'; ch_lia|exact Td]|]. apply LE_old. apply PN. right. right. exact Q.
  - exact To.
  - change (NoDup (e_origin d' (S N) :: map (e_origin d') (y :: rest'))). rewrite To.
    assert (M : map (e_origin d') (y :: rest') = map (e_origin d) (y :: rest')).
    { apply map_ext_in. intros z Iz. apply (Org_stack z Iz). }
    rewrite M. rewrite <- FO.
    change (NoDup (e_origin d inner :: e_origin d outer :: map (e_origin d) (y :: rest'))) in ND.
    apply NoDup_drop2 in ND. exact ND.
  - cbn [chain]. split.
    + unfold e_to at 1, e_rev. rewrite RevT, No, Cb. symmetry. apply (Org_stack y). left. reflexivity.
    + apply (chain_ext d d'); [|exact Cc]. intros z [->|Q]; [destruct (Org_stack y (or_introl eq_refl))|destruct (Org_stack z (or_intror Q))]; split; assumption.
  - intros e He A. destruct (CE_cases e A) as [A'|[->|[->| ->]]].
    + destruct (Old_ne e A') as (E1 & E2 & E3). destruct (Oth e E1 E2 E3) as (_ & _ & -> & _). apply NW; assumption.
    + rewrite If. ch_lia.
    + rewrite Of. ch_lia.
    + rewrite Nf. ch_lia.
Qed.
Lemma hole_final : forall d inner nxt prv d',
  Hole d inner [nxt; prv] ->
  FinalPost d d' inner nxt prv fo ->
  DWX d' (LEh d') (LFh d') (LVh d') /\
  (forall e, H0 <= e -> LEh d' e -> e_face d' e <> 0) /\
  (forall e, dead e -> e < length (d_hedges d')) /\ (forall f, deadF f -> f < length (d_faces d')).
Proof.
  intros d inner nxt prv d' [X DL DFL PN FO ND CH NW] P.
  pose proof (wl_even _ _ _ _ _ _ X) as Ev.
  assert (Li : LEh d inner) by (apply PN; left; reflexivity).
  assert (Ln : LEh d nxt) by (apply PN; right; left; reflexivity).
  assert (Lp : LEh d prv) by (apply PN; right; right; left; reflexivity).
  assert (Hi : inner < length (d_hedges d)) by apply Li.
  assert (Hn : nxt < length (d_hedges d)) by apply Ln.
  assert (Hp : prv < length (d_hedges d)) by apply Lp.
  cbn [chain] in CH. destruct CH as (Ca & Cb & Cc).
  change (NoDup [e_origin d inner; e_origin d nxt; e_origin d prv]) in ND.
  assert (Dv : e_origin d inner <> e_origin d nxt /\ e_origin d inner <> e_origin d prv /\ e_origin d nxt <> e_origin d prv).
  { apply NoDup_cons_iff in ND. destruct ND as (A & ND1). apply NoDup_cons_iff in ND1. destruct ND1 as (B & _).
    repeat split; intros E.
    - apply A. left. symmetry. exact E.
    - apply A. right. left. symmetry. exact E.
    - apply B. left. symmetry. exact E. }
  destruct Dv as (Dv1 & Dv2 & Dv3).
  assert (De : inner <> nxt /\ inner <> prv /\ nxt <> prv).
  { repeat split; intros E; [apply Dv1|apply Dv2|apply Dv3]; rewrite E; reflexivity. }
  destruct De as (De1 & De2 & De3).
  destruct (he_fields4 _ _ _ _ _ _ (fpo_inner _ _ _ _ _ _ P)) as (In_ & Ip & If & Io).
  destruct (he_fields4 _ _ _ _ _ _ (fpo_nxt _ _ _ _ _ _ P)) as (Xn & Xp & Xf & Xo).
  destruct (he_fields4 _ _ _ _ _ _ (fpo_prv _ _ _ _ _ _ P)) as (Pn & Pp & Pf & Po).
  pose proof (fpo_lenH _ _ _ _ _ _ P) as LH'. pose proof (fpo_lenF _ _ _ _ _ _ P) as LF'.
  pose proof (fpo_lenV _ _ _ _ _ _ P) as LV'. pose proof (fpo_flags _ _ _ _ _ _ P) as LG'.
  pose proof (fpo_other _ _ _ _ _ _ P) as SPo.
  pose proof (fpo_vout_fo _ _ _ _ _ _ P) as SPvf. pose proof (fpo_vout_n _ _ _ _ _ _ P) as SPvn.
  pose proof (fpo_vout_p _ _ _ _ _ _ P) as SPvp. pose proof (fpo_vout_other _ _ _ _ _ _ P) as SPvx.
  pose proof (fpo_adj_G _ _ _ _ _ _ P) as SPaG. pose proof (fpo_adj_other _ _ _ _ _ _ P) as SPax. clear P.
  pose proof (wl_face1 _ _ _ _ _ _ X) as F1.
  remember (length (d_hedges d)) as N eqn:EN. remember (length (d_faces d)) as G eqn:EG.
  assert (Oth : forall x, x <> inner -> x <> nxt -> x <> prv ->
            e_next d' x = e_next d x /\ e_prev d' x = e_prev d x /\ e_face d' x = e_face d x /\ e_origin d' x = e_origin d x).
  { intros x X1 X2 X3. apply he_fields_eq. apply SPo; assumption. }
  assert (Org : forall x, e_origin d' x = e_origin d x).
  { intros x. destruct (Nat.eq_dec x inner) as [->|X1]; [exact Io|].
    destruct (Nat.eq_dec x nxt) as [->|X2]; [exact Xo|].
    destruct (Nat.eq_dec x prv) as [->|X3]; [exact Po|]. apply Oth; assumption. }
  assert (LE_eq : forall e, LEh d' e <-> LEh d e) by (intros e; unfold LEh; rewrite LH', <- EN; tauto).
  assert (LV_eq : forall w, LVh d' w <-> LVh d w) by (intros w; unfold LVh; rewrite LV'; tauto).
  assert (LF_old : forall f, LFh d f -> LFh d' f) by (intros f (A & B); split; [rewrite LF'; ch_lia|exact B]).
  assert (LGG : LFh d' G) by (split; [rewrite LF'; ch_lia|intros D; apply DFL in D; ch_lia]).
  assert (CE_cases : forall e, LEh d' e -> (CEh d inner [nxt; prv] e) \/ e = inner \/ e = nxt \/ e = prv).
  { intros e A. apply LE_eq in A.
    destruct (Nat.eq_dec e inner) as [->|X1]; [right; left; reflexivity|].
    destruct (Nat.eq_dec e nxt) as [->|X2]; [right; right; left; reflexivity|].
    destruct (Nat.eq_dec e prv) as [->|X3]; [right; right; right; reflexivity|].
    left. split; [exact A|]. intros [Q|[Q|[Q|[]]]]; congruence. }
  assert (CE_old : forall e, CEh d inner [nxt; prv] e -> LEh d' e) by (intros e (A & _); apply LE_eq; exact A).
  assert (Old_ne : forall e, CEh d inner [nxt; prv] e -> e <> inner /\ e <> nxt /\ e <> prv).
  { intros e (_ & B). repeat split; intros ->; apply B; [left; reflexivity|right; left; reflexivity|right; right; left; reflexivity]. }
  assert (Li' : LEh d' inner) by (apply LE_eq; exact Li).
  assert (Ln' : LEh d' nxt) by (apply LE_eq; exact Ln).
  assert (Lp' : LEh d' prv) by (apply LE_eq; exact Lp).
  split; [|split; [|split]].
  - unfold DWX. constructor.
    + rewrite LG', LH'. exact Ev.
    + rewrite LF'. ch_lia.
    + intros e (A & _). exact A.
    + intros e A. apply LE_eq. apply (wl_LE_rev _ _ _ _ _ _ X). apply LE_eq. exact A.
    + intros e A. exact A.
    + intros f (A & _). exact A.
    + intros w (A & _). exact A.
    + intros w A. exact A.
    + intros e A. rewrite !Org, LV_eq. apply (wl_org _ _ _ _ _ _ X). apply LE_eq. exact A.
    + intros e A. destruct (CE_cases e A) as [A'|[->|[->| ->]]].
      * destruct (Old_ne e A') as (E1 & E2 & E3). destruct (Oth e E1 E2 E3) as (-> & -> & -> & _).
        destruct (wl_rng _ _ _ _ _ _ X e A') as (R1 & R2 & R3).
        split; [apply CE_old; exact R1|split; [apply CE_old; exact R2|apply LF_old; exact R3]].
      * rewrite In_, Ip, If. split; [|split]; assumption.
      * rewrite Xn, Xp, Xf. split; [|split]; assumption.
      * rewrite Pn, Pp, Pf. split; [|split]; assumption.
    + intros w A.
      destruct (Nat.eq_dec w fo) as [->|W1]; [rewrite SPvf; split; [exact Li'|rewrite Io; exact FO]|].
      destruct (Nat.eq_dec w (e_origin d nxt)) as [->|W2]; [rewrite SPvn; split; [exact Ln'|exact Xo]|].
      destruct (Nat.eq_dec w (e_origin d prv)) as [->|W3]; [rewrite SPvp; split; [exact Lp'|exact Po]|].
      rewrite (SPvx w W1 W2 W3).
      assert (CVw : CVh d inner [nxt; prv] w).
      { split; [apply LV_eq; exact A|]. cbn [map]. intros [Q|[Q|[Q|[]]]]; [apply W1; rewrite <- FO|apply W2|apply W3]; symmetry; exact Q. }
      pose proof (wl_vout _ _ _ _ _ _ X w CVw) as Q.
      destruct (v_out_edge d w) as [a|].
      * destruct Q as (Q1 & Q2). split; [apply LE_eq; exact Q1|]. rewrite Org. exact Q2.
      * ch_lia.
    + intros f A. destruct (Nat.eq_dec f G) as [->|FG].
      * rewrite SPaG. split; [exact Li'|exact If].
      * assert (A' : LFh d f) by (destruct A as (A1 & A2); rewrite LF' in A1; split; [clear - A1 FG EG; unfold LFh; lia|exact A2]).
        rewrite (SPax f) by (destruct A' as (A1 & _); ch_lia).
        pose proof (wl_adj _ _ _ _ _ _ X f A') as Q.
        destruct (f_adjacent d f) as [a|].
        -- destruct Q as (Q1 & Q2). split; [apply CE_old; exact Q1|].
           destruct (Old_ne a Q1) as (E1 & E2 & E3). destruct (Oth a E1 E2 E3) as (_ & _ & -> & _). exact Q2.
        -- ch_lia.
    + intros e A. destruct (CE_cases e A) as [A'|[->|[->| ->]]].
      * destruct (Old_ne e A') as (E1 & E2 & E3). destruct (Oth e E1 E2 E3) as (-> & -> & -> & _).
        destruct (wl_rng _ _ _ _ _ _ X e A') as (R1 & R2 & _).
        destruct (Old_ne _ R1) as (F1' & F2 & F3). destruct (Oth _ F1' F2 F3) as (_ & -> & -> & ->).
        destruct (Old_ne _ R2) as (G1 & G2 & G3). destruct (Oth _ G1 G2 G3) as (-> & _).
        rewrite (Org (rev e)).
        apply (wl_links _ _ _ _ _ _ X e A').
      * repeat split.
        -- rewrite In_. exact Xp.
        -- rewrite Ip. exact Pn.
        -- rewrite In_, Xf, If. reflexivity.
        -- rewrite In_, Xo, (Org (rev inner)). symmetry. exact Ca.
      * repeat split.
        -- rewrite Xn. exact Pp.
        -- rewrite Xp. exact In_.
        -- rewrite Xn, Pf, Xf. reflexivity.
        -- rewrite Xn, Po, (Org (rev nxt)). symmetry. exact Cb.
      * repeat split.
        -- rewrite Pn. exact Ip.
        -- rewrite Pp. exact Xn.
        -- rewrite Pn, If, Pf. reflexivity.
        -- rewrite Pn, Io, (Org (rev prv)), FO. symmetry. exact Cc.
    + intros e A Fe. destruct (CE_cases e A) as [A'|[->|[->| ->]]].
      * destruct (Old_ne e A') as (E1 & E2 & E3). destruct (Oth e E1 E2 E3) as (Q1 & _ & Q3 & _).
        rewrite Q3 in Fe. rewrite Q1, Q3.
        destruct (wl_rng _ _ _ _ _ _ X e A') as (R1 & _ & R3).
        destruct (Old_ne _ R1) as (F1' & F2 & F3). destruct (Oth _ F1' F2 F3) as (-> & _).
        destruct (wl_rng _ _ _ _ _ _ X _ R1) as (R1' & _).
        destruct (Old_ne _ R1') as (G1 & G2 & G3). destruct (Oth _ G1 G2 G3) as (-> & _).
        destruct (wl_tri _ _ _ _ _ _ X e A' Fe) as (T3 & a & Ha & Ea).
        split; [exact T3|].
        rewrite (SPax (e_face d e)) by (destruct R3 as (R3 & _); ch_lia).
        exists a. split; [exact Ha|].
        pose proof (wl_adj _ _ _ _ _ _ X _ R3) as Q. rewrite Ha in Q. destruct Q as (Ca' & _).
        destruct (Old_ne _ Ca') as (J1 & J2 & J3). destruct (Oth _ J1 J2 J3) as (-> & _).
        destruct (wl_rng _ _ _ _ _ _ X _ Ca') as (Cb' & _).
        destruct (Old_ne _ Cb') as (K1 & K2 & K3). destruct (Oth _ K1 K2 K3) as (-> & _).
        exact Ea.
      * split; [rewrite In_, Xn; exact Pn|]. rewrite If, SPaG. exists inner. split; [reflexivity|]. left. reflexivity.
      * split; [rewrite Xn, Pn; exact In_|]. rewrite Xf, SPaG. exists inner. split; [reflexivity|]. right. left. symmetry. exact In_.
      * split; [rewrite Pn, In_; exact Xn|]. rewrite Pf, SPaG. exists inner. split; [reflexivity|]. right. right. rewrite In_. symmetry. exact Xn.
  - intros e He A. destruct (CE_cases e A) as [A'|[->|[->| ->]]].
    + destruct (Old_ne e A') as (E1 & E2 & E3). destruct (Oth e E1 E2 E3) as (_ & _ & -> & _). apply NW; assumption.
    + rewrite If. ch_lia.
    + rewrite Xf. ch_lia.
    + rewrite Pf. ch_lia.
  - intros e D. rewrite LH'. apply DL. exact D.
  - intros f D. rewrite LF'. apply DFL in D. ch_lia.
Qed.
(* what the body needs from the invariant *)
Lemma hole_body_pre : forall d inner outer rest, Hole d inner (outer :: rest) ->
  length (d_flags d) * 2 = length (d_hedges d) /\
  inner < length (d_hedges d) /\ outer < length (d_hedges d) /\ inner <> outer /\
  e_origin d outer < length (d_verts d).
Proof.
  intros d inner outer rest [X DL DFL PN FO ND CH NW].
  assert (Li : LEh d inner) by (apply PN; left; reflexivity).
  assert (Lo : LEh d outer) by (apply PN; right; left; reflexivity).
  split; [apply (wl_even _ _ _ _ _ _ X)|]. split; [apply Li|]. split; [apply Lo|]. split.
  - intros E. cbn [map] in ND. apply NoDup_cons_iff in ND. destruct ND as (Na & _). apply Na. left. rewrite E. reflexivity.
  - apply (wl_LV_lt _ _ _ _ _ _ X). apply (wl_LV_org _ _ _ _ _ _ X). exact Lo.
Qed.

Lemma fan_loop_hole : forall stack d inner ne d1 bl1 inner1 ne1,
  Hole d inner stack -> H0 <= length (d_hedges d) -> 2 <= length stack ->
  fan_loop d stack inner fo ne = (d1, bl1, inner1, ne1) ->
  exists nx pv, bl1 = [nx; pv] /\ Hole d1 inner1 [nx; pv] /\ length (d_hedges d) <= length (d_hedges d1) /\
    (forall u, In u ne1 -> In u ne \/ (length (d_flags d) <= u /\ u < length (d_flags d1))).
Proof.
  induction stack as [|outer rest IH]; intros d inner ne d1 bl1 inner1 ne1 HO HH L F; [cbn [length] in L; lia|].
  rewrite fan_loop_unfold in F.
  destruct (2 <? length (outer :: rest)) eqn:E.
  - apply Nat.ltb_lt in E. cbn [length] in E.
    destruct (hole_body_pre d inner outer rest HO) as (Ev & Hi & Ho & Nio & Hv).
    pose proof (fan_body_post d inner outer fo Ev Hi Ho Nio Hv) as P.
    assert (RN : rest <> []) by (intros ->; cbn [length] in E; lia).
    pose proof (hole_step d inner outer rest _ HO RN HH P) as HO'.
    assert (NI : e_rev (normalized (num_undirected_edges d)) = S (length (d_hedges d))).
    { unfold e_rev, normalized, num_undirected_edges. rewrite rev_even. lia. }
    rewrite NI in F.
    apply IH in F; [|exact HO'|rewrite (sp_lenH _ _ _ _ _ P); lia|lia].
    destruct F as (nx & pv & B1 & B2 & B3 & B4).
    exists nx, pv. split; [exact B1|]. split; [exact B2|].
    rewrite (sp_lenH _ _ _ _ _ P) in B3. split; [lia|].
    intros u Hu. destruct (B4 u Hu) as [[Q|Q]|Q].
    + right. unfold as_undirected, normalized, num_undirected_edges in Q. rewrite Nat.div2_double in Q. subst u.
      split; [lia|]. rewrite <- (wl_even _ _ _ _ _ _ (ho_dwl _ _ _ B2)) in B3. lia.
    + left. exact Q.
    + right. rewrite (sp_lenG _ _ _ _ _ P) in Q. lia.
  - apply Nat.ltb_ge in E. inversion F; subst d1 bl1 inner1 ne1. cbn [length] in *.
    destruct rest as [|pv [|z rest]]; cbn [length] in *; try lia.
    exists outer, pv. split; [reflexivity|]. split; [exact HO|]. split; [lia|].
    intros u Hu. left. exact Hu.
Qed.

Lemma hole_close_pre : forall d inner nxt prv, Hole d inner [nxt; prv] ->
  inner < length (d_hedges d) /\ nxt < length (d_hedges d) /\ prv < length (d_hedges d) /\
  inner <> nxt /\ inner <> prv /\ nxt <> prv /\
  fo < length (d_verts d) /\ e_origin d nxt < length (d_verts d) /\ e_origin d prv < length (d_verts d) /\
  fo <> e_origin d nxt /\ fo <> e_origin d prv /\ e_origin d nxt <> e_origin d prv.
Proof.
  intros d inner nxt prv [X DL DFL PN FO ND CH NW].
  assert (Li : LEh d inner) by (apply PN; left; reflexivity).
  assert (Ln : LEh d nxt) by (apply PN; right; left; reflexivity).
  assert (Lp : LEh d prv) by (apply PN; right; right; left; reflexivity).
  change (NoDup [e_origin d inner; e_origin d nxt; e_origin d prv]) in ND.
  assert (Dv : e_origin d inner <> e_origin d nxt /\ e_origin d inner <> e_origin d prv /\ e_origin d nxt <> e_origin d prv).
  { apply NoDup_cons_iff in ND. destruct ND as (A & ND1). apply NoDup_cons_iff in ND1. destruct ND1 as (B & _).
    repeat split; intros E.
    - apply A. left. symmetry. exact E.
    - apply A. right. left. symmetry. exact E.
    - apply B. left. symmetry. exact E. }
  destruct Dv as (Dv1 & Dv2 & Dv3).
  pose proof (fun e L => wl_LV_lt _ _ _ _ _ _ X _ (wl_LV_org _ _ _ _ _ _ X e L)) as OV.
  split; [apply Li|]. split; [apply Ln|]. split; [apply Lp|].
  split; [intros E; apply Dv1; rewrite E; reflexivity|].
  split; [intros E; apply Dv2; rewrite E; reflexivity|].
  split; [intros E; apply Dv3; rewrite E; reflexivity|].
  rewrite <- FO.
  split; [apply OV; exact Li|]. split; [apply OV; exact Ln|]. split; [apply OV; exact Lp|].
  split; [exact Dv1|]. split; [exact Dv2|exact Dv3].
Qed.

Theorem remesh_DWX : forall d b0 bl etr ftr d1 iso,
  Hole d b0 bl -> H0 <= length (d_hedges d) -> 2 <= length bl ->
  remesh_edge_ring d (b0 :: bl) etr ftr = Some (d1, iso) ->
  DWX d1 (LEh d1) (LFh d1) (LVh d1) /\
  (forall e, H0 <= e -> LEh d1 e -> e_face d1 e <> 0) /\
  (forall e, dead e -> e < length (d_hedges d1)) /\ (forall f, deadF f -> f < length (d_faces d1)) /\
  length (d_hedges d) <= length (d_hedges d1) /\
  iso_edges_to_remove iso = etr /\ iso_faces_to_remove iso = ftr /\
  iso_smallest_new_edge iso = length (d_flags d) /\
  (forall u, In u (iso_new_edges iso) -> length (d_flags d) <= u /\ u < length (d_flags d1)).
Proof.
  intros d b0 bl etr ftr d1 iso HO HH L R.
  rewrite remesh_edge_ring_unfold in R.
  rewrite (ho_fo _ _ _ HO) in R.
  destruct (fan_loop d bl b0 fo []) as [[[dl bl1] inner] ne] eqn:F.
  apply (fan_loop_hole bl d b0 [] dl bl1 inner ne HO HH L) in F.
  destruct F as (nx & pv & -> & HO1 & LL & NE).
  inversion R; subst d1 iso; clear R.
  destruct (hole_close_pre dl inner nx pv HO1) as (A1 & A2 & A3 & A4 & A5 & A6 & A7 & A8 & A9 & A10 & A11 & A12).
  pose proof (fan_close_post dl inner nx pv fo A1 A2 A3 A4 A5 A6 A7 A8 A9 A10 A11 A12) as P.
  destruct (hole_final dl inner nx pv _ HO1 P) as (W & NI & DL & DFL).
  split; [exact W|]. split; [exact NI|]. split; [exact DL|]. split; [exact DFL|].
  rewrite (fpo_lenH _ _ _ _ _ _ P), (fpo_flags _ _ _ _ _ _ P).
  cbn [iso_edges_to_remove iso_faces_to_remove iso_smallest_new_edge iso_new_edges].
  split; [exact LL|]. split; [reflexivity|]. split; [reflexivity|]. split; [reflexivity|].
  intros u Hu. destruct (NE u Hu) as [[]|Q]. exact Q.
Qed.
End HoleSec.

(* ================================================================================================ *)
(* PART 2.  the star of an interior vertex is a hole                                                 *)
(* ================================================================================================ *)

Lemma Orb_head : forall f a c l, Orb f a c l -> exists l', l = c :: l'.
Proof. intros f a c l O. destruct O; eexists; reflexivity. Qed.

Lemma Orb_succ : forall f a c l, Orb f a c l -> forall x, In x l -> In (f x) l \/ f x = a.
Proof.
  intros f a c l O. induction O as [c E|c l N O IH]; intros x I.
  - destruct I as [<-|[]]. right. exact E.
  - destruct I as [<-|I].
    + left. right. destruct (Orb_head _ _ _ _ O) as (l' & ->). left. reflexivity.
    + destruct (IH x I) as [Q|Q]; [left; right; exact Q|right; exact Q].
Qed.

Lemma Orb_pred : forall f a c l, Orb f a c l -> forall x, In x l -> x = c \/ exists y, In y l /\ f y = x.
Proof.
  intros f a c l O. induction O as [c E|c l N O IH]; intros x I.
  - destruct I as [<-|[]]. left. reflexivity.
  - destruct I as [<-|I]; [left; reflexivity|]. right.
    destruct (IH x I) as [->|(y & Iy & Ey)].
    + exists c. split; [left; reflexivity|reflexivity].
    + exists y. split; [right; exact Iy|exact Ey].
Qed.

Lemma Orb_last_pre : forall f a c l, Orb f a c l -> exists y, In y l /\ f y = a.
Proof.
  intros f a c l O. induction O as [c E|c l N O IH].
  - exists c. split; [left; reflexivity|exact E].
  - destruct IH as (y & Iy & Ey). exists y. split; [right; exact Iy|exact Ey].
Qed.

Lemma Orb_chain : forall d a c l, Orb (d_ccw d) a c l ->
  (forall x, In x l -> e_to d (e_next d x) = e_origin d (e_next d (d_ccw d x))) ->
  exists l', l = c :: l' /\ chain d (e_next d c) (map (e_next d) l') (e_origin d (e_next d a)).
Proof.
  intros d a c l O. induction O as [c E|c l N O IH]; intros Q.
  - exists []. split; [reflexivity|]. cbn [map chain]. rewrite <- E. apply Q. left. reflexivity.
  - destruct IH as (l' & -> & C); [intros x I; apply Q; right; exact I|].
    exists (d_ccw d c :: l'). split; [reflexivity|]. cbn [map chain]. split; [apply Q; left; reflexivity|exact C].
Qed.

Lemma NoDup_map_inj_in : forall A B (f : A -> B) l,
  NoDup l -> (forall x y, In x l -> In y l -> f x = f y -> x = y) -> NoDup (map f l).
Proof.
  intros A B f l. induction l as [|a t IH]; intros ND Inj; cbn [map]; [constructor|].
  apply NoDup_cons_iff in ND. destruct ND as (Na & ND). constructor.
  - intros I. apply in_map_iff in I. destruct I as (y & Ey & Iy).
    apply Na. rewrite (Inj a y (or_introl eq_refl) (or_intror Iy) (eq_sym Ey)). exact Iy.
  - apply IH; [exact ND|]. intros x y Ix Iy. apply Inj; right; assumption.
Qed.

Lemma div2_lt_even : forall x m, x < m * 2 -> Nat.div2 x < m.
Proof. intros x m H. destruct (rev_cases x) as (k & [(E & _)|(E & _)]); subst x; [rewrite Nat.div2_double|replace (2 * k + 1) with (S (2 * k)) by lia; rewrite Nat.div2_succ_double]; lia. Qed.

Lemma div2_rev_eq : forall e, Nat.div2 (rev e) = Nat.div2 e.
Proof.
  intros e. destruct (rev_cases e) as (k & [(E & R)|(E & R)]); rewrite R, E.
  - replace (2 * k + 1) with (S (2 * k)) by lia. rewrite Nat.div2_succ_double, Nat.div2_double. reflexivity.
  - replace (2 * k + 1) with (S (2 * k)) by lia. rewrite Nat.div2_succ_double, Nat.div2_double. reflexivity.
Qed.

Lemma div2_eq_rev_cases : forall e x, Nat.div2 e = Nat.div2 x -> e = x \/ e = rev x.
Proof.
  intros e x E. destruct (rev_cases x) as (k & [(Ex & Rx)|(Ex & Rx)]); rewrite Rx; rewrite Ex in E |- *.
  - rewrite Nat.div2_double in E. apply div2_eq_iff in E. exact E.
  - replace (2 * k + 1) with (S (2 * k)) in E by lia. rewrite Nat.div2_succ_double in E. apply div2_eq_iff in E. tauto.
Qed.

Section Star.
Variable d : dcel.
Variables (v a : nat) (es : list nat).
Hypothesis W : DW d.
Hypothesis Hv : v < length (d_verts d).
Hypothesis Va : v_out_edge d v = Some a.
Hypothesis O : Orb (d_ccw d) a a es.
Hypothesis Inn : forall x, In x es -> is_outer d x = false.
Hypothesis Cov : forall e, e < length (d_hedges d) -> e_origin d e = v -> In e es.
Hypothesis NDn : NoDup (map (e_to d) es).
Notation n := (length (d_hedges d)).

Definition sdead (e : nat) : Prop := In e es \/ In (rev e) es.
Definition sdeadF (f : nat) : Prop := In f (map (e_face d) es).

Lemma sdead_rev : forall e, sdead e -> sdead (rev e).
Proof. intros e [A|A]; [right; rewrite rev_rev; exact A|left; exact A]. Qed.

Lemma star_a : a < n /\ e_origin d a = v.
Proof.
  split; [apply (dw_vout_rng d W v Hv a Va)|].
  pose proof (dw_vptr d W v Hv) as P. rewrite Va in P. exact P.
Qed.

Lemma es_fact : forall x, In x es -> x < n /\ e_origin d x = v /\ inner d x.
Proof.
  intros x I.
  assert (P : x < n /\ e_origin d x = v).
  { apply (Orb_closed (d_ccw d) a (fun x => x < n /\ e_origin d x = v)) with (c := a) (l := es); [|exact O|exact star_a|exact I].
    intros y (Y1 & Y2). unfold d_ccw, e_rev. pose proof (dw_prev_lt d W y Y1) as Lp.
    split; [apply dw_rev_lt; assumption|].
    rewrite <- (dw_org_next d W _ Lp), (dw_next_prev d W y Y1). exact Y2. }
  destruct P as (P1 & P2). split; [exact P1|]. split; [exact P2|].
  unfold inner. pose proof (Inn x I) as Q. unfold is_outer in Q. apply Nat.eqb_neq in Q. exact Q.
Qed.

Lemma es_a : In a es.
Proof. destruct (Orb_head _ _ _ _ O) as (l' & ->). left. reflexivity. Qed.

Lemma es_ccw : forall x, In x es -> In (rev (e_prev d x)) es.
Proof.
  intros x I. destruct (Orb_succ _ _ _ _ O x I) as [Q|Q]; [exact Q|].
  unfold d_ccw, e_rev in Q. rewrite Q. exact es_a.
Qed.

(* the clockwise neighbour t of x: prev t = rev x *)
Lemma es_cw : forall x, In x es -> In (e_next d (rev x)) es /\ e_prev d (e_next d (rev x)) = rev x.
Proof.
  intros x I. destruct (es_fact x I) as (Hx & _).
  pose proof (dw_rev_lt d W x Hx) as Hr.
  split; [|apply dw_prev_next; assumption].
  assert (P : exists y, In y es /\ d_ccw d y = x).
  { destruct (Orb_pred _ _ _ _ O x I) as [->|Q]; [apply (Orb_last_pre _ _ _ _ O)|exact Q]. }
  destruct P as (y & Iy & Ey). destruct (es_fact y Iy) as (Hy & _).
  unfold d_ccw, e_rev in Ey. rewrite <- Ey, rev_rev. rewrite (dw_next_prev d W y Hy). exact Iy.
Qed.

(* the three half-edges of the face of a spoke x: x, its border edge next x, and prev x = rev (ccw x) *)
Lemma es_tri : forall x, In x es ->
  let xn := e_next d x in let xp := e_prev d x in
  xn < n /\ xp < n /\ e_next d xn = xp /\ e_next d xp = x /\ e_prev d xn = x /\ e_prev d xp = xn /\
  e_face d xn = e_face d x /\ e_face d xp = e_face d x /\
  e_origin d xn = e_to d x /\ e_to d xn = e_origin d xp /\ e_origin d xn <> v /\ e_origin d xp <> v /\
  In (rev xp) es.
Proof.
  intros x I. cbv zeta. destruct (es_fact x I) as (Hx & Ox & Ix).
  destruct (dw_tri_facts d x W Hx Ix) as (T1 & T2 & T3 & T4 & T5 & T6 & T7 & T8 & T9 & T10 & T11 & T12 & T13 & T14).
  pose proof (dw_org_neq d W x Hx) as N1.
  pose proof (es_ccw x I) as Ic. destruct (es_fact _ Ic) as (Hc & Oc & _).
  pose proof (dw_org_neq d W _ Hc) as N2. rewrite rev_rev in N2.
  repeat split; try assumption.
  - intros E. apply N1. rewrite Ox. rewrite <- T12. symmetry. exact E.
  - intros E. apply N2. rewrite Oc. symmetry. exact E.
Qed.

Definition sbl : list nat := map (e_next d) es.

Lemma in_sbl : forall y, In y sbl <-> exists x, In x es /\ y = e_next d x.
Proof.
  intros y. unfold sbl. rewrite in_map_iff. split; intros (x & A & B); exists x; [split; [exact B|symmetry; exact A]|split; [symmetry; exact B|exact A]].
Qed.

Lemma sbl_live : forall y, In y sbl -> y < n /\ ~ sdead y.
Proof.
  intros y Iy. apply in_sbl in Iy. destruct Iy as (x & Ix & ->).
  destruct (es_tri x Ix) as (T1 & T2 & T3 & T4 & T5 & T6 & T7 & T8 & T9 & T10 & T11 & T12 & T13).
  split; [exact T1|]. intros [D|D].
  - destruct (es_fact _ D) as (_ & Q & _). exact (T11 Q).
  - destruct (es_fact _ D) as (_ & Q & _). apply T12. rewrite <- T10. exact Q.
Qed.

(* a live half-edge that is not a border edge has live, non-border neighbours and a live face *)
Lemma star_closed : forall e, e < n -> ~ sdead e -> ~ In e sbl ->
  (~ sdead (e_next d e) /\ ~ In (e_next d e) sbl) /\ (~ sdead (e_prev d e) /\ ~ In (e_prev d e) sbl) /\ ~ sdeadF (e_face d e).
Proof.
  intros e He Nd Nb.
  pose proof (dw_prev_next d W e He) as PN. pose proof (dw_next_prev d W e He) as NP.
  pose proof (dw_next_lt d W e He) as Ln. pose proof (dw_prev_lt d W e He) as Lp.
  split; [|split].
  - split.
    + intros [D|D].
      * (* next e = x in es: e = prev x = rev (ccw x) *)
        destruct (es_tri _ D) as (_ & _ & _ & _ & _ & _ & _ & _ & _ & _ & _ & _ & T13).
        rewrite PN in T13. apply Nd. right. exact T13.
      * (* next e = rev x: e = prev (rev x) = next (cw x) *)
        destruct (es_cw _ D) as (It & Pt). rewrite rev_rev in It, Pt.
        destruct (es_tri _ It) as (_ & _ & _ & _ & _ & T6 & _).
        rewrite Pt, PN in T6. apply Nb. apply in_sbl. eexists. split; [exact It|exact T6].
    + intros B. apply in_sbl in B. destruct B as (x & Ix & E).
      destruct (es_fact x Ix) as (Hx & _). apply (dw_next_inj d W e x He Hx) in E. subst e. apply Nd. left. exact Ix.
  - split.
    + intros [D|D].
      * apply Nb. apply in_sbl. exists (e_prev d e). split; [exact D|symmetry; exact NP].
      * destruct (es_cw _ D) as (It & _). rewrite rev_rev, NP in It. apply Nd. left. exact It.
    + intros B. apply in_sbl in B. destruct B as (x & Ix & E).
      destruct (es_tri x Ix) as (_ & _ & T3 & _ & _ & _ & _ & _ & _ & _ & _ & _ & T13).
      apply Nd. right. rewrite <- NP, E, T3. exact T13.
  - intros D. unfold sdeadF in D. apply in_map_iff in D. destruct D as (x & Fx & Ix).
    destruct (es_fact x Ix) as (Hx & _ & Inx).
    destruct (dw_same_face d W x e Hx He Inx (eq_sym Fx)) as [->|[->| ->]].
    + apply Nd. left. exact Ix.
    + apply Nb. apply in_sbl. exists x. split; [exact Ix|reflexivity].
    + destruct (es_tri x Ix) as (_ & _ & _ & _ & _ & _ & _ & _ & _ & _ & _ & _ & T13). apply Nd. right. exact T13.
Qed.

Lemma sdead_face : forall e, e < n -> sdead e -> sdeadF (e_face d e).
Proof.
  intros e He [D|D]; unfold sdeadF.
  - apply in_map. exact D.
  - destruct (es_cw _ D) as (It & Pt). rewrite rev_rev in It, Pt.
    destruct (es_fact _ It) as (Ht & _).
    rewrite <- Pt. rewrite (dw_face_prev d W _ Ht). apply in_map. exact It.
Qed.

Lemma sbl_face : forall y, In y sbl -> sdeadF (e_face d y).
Proof.
  intros y B. apply in_sbl in B. destruct B as (x & Ix & ->).
  destruct (es_tri x Ix) as (_ & _ & _ & _ & _ & _ & T7 & _). rewrite T7. unfold sdeadF. apply in_map. exact Ix.
Qed.

Lemma sbl_origins : map (e_origin d) sbl = map (e_to d) es.
Proof.
  unfold sbl. rewrite map_map. apply map_ext_in. intros x Ix.
  destruct (es_tri x Ix) as (_ & _ & _ & _ & _ & _ & _ & _ & T9 & _). exact T9.
Qed.

Theorem star_hole : forall es',
  es = a :: es' ->
  Hole sdead sdeadF v (e_origin d (e_next d a)) n d (e_next d a) (map (e_next d) es').
Proof.
  intros es' Ees.
  assert (BL : e_next d a :: map (e_next d) es' = sbl) by (unfold sbl; rewrite Ees; reflexivity).
  assert (PE_iff : forall e, PEh (e_next d a) (map (e_next d) es') e <-> In e sbl).
  { intros e. rewrite <- BL. unfold PEh. cbn [In]. split; (intros [Q|Q]; [left; symmetry; exact Q|right; exact Q]). }
  assert (CE_iff : forall e, CEh sdead d (e_next d a) (map (e_next d) es') e <-> (e < n /\ ~ sdead e /\ ~ In e sbl)).
  { intros e. unfold CEh, LEh. rewrite PE_iff. tauto. }
  constructor.
  - constructor.
    + apply (dw_even d W).
    + apply (dw_face1 d W).
    + intros e (A & _). exact A.
    + intros e (A & B). split; [apply dw_rev_lt; assumption|]. intros D. apply B. rewrite <- (rev_rev e). apply sdead_rev. exact D.
    + intros e (A & _). exact A.
    + intros f (A & _). exact A.
    + intros w (A & _). exact A.
    + intros w (A & _). exact A.
    + intros e (A & B). split; [split|].
      * apply dw_org_lt; assumption.
      * intros E. apply B. left. apply Cov; assumption.
      * apply dw_org_neq; assumption.
    + intros e A. apply CE_iff in A. destruct A as (A1 & A2 & A3).
      destruct (star_closed e A1 A2 A3) as ((N1 & N2) & (P1 & P2) & F).
      split; [|split].
      * apply CE_iff. split; [apply dw_next_lt; assumption|split; assumption].
      * apply CE_iff. split; [apply dw_prev_lt; assumption|split; assumption].
      * split; [apply dw_face_lt; assumption|exact F].
    + intros w ((A1 & A2) & B).
      pose proof (dw_vptr d W w A1) as P. pose proof (dw_vout_rng d W w A1) as R.
      destruct (v_out_edge d w) as [x|]; [|exact P].
      specialize (R x eq_refl). split; [|exact P]. split; [exact R|].
      intros [D|D].
      * destruct (es_fact _ D) as (_ & Q & _). apply A2. rewrite <- P, Q. reflexivity.
      * apply B. rewrite BL, sbl_origins. apply in_map_iff. exists (rev x). split; [|exact D].
        unfold e_to, e_rev. rewrite rev_rev. exact P.
    + intros f (A1 & A2).
      pose proof (dw_fptr d W f A1) as P. pose proof (dw_adj_rng d W f A1) as R.
      destruct (f_adjacent d f) as [x|]; [|exact P].
      specialize (R x eq_refl). split; [|exact P]. apply CE_iff. split; [exact R|]. split.
      * intros D. apply A2. rewrite <- P. apply sdead_face; assumption.
      * intros B. apply A2. rewrite <- P. apply sbl_face. exact B.
    + intros e A. apply CE_iff in A. destruct A as (A1 & _).
      destruct (dw_links d W e A1) as (L1 & L2 & L3 & L4 & _). repeat split; assumption.
    + intros e A Fe. apply CE_iff in A. destruct A as (A1 & _). apply (dw_tri d W e A1 Fe).
  - intros e [D|D]; [apply (es_fact _ D)|].
    destruct (es_fact _ D) as (Q & _). apply (dw_rev_lt d W) in Q. rewrite rev_rev in Q. exact Q.
  - intros f D. unfold sdeadF in D. apply in_map_iff in D. destruct D as (x & <- & Ix).
    apply dw_face_lt; [exact W|apply (es_fact x Ix)].
  - intros x Px. apply PE_iff in Px. apply sbl_live. exact Px.
  - reflexivity.
  - change (NoDup (map (e_origin d) (e_next d a :: map (e_next d) es'))). rewrite BL, sbl_origins. exact NDn.
  - destruct (Orb_chain d a a es O) as (l' & El & C).
    + intros x Ix. destruct (es_tri x Ix) as (_ & _ & _ & _ & _ & _ & _ & _ & _ & T10 & _ & _ & T13).
      rewrite T10. unfold d_ccw, e_rev.
      destruct (es_tri _ T13) as (_ & _ & _ & _ & _ & _ & _ & _ & T9' & _). rewrite T9'.
      unfold e_to, e_rev. rewrite rev_rev. reflexivity.
    + rewrite Ees in El. injection El as <-. exact C.
  - intros e He ((A & _) & _). lia.
Qed.

Lemma sdead_div2 : forall e, sdead e <-> In (Nat.div2 e) (map as_undirected es).
Proof.
  intros e. unfold sdead, as_undirected. split.
  - intros [D|D]; [apply in_map; exact D|]. rewrite <- div2_rev_eq. apply in_map. exact D.
  - intros I. apply in_map_iff in I. destruct I as (x & Ex & Ix).
    destruct (div2_eq_rev_cases e x (eq_sym Ex)) as [->| ->]; [left; exact Ix|right; rewrite rev_rev; exact Ix].
Qed.

Lemma NoDup_es : NoDup es.
Proof. apply (NoDup_map_inv (e_to d)). exact NDn. Qed.

Lemma NoDup_und_es : NoDup (map as_undirected es).
Proof.
  apply NoDup_map_inj_in; [exact NoDup_es|]. intros x y Ix Iy E.
  destruct (div2_eq_rev_cases x y E) as [Q|Q]; [exact Q|]. exfalso.
  destruct (es_fact x Ix) as (_ & Ox & _). destruct (es_fact y Iy) as (Hy & Oy & _).
  apply (dw_org_neq d W y Hy). rewrite Oy, <- Q, Ox. reflexivity.
Qed.

Lemma NoDup_face_es : NoDup (map (e_face d) es).
Proof.
  apply NoDup_map_inj_in; [exact NoDup_es|]. intros x y Ix Iy E.
  destruct (es_fact x Ix) as (Hx & Ox & Inx). destruct (es_fact y Iy) as (Hy & Oy & _).
  destruct (es_tri x Ix) as (_ & _ & _ & _ & _ & _ & _ & _ & _ & _ & T11 & T12 & _).
  destruct (dw_same_face d W x y Hx Hy Inx (eq_sym E)) as [Q|[Q|Q]]; [symmetry; exact Q| |]; exfalso; rewrite Q in Oy; [exact (T11 Oy)|exact (T12 Oy)].
Qed.

Lemma face_es_rng : forall f, In f (map (e_face d) es) -> 0 < f /\ f < length (d_faces d).
Proof.
  intros f I. apply in_map_iff in I. destruct I as (x & <- & Ix). destruct (es_fact x Ix) as (Hx & _ & Inx).
  split; [unfold inner in Inx; lia|apply dw_face_lt; assumption].
Qed.

Lemma filter_face_es : filter (fun f => negb (f =? 0)) (map (e_face d) es) = map (e_face d) es.
Proof.
  apply filter_all. intros f I. destruct (face_es_rng f I) as (P & _).
  destruct (Nat.eqb_spec f 0); [lia|reflexivity].
Qed.

Lemma und_es_rng : forall u, In u (map as_undirected es) -> u < length (d_flags d).
Proof.
  intros u I. apply in_map_iff in I. destruct I as (x & <- & Ix). destruct (es_fact x Ix) as (Hx & _).
  unfold as_undirected. apply div2_lt_even. rewrite (dw_even d W). exact Hx.
Qed.

End Star.

(* ================================================================================================ *)
(* PART 3.  legalize_edges_after_removal                                                             *)
(* ================================================================================================ *)

Lemma incircle_same_apex : forall a b c : pnt, incircle a b c c = 0%Z.
Proof. intros a b c. unfold incircle. ring. Qed.

Lemma push_if_not_contained_cases : forall x l u, In u (push_if_not_contained x l) -> u = x \/ In u l.
Proof.
  intros x l u. unfold push_if_not_contained. destruct (memb x l); [intros H; right; exact H|intros [H|H]; [left; symmetry; exact H|right; exact H]].
Qed.

Section LegalizeLive.
Variable pts : list pnt.
Variables LE LF LV : nat -> Prop.
Variable smallest : nat.

(* every undirected edge from `smallest` on is live and has an inner face on both sides *)
Definition NewInner (d : dcel) : Prop :=
  forall u, smallest <= u -> u < length (d_flags d) -> LE (2 * u) /\ e_face d (2 * u) <> 0 /\ e_face d (2 * u + 1) <> 0.

Lemma legalize_after_removal_DWX : forall k d stack d',
  DWX d LE LF LV -> NewInner d ->
  (forall u, In u stack -> u < length (d_flags d)) ->
  legalize_after_removal pts k d stack smallest = Some d' ->
  DWX d' LE LF LV /\ NewInner d'.
Proof.
  induction k as [|k IH]; intros d stack d' X NI SO H; cbn [legalize_after_removal] in H; [discriminate|].
  destruct stack as [|u rest]; [inversion H; subst; split; assumption|].
  cbv zeta in H.
  assert (SOr : forall w, In w rest -> w < length (d_flags d)) by (intros w Hw; apply SO; right; exact Hw).
  destruct (is_flagged d (normalized u) || (u <? smallest)) eqn:Skip; [apply (IH d rest d' X NI SOr H)|].
  apply orb_false_iff in Skip. destruct Skip as (_ & Sm). apply Nat.ltb_ge in Sm.
  assert (Lu : u < length (d_flags d)) by (apply SO; left; reflexivity).
  destruct (NI u Sm Lu) as (Le & F0 & F1).
  unfold normalized, e_rev in H. rewrite rev_even in H.
  assert (O0 : is_outer d (2 * u) = false) by (unfold is_outer; apply Nat.eqb_neq; exact F0).
  assert (O1 : is_outer d (2 * u + 1) = false) by (unfold is_outer; apply Nat.eqb_neq; exact F1).
  rewrite O0, O1 in H.
  destruct (0 <? incircle (vpos pts (e_origin d (2 * u))) (vpos pts (e_to d (2 * u)))
                          (vpos pts (apex d (2 * u))) (vpos pts (apex d (2 * u + 1))))%Z eqn:SF.
  - (* flip *)
    assert (Apex : e_origin d (e_prev d (2 * u)) <> e_origin d (e_prev d (2 * u + 1))).
    { intros E. unfold apex in SF. rewrite E in SF. rewrite incircle_same_apex in SF. discriminate. }
    assert (AU : as_undirected (2 * u) = u) by (unfold as_undirected; apply Nat.div2_double).
    rewrite AU in H.
    destruct (flip_cw_DWX d u LE LF LV X Le F0 F1 Apex) as (X' & Post & Face0 & _).
    assert (LG : length (d_flags (fst (flip_cw d u))) = length (d_flags d)) by (rewrite (fp_flags _ _ _ Post); reflexivity).
    apply (IH _ _ d' X') in H; [exact H| |].
    + intros w W1 W2. rewrite LG in W2. destruct (NI w W1 W2) as (A & B & C).
      split; [exact A|]. split; intros Q; [apply B|apply C]; apply Face0; exact Q.
    + (* the new stack *)
      unfold DWX in X.
      assert (Lr : LE (2 * u + 1)) by (rewrite <- rev_even; apply (wl_LE_rev _ _ _ _ _ _ X); exact Le).
      assert (U : forall x, LE x -> as_undirected x < length (d_flags d)).
      { intros x Lx. unfold as_undirected. apply div2_lt_even. rewrite (wl_even _ _ _ _ _ _ X). apply (wl_LE_lt _ _ _ _ _ _ X). exact Lx. }
      intros w Hw. rewrite LG.
      apply push_if_not_contained_cases in Hw. destruct Hw as [->|Hw]; [apply U; apply (wl_CE_prev _ _ _ _ _ _ X); exact Lr|].
      apply push_if_not_contained_cases in Hw. destruct Hw as [->|Hw]; [apply U; apply (wl_CE_next _ _ _ _ _ _ X); exact Lr|].
      apply push_if_not_contained_cases in Hw. destruct Hw as [->|Hw]; [apply U; apply (wl_CE_prev _ _ _ _ _ _ X); exact Le|].
      apply push_if_not_contained_cases in Hw. destruct Hw as [->|Hw]; [apply U; apply (wl_CE_next _ _ _ _ _ _ X); exact Le|].
      apply SOr. exact Hw.
  - apply (IH d rest d' X NI SOr H).
Qed.
End LegalizeLive.

(* ================================================================================================ *)
(* PART 4.  cleanup, swap_remove_vertex, the theorem                                                 *)
(* ================================================================================================ *)

(* the last step: every table entry is live except vertex v, which no half-edge refers to; the vertex table is renamed by phi *)
Lemma vertex_relabel_DW : forall d d' v (phi : nat -> nat),
  DWX d (all_he d) (all_f d) (fun w => w < length (d_verts d) /\ w <> v) ->
  length (d_hedges d') = length (d_hedges d) -> d_faces d' = d_faces d -> d_flags d' = d_flags d ->
  (forall e, e < length (d_hedges d) ->
     e_next d' e = e_next d e /\ e_prev d' e = e_prev d e /\ e_face d' e = e_face d e /\ e_origin d' e = phi (e_origin d e)) ->
  (forall w, w < length (d_verts d) -> w <> v -> phi w < length (d_verts d')) ->
  (forall w1 w2, w1 < length (d_verts d) -> w1 <> v -> w2 < length (d_verts d) -> w2 <> v -> phi w1 = phi w2 -> w1 = w2) ->
  (forall w', w' < length (d_verts d') ->
     exists w, w < length (d_verts d) /\ w <> v /\ phi w = w' /\ v_out_edge d' w' = v_out_edge d w) ->
  DW d'.
Proof.
  intros d d' v phi X LH EF EG RD PR PI PS. unfold DWX, all_he, all_f in X.
  assert (Nx : forall e, e < length (d_hedges d) -> e_next d e < length (d_hedges d)) by (intros e He; apply (wl_CE_next _ _ _ _ _ _ X e He)).
  assert (Px : forall e, e < length (d_hedges d) -> e_prev d e < length (d_hedges d)) by (intros e He; apply (wl_CE_prev _ _ _ _ _ _ X e He)).
  assert (Rx : forall e, e < length (d_hedges d) -> rev e < length (d_hedges d)) by (intros e He; apply (wl_LE_rev _ _ _ _ _ _ X e He)).
  assert (FA : forall f, f_adjacent d' f = f_adjacent d f) by (intros f; unfold f_adjacent; rewrite EF; reflexivity).
  constructor.
  - rewrite EG, LH. apply (wl_even _ _ _ _ _ _ X).
  - rewrite EF. apply (wl_face1 _ _ _ _ _ _ X).
  - intros e He. rewrite LH in *. destruct (RD e He) as (-> & -> & -> & ->). rewrite EF.
    destruct (wl_org _ _ _ _ _ _ X e He) as ((O1 & O2) & _).
    repeat split; [apply Nx; exact He|apply Px; exact He|apply (wl_LF_face _ _ _ _ _ _ X e He)|apply PR; assumption].
  - intros w' Hw a Ha. rewrite LH. destruct (PS w' Hw) as (w & W1 & W2 & _ & E). rewrite E in Ha.
    pose proof (wl_vout _ _ _ _ _ _ X w (conj W1 W2)) as Q. rewrite Ha in Q. apply Q.
  - intros f Hf a Ha. rewrite LH. rewrite EF in Hf. rewrite FA in Ha.
    pose proof (wl_adj _ _ _ _ _ _ X f Hf) as Q. rewrite Ha in Q. apply Q.
  - intros e He. rewrite LH in He.
    destruct (RD e He) as (E1 & E2 & E3 & E4).
    destruct (RD _ (Nx e He)) as (_ & N2 & N3 & N4). destruct (RD _ (Px e He)) as (P1 & _).
    destruct (RD _ (Rx e He)) as (_ & _ & _ & R4).
    rewrite E1, E2, N2, P1, N3, E3, N4, E4, R4.
    destruct (wl_links _ _ _ _ _ _ X e He) as (L1 & L2 & L3 & L4).
    destruct (wl_org _ _ _ _ _ _ X e He) as ((O1 & O2) & O3).
    destruct (wl_org _ _ _ _ _ _ X _ (Rx e He)) as ((O4 & O5) & _).
    repeat split; try assumption.
    + rewrite L4. reflexivity.
    + intros Q. apply O3. apply PI; assumption.
  - intros f Hf. rewrite EF in Hf. rewrite FA, LH.
    pose proof (wl_adj _ _ _ _ _ _ X f Hf) as Q.
    destruct (f_adjacent d f) as [a|]; [|exact Q]. destruct Q as (Q1 & Q2).
    destruct (RD a Q1) as (_ & _ & -> & _). exact Q2.
  - intros w' Hw. destruct (PS w' Hw) as (w & W1 & W2 & W3 & E). rewrite E, LH.
    pose proof (wl_vout _ _ _ _ _ _ X w (conj W1 W2)) as Q.
    destruct (v_out_edge d w) as [a|]; [|exact Q]. destruct Q as (Q1 & Q2).
    destruct (RD a Q1) as (_ & _ & _ & ->). rewrite Q2. exact W3.
  - intros e He Fe. rewrite LH in He.
    destruct (RD e He) as (E1 & _ & E3 & _). rewrite E3 in Fe.
    destruct (RD _ (Nx e He)) as (N1 & _). destruct (RD _ (Nx _ (Nx e He))) as (NN1 & _).
    rewrite E1, N1, NN1, E3, FA.
    destruct (wl_tri _ _ _ _ _ _ X e He Fe) as (T3 & a & Ha & Ea).
    split; [exact T3|]. exists a. split; [exact Ha|].
    pose proof (wl_adj _ _ _ _ _ _ X _ (wl_LF_face _ _ _ _ _ _ X e He)) as Q. rewrite Ha in Q. destruct Q as (Qa & _).
    destruct (RD a Qa) as (-> & _). destruct (RD _ (Nx a Qa)) as (-> & _). exact Ea.
Qed.

(* the half-edges leaving vertex w are the counterclockwise orbit of its out_edge (what swap_remove_vertex relies on for the LAST vertex) *)
Definition OrbitCovers (fuel : nat) (d : dcel) (w : nat) : Prop :=
  exists a es, v_out_edge d w = Some a /\ circ_iter (d_ccw d) fuel a a = Some es /\
    forall e, e < length (d_hedges d) -> e_origin d e = w -> In e es.

(* swap_remove_vertex described as a renaming phi of the vertex table *)
Lemma swap_remove_vertex_relabel : forall fuel d v d' r,
  DWX d (all_he d) (all_f d) (fun w => w < length (d_verts d) /\ w <> v) ->
  v < length (d_verts d) ->
  (S v = length (d_verts d) \/ OrbitCovers fuel d (length (d_verts d) - 1)) ->
  swap_remove_vertex fuel d v = Some (d', r) ->
  exists phi : nat -> nat,
    length (d_hedges d') = length (d_hedges d) /\ d_faces d' = d_faces d /\ d_flags d' = d_flags d /\
    length (d_verts d') + 1 = length (d_verts d) /\
    (forall e, e < length (d_hedges d) ->
       e_next d' e = e_next d e /\ e_prev d' e = e_prev d e /\ e_face d' e = e_face d e /\ e_origin d' e = phi (e_origin d e)) /\
    (forall w, w < length (d_verts d) -> w <> v -> phi w < length (d_verts d')) /\
    (forall w1 w2, w1 < length (d_verts d) -> w1 <> v -> w2 < length (d_verts d) -> w2 <> v -> phi w1 = phi w2 -> w1 = w2) /\
    (forall w', w' < length (d_verts d') ->
       exists w, w < length (d_verts d) /\ w <> v /\ phi w = w' /\ v_out_edge d' w' = v_out_edge d w).
Proof.
  intros fuel d v d' r X Hv Cases H.
  destruct (Nat.eq_dec (S v) (length (d_verts d))) as [Last|NLast].
  - (* v is the last vertex: the table is truncated *)
    unfold swap_remove_vertex in H. unfold Raw.num_vertices in H.
    destruct (Nat.leb_spec (length (d_verts d)) v); [lia|]. cbv zeta in H.
    cbn [with_verts d_verts] in H. rewrite swap_remove_list_length in H.
    replace (length (d_verts d) - 1) with v in H by lia. rewrite Nat.eqb_refl in H. cbn [negb] in H.
    inversion H; subst d' r; clear H.
    assert (SR : swap_remove_list dflt_v v (d_verts d) = removelast (d_verts d)).
    { unfold swap_remove_list. replace (length (d_verts d) - 1) with v by lia. rewrite Nat.eqb_refl. reflexivity. }
    rewrite SR.
    exists (fun w => w). split; [reflexivity|]. split; [reflexivity|]. split; [reflexivity|].
    split; [cbn [with_verts d_verts]; rewrite removelast_len; lia|].
    split; [intros e He; repeat split|].
    split; [intros w W1 W2; cbn [with_verts d_verts]; rewrite removelast_len; lia|].
    split; [intros w1 w2 _ _ _ _ E; exact E|].
    intros w' Hw. cbn [with_verts d_verts] in Hw. rewrite removelast_len in Hw.
    exists w'. split; [lia|]. split; [lia|]. split; [reflexivity|].
    unfold v_out_edge. cbn [with_verts d_verts]. rewrite nth_removelast by lia. reflexivity.
  - destruct Cases as [C|(a & es & Va & CI & Cov)]; [congruence|].
    unfold DWX, all_he, all_f in X.
    set (last := length (d_verts d) - 1) in *.
    assert (VL : v < last) by (unfold last; lia).
    pose proof (wl_vout _ _ _ _ _ _ X last) as Q. rewrite Va in Q.
    destruct Q as (Qa & Qo); [split; unfold last; lia|].
    destruct (swap_remove_vertex_relabels fuel d v a VL Va Qa Qo) with (es := es) as (d2 & r2 & S2 & _ & Vt & LH & EF & EG & RD).
    + intros e He. split; [apply (wl_CE_prev _ _ _ _ _ _ X e He)|]. split; [apply (wl_next_prev _ _ _ _ _ _ X e He)|apply (wl_org_next _ _ _ _ _ _ X e He)].
    + intros e He. apply (wl_LE_rev _ _ _ _ _ _ X e He).
    + exact CI.
    + exact Cov.
    + rewrite S2 in H. inversion H; subst d2 r2; clear H.
      assert (LV' : length (d_verts d') = last) by (rewrite Vt, swap_remove_list_length; reflexivity).
      exists (fun w => if w =? last then v else w). split; [exact LH|]. split; [exact EF|]. split; [exact EG|].
      split; [rewrite LV'; unfold last; lia|].
      split; [intros e He; destruct (RD e He) as (R1 & R2 & R3 & R4); repeat split; assumption|].
      split; [intros w W1 W2; rewrite LV'; destruct (Nat.eqb_spec w last); [exact VL|unfold last in *; lia]|].
      split; [intros w1 w2 A1 A2 B1 B2; destruct (Nat.eqb_spec w1 last); destruct (Nat.eqb_spec w2 last); intros E; subst; congruence|].
      intros w' Hw. rewrite LV' in Hw.
      exists (if w' =? v then last else w'). destruct (Nat.eqb_spec w' v) as [->|NE].
      * split; [unfold last; lia|]. split; [lia|]. rewrite Nat.eqb_refl. split; [reflexivity|].
        unfold v_out_edge. rewrite Vt. rewrite (swap_remove_list_nth _ dflt_v (d_verts d) last v v); [rewrite Nat.eqb_refl; reflexivity|unfold last; lia|exact VL|exact VL].
      * split; [unfold last in *; lia|]. split; [exact NE|].
        destruct (Nat.eqb_spec w' last); [lia|]. split; [reflexivity|].
        unfold v_out_edge. rewrite Vt. rewrite (swap_remove_list_nth _ dflt_v (d_verts d) last v w'); [|unfold last; lia|exact VL|exact Hw].
        destruct (Nat.eqb_spec w' v); [congruence|reflexivity].
Qed.

Lemma swap_remove_vertex_DW : forall fuel d v d' r,
  DWX d (all_he d) (all_f d) (fun w => w < length (d_verts d) /\ w <> v) ->
  v < length (d_verts d) ->
  (S v = length (d_verts d) \/ OrbitCovers fuel d (length (d_verts d) - 1)) ->
  swap_remove_vertex fuel d v = Some (d', r) -> DW d'.
Proof.
  intros fuel d v d' r X Hv Cases H.
  destruct (swap_remove_vertex_relabel fuel d v d' r X Hv Cases H) as (phi & LH & EF & EG & _ & RD & PR & PI & PS).
  apply (vertex_relabel_DW d d' v phi X LH EF EG RD PR PI PS).
Qed.

(* THE THEOREM.  Removal of an interior vertex v (no out-edge of v is an outer edge) of a link-level well-formed dcel whose
   out-edges form the counterclockwise orbit of its out_edge and whose neighbours are pairwise different vertices:
   the state d3 before the final swap_remove_vertex is well-formed except that vertex v is isolated, and the result is DWf when v
   is the last vertex or (the hypothesis that is missing for an unconditional statement) the half-edges leaving the last vertex
   of d3 are the counterclockwise orbit of its out_edge. *)
Theorem remove_interior_DWf_partial : forall pts fuel d v a bl es d' r,
  DWf d ->
  v_out_edge d v = Some a -> border_scan fuel d a a [] = Some (bl, None) ->
  out_edges fuel d v = Some es ->
  (forall e, e < length (d_hedges d) -> e_origin d e = v -> In e es) ->
  NoDup (map (e_to d) es) ->
  remove_vertex_full pts fuel d v = Some (d', r) ->
  exists d3,
    swap_remove_vertex fuel d3 v = Some (d', r) /\
    DWX d3 (all_he d3) (all_f d3) (fun w => w < length (d_verts d3) /\ w <> v) /\
    length (d_verts d3) = length (d_verts d) /\
    (S v = length (d_verts d) \/ OrbitCovers fuel d3 (length (d_verts d) - 1) -> DWf d').
Proof.
  intros pts fuel d v a bl es d' r Wf Va B OE Cov NDn H.
  apply DWf_DW in Wf. rename Wf into W.
  unfold remove_vertex_full in H.
  destruct (Nat.leb_spec (Raw.num_vertices d) v) as [|Hv]; [discriminate|]. unfold Raw.num_vertices in Hv.
  (* the orbit *)
  pose proof OE as OE'. unfold out_edges in OE'. rewrite Va in OE'.
  apply circ_iter_Orb in OE'. destruct OE' as (O & Lk).
  assert (Ra : a < length (d_hedges d)) by (eapply (dw_vout_rng d W v); [exact Hv|exact Va]).
  assert (Rng : forall x, In x es -> x < length (d_hedges d)).
  { apply (Orb_closed (d_ccw d) a (fun x => x < length (d_hedges d))) with (c := a); [|exact O|exact Ra].
    intros x Hx. unfold d_ccw, e_rev. apply dw_rev_lt; [exact W|]. apply dw_prev_lt; assumption. }
  assert (Inv : forall x, In x es -> d_cw d (d_ccw d x) = x).
  { intros x Hx. unfold d_cw, d_ccw, e_rev. rewrite rev_rev. apply dw_next_prev; [exact W|apply Rng; exact Hx]. }
  pose proof B as B'.
  replace fuel with ((fuel - length es) + length es) in B' by lia.
  apply (border_scan_orbit d a a es O Inv) in B'. destruct B' as (Inn & B').
  rewrite Nat.eqb_refl in B'. rewrite app_nil_r in B'.
  destruct (Orb_head _ _ _ _ O) as (es' & Ees).
  pose proof (star_hole d v a es W Hv Va O Inn Cov NDn es' Ees) as HO.
  pose proof (es_fact d v a es W Hv Va O Inn) as EF.
  (* two-dimensional *)
  assert (F2 : (Raw.num_faces d <=? 1) = false).
  { apply Nat.leb_gt. destruct (EF a) as (_ & _ & Ia); [rewrite Ees; left; reflexivity|].
    pose proof (dw_face_lt d W a Ra). unfold inner in Ia. unfold Raw.num_faces. lia. }
  rewrite F2 in H. unfold remove_2d in H. rewrite Va, B in H.
  unfold isolate_vertex_and_fill_hole in H. rewrite OE in H.
  rewrite (filter_face_es d v a es W Hv Va O Inn) in H.
  destruct (remesh_edge_ring d bl (map as_undirected es) (map (e_face d) es)) as [[d1 iso]|] eqn:R; [|discriminate].
  pose proof (remesh_edge_ring_sizes _ _ _ _ _ _ R) as (S1 & S2 & _).
  remember (map as_undirected es) as etr eqn:Eetr. remember (map (e_face d) es) as ftr eqn:Eftr.
  rewrite B', Ees in R. cbn [map] in R.
  assert (L2 : 2 <= length (map (e_next d) es')).
  { rewrite B', Ees in S1. cbn [map length] in S1. lia. }
  destruct (remesh_DWX (sdead es) (sdeadF d es) v _ _ (sdead_rev es) d _ _ _ _ d1 iso HO (le_n _) L2 R)
    as (X1 & NI1 & DL1 & DFL1 & LL & I1 & I2 & I3 & I4).
  (* legalization *)
  destruct (legalize_after_removal pts fuel d1 (iso_new_edges iso) (iso_smallest_new_edge iso)) as [d2|] eqn:G; [|discriminate].
  rewrite I3 in G.
  pose proof (Keep_legalize_after_removal _ _ _ _ _ _ G) as (K1 & K2 & K3 & K4).
  pose proof (dw_even d W) as Ev0. pose proof (wl_even _ _ _ _ _ _ X1) as Ev1.
  assert (NIn : NewInner (LEh (sdead es) d1) (length (d_flags d)) d1).
  { intros u U1 U2.
    assert (A : forall e, length (d_hedges d) <= e -> e < length (d_hedges d1) -> LEh (sdead es) d1 e).
    { intros e E1 E2. split; [exact E2|]. intros D. apply (ho_dead_lt _ _ _ _ _ _ _ _ HO) in D. lia. }
    assert (A0 : LEh (sdead es) d1 (2 * u)) by (apply A; lia).
    assert (A1 : LEh (sdead es) d1 (2 * u + 1)) by (apply A; lia).
    split; [exact A0|]. split; apply NI1; try assumption; lia. }
  assert (SO : forall u, In u (iso_new_edges iso) -> u < length (d_flags d1)) by (intros u Hu; apply I4; exact Hu).
  destruct (legalize_after_removal_DWX pts _ _ _ _ fuel d1 _ d2 X1 NIn SO G) as (X2 & _).
  (* cleanup: edges *)
  destruct (cleanup_isolated_vertex d2 iso) as [d3|] eqn:C; [|discriminate].
  unfold cleanup_isolated_vertex in C. rewrite I1, I2 in C. subst etr ftr.
  destruct (fold_opt swap_remove_undirected_edge (sort_desc (map as_undirected es)) d2) as [d3e|] eqn:CE; [|discriminate].
  pose proof (fold_swap_remove_edges_sizes _ _ _ CE) as (Z1 & Z2 & _ & _).
  assert (PermE : forall u, In u (sort_desc (map as_undirected es)) <-> In u (map as_undirected es)).
  { intros u. split; apply Permutation_in; [apply Permutation_sym|]; apply sort_desc_perm. }
  assert (PermF : forall f, In f (sort_desc (map (e_face d) es)) <-> In f (map (e_face d) es)).
  { intros f. split; apply Permutation_in; [apply Permutation_sym|]; apply sort_desc_perm. }
  assert (X3e : DWX d3e (fun e => e < length (d_hedges d3e)) (LFh (sdeadF d es) d1) (LVh v d1)).
  { apply (cleanup_edges_DWX (sort_desc (map as_undirected es)) d2 _ _ d3e).
    - apply sort_desc_sorted. apply (NoDup_und_es d v a es W Hv Va O Inn NDn).
    - intros u Hu. apply PermE in Hu. unfold Raw.num_undirected_edges. rewrite K4.
      apply in_map_iff in Hu. destruct Hu as (x & <- & Ix).
      unfold as_undirected. apply div2_lt_even. rewrite Ev1. apply DL1. left. exact Ix.
    - unfold DWX. apply (DWL_ext d2 (LEh (sdead es) d1) (LEh (sdead es) d1) (LFh (sdeadF d es) d1) (LVh v d1) (LVh v d1)); try (intros; reflexivity); [| |exact X2].
      + intros e. unfold LEh. rewrite K2, PermE, <- (sdead_div2 es). reflexivity.
      + intros e. unfold LEh. rewrite K2, PermE, <- (sdead_div2 es). reflexivity.
    - exact CE. }
  (* cleanup: faces *)
  destruct (cleanup_faces_DWX (sort_desc (map (e_face d) es)) d3e (fun e => e < length (d_hedges d3e)) (LVh v d1) d3) as (X3 & V3 & _ & H3).
  { apply sort_desc_sorted. apply (NoDup_face_es d v a es W Hv Va O Inn Cov NDn). }
  { intros f Hf. apply PermF in Hf. split; [apply (face_es_rng d v a es W Hv Va O Inn f Hf)|].
    unfold Raw.num_faces. rewrite Z2, K3. apply DFL1. exact Hf. }
  { unfold DWX. apply (DWL_ext d3e (fun e => e < length (d_hedges d3e)) (fun e => e < length (d_hedges d3e)) (LFh (sdeadF d es) d1) (LVh v d1) (LVh v d1));
      try (intros; reflexivity); [|exact X3e].
    intros f. unfold LFh, sdeadF. rewrite Z2, K3, PermF. reflexivity. }
  { exact C. }
  (* the vertex *)
  assert (LV3 : length (d_verts d3) = length (d_verts d)).
  { rewrite V3. rewrite (vtable_len _ _ Z1), (vtable_len _ _ K1), (vtable_len _ _ S2). reflexivity. }
  assert (X3' : DWX d3 (all_he d3) (all_f d3) (fun w => w < length (d_verts d3) /\ w <> v)).
  { unfold DWX. apply (DWL_ext d3 (fun e => e < length (d_hedges d3e)) (fun e => e < length (d_hedges d3e))
                          (fun g => g < length (d_faces d3)) (LVh v d1) (LVh v d1)); try (intros; reflexivity); [| | | |exact X3].
    - intros e. unfold all_he. rewrite H3. reflexivity.
    - intros e. unfold all_he. rewrite H3. reflexivity.
    - intros w. unfold LVh. rewrite LV3, (vtable_len _ _ S2). reflexivity.
    - intros w. unfold LVh. rewrite LV3, (vtable_len _ _ S2). reflexivity. }
  exists d3. split; [exact H|]. split; [exact X3'|]. split; [exact LV3|].
  intros Cases. apply DWf_DW. apply (swap_remove_vertex_DW fuel d3 v d' r X3'); [rewrite LV3; exact Hv|rewrite LV3; exact Cases|exact H].
Qed.
Print Assumptions remove_interior_DWf_partial.

(* unconditional when the removed vertex is the last one of the table (no entry moves) *)
Theorem remove_interior_last_DWf : forall pts fuel d v a bl es d' r,
  DWf d ->
  v_out_edge d v = Some a -> border_scan fuel d a a [] = Some (bl, None) ->
  out_edges fuel d v = Some es ->
  (forall e, e < length (d_hedges d) -> e_origin d e = v -> In e es) ->
  NoDup (map (e_to d) es) ->
  S v = Raw.num_vertices d ->
  remove_vertex_full pts fuel d v = Some (d', r) ->
  DWf d'.
Proof.
  intros pts fuel d v a bl es d' r Wf Va B OE Cov NDn Last H.
  destruct (remove_interior_DWf_partial pts fuel d v a bl es d' r Wf Va B OE Cov NDn H) as (d3 & _ & _ & _ & Q).
  apply Q. left. exact Last.
Qed.
Print Assumptions remove_interior_last_DWf.

(* Without a hypothesis on the LAST vertex the statement is false: DWf has no vertex-orbit clause.  The dcel below consists of a
   triangle 1-2-3 with the interior vertex 0 of degree 3 (component A: faces 0..3) and of two "pillows" (two triangles glued along
   all three edges) 8-4-5 and 8-6-7 that share only vertex 8 (component B: faces 4..7); all link-level clauses hold.  The out-edges
   of vertex 8, the last vertex, fall into two counterclockwise orbits.  Removing vertex 0 moves vertex 8 into slot 0;
   swap_remove_vertex renames the origins of the orbit of its out_edge only, the two other half-edges keep the origin 8, which is no
   longer a vertex. *)
Definition remove_interior_cex : dcel :=
  mkdcel [mkv 0 0 0 (Some 0); mkv 0 0 1 (Some 6); mkv 0 0 2 (Some 8); mkv 0 0 3 (Some 10); mkv 0 0 4 (Some 14); mkv 0 0 5 (Some 16); mkv 0 0 6 (Some 20); mkv 0 0 7 (Some 22); mkv 0 0 8 (Some 12)]
         [mkh 6 3 1 0; mkh 4 10 3 1; mkh 8 5 2 0; mkh 0 6 1 2; mkh 10 1 3 0; mkh 2 8 2 3; mkh 3 0 1 1; mkh 11 9 0 2; mkh 5 2 2 2; mkh 7 11 0 3; mkh 1 4 3 3; mkh 9 7 0 1; mkh 14 16 4 8; mkh 17 15 5 4; mkh 16 12 4 4; mkh 13 17 5 5; mkh 12 14 4 5; mkh 15 13 5 8; mkh 20 22 6 8; mkh 23 21 7 6; mkh 22 18 6 6; mkh 19 23 7 7; mkh 18 20 6 7; mkh 21 19 7 8]
         [Some 7; Some 0; Some 2; Some 4; Some 12; Some 17; Some 18; Some 23]
         [false; false; false; false; false; false; false; false; false; false; false; false].

Theorem remove_interior_DWf_counterexample :
  exists d v a bl es d' r,
    DWf d /\ v_out_edge d v = Some a /\ border_scan 50 d a a [] = Some (bl, None) /\
    out_edges 50 d v = Some es /\
    (forall e, e < length (d_hedges d) -> e_origin d e = v -> In e es) /\
    NoDup (map (e_to d) es) /\ 3 <= length es /\
    remove_vertex_full [] 50 d v = Some (d', r) /\ ~ DWf d'.
Proof.
  exists remove_interior_cex, 0, 0, [6; 8; 10], [0; 2; 4].
  destruct (remove_vertex_full [] 50 remove_interior_cex 0) as [[d' r]|] eqn:E; [|vm_compute in E; discriminate].
  exists d', r. split; [|split; [|split; [|split; [|split; [|split; [|split; [|split]]]]]]].
  - apply wfcore_b_spec. vm_compute. reflexivity.
  - reflexivity.
  - vm_compute. reflexivity.
  - vm_compute. reflexivity.
  - intros e He Oe.
    assert (B : forallb (fun e => negb (e_origin remove_interior_cex e =? 0) || memb e [0; 2; 4]) (seq 0 24) = true) by (vm_compute; reflexivity).
    rewrite forallb_forall in B. specialize (B e). rewrite in_seq in B.
    assert (R : 0 <= e < 0 + 24) by (cbn [length remove_interior_cex d_hedges] in He; lia).
    apply B in R. rewrite Oe in R. cbn [Nat.eqb negb orb] in R. apply memb_In. exact R.
  - vm_compute. repeat constructor; cbn; intuition discriminate.
  - cbn. lia.
  - reflexivity.
  - intro H. apply wfcore_b_spec in H. vm_compute in E. inversion E; subst d'. vm_compute in H. discriminate.
Qed.
Print Assumptions remove_interior_DWf_counterexample.
