(* Vmap/Model.v -- the vertex-array layer of a triangulation: push / overwrite / swap_remove, as a
   model of how `insert` and `remove` treat vertex indices and payloads (C05). Definitions only. *)
From Coq Require Import ZArith List Bool Arith.
From SpadeV Require Import Num.Decode.
Import ListNotations.

Definition key := (dy * dy)%type.                 (* exact position: two canonical dyadics *)
Definition key_eqb (a b : key) : bool := dy_eqb (fst a) (fst b) && dy_eqb (snd a) (snd b).
Definition vstate := list (key * Z).              (* index order; payload *)

Fixpoint find_key (k : key) (st : vstate) : option nat :=
  match st with
  | [] => None
  | (k', _) :: t => if key_eqb k k' then Some 0 else option_map S (find_key k t)
  end.

Fixpoint set_nth {A} (i : nat) (x : A) (l : list A) : list A :=
  match l, i with
  | [], _ => []
  | _ :: t, O => x :: t
  | h :: t, S i' => h :: set_nth i' x t
  end.

(* insert: overwrite in place when the position exists, else push at the end; returns the index *)
Definition vm_insert (st : vstate) (k : key) (d : Z) : vstate * nat :=
  match find_key k st with
  | Some i => (set_nth i (k, d) st, i)
  | None => (st ++ [(k, d)], length st)
  end.

(* remove index i: the last element moves into slot i (Vec::swap_remove) *)
Definition vm_remove (st : vstate) (i : nat) : option (vstate * (key * Z)) :=
  match nth_error st i with
  | None => None
  | Some x =>
      let n := length st in
      let lst := nth (n - 1) st x in
      let st' := removelast st in
      Some ((if i =? n - 1 then st' else set_nth i lst st'), x)
  end.

(* the map a vertex state denotes: first binding wins (bindings are unique in reachable states) *)
Definition vm_lookup (st : vstate) (k : key) : option Z :=
  match find_key k st with Some i => option_map snd (nth_error st i) | None => None end.
