(* Vmap/Proofs.v -- the vertex-array layer (push / overwrite / swap_remove) refines a finite map
   from exact positions to payloads, and keeps positions unique in every reachable state (C05). *)
From Coq Require Import ZArith List Bool Arith Lia.
From SpadeV Require Import Num.Decode Vmap.Model.
Import ListNotations.

(* ------------------------------------------------------------------------------------------ *)
(* key equality                                                                                *)
(* ------------------------------------------------------------------------------------------ *)

Lemma dy_eqb_eq : forall a b : dy, dy_eqb a b = true <-> a = b.
Proof.
  intros [a1 a2] [b1 b2]. unfold dy_eqb. cbn [fst snd].
  rewrite andb_true_iff, !Z.eqb_eq. split.
  - intros [H1 H2]. subst. reflexivity.
  - intros H. injection H as H1 H2. subst. split; reflexivity.
Qed.

Theorem key_eqb_eq : forall a b, key_eqb a b = true <-> a = b.
Proof.
  intros [a1 a2] [b1 b2]. unfold key_eqb. cbn [fst snd].
  rewrite andb_true_iff, !dy_eqb_eq. split.
  - intros [H1 H2]. subst. reflexivity.
  - intros H. injection H as H1 H2. subst. split; reflexivity.
Qed.

Lemma key_eqb_refl : forall k, key_eqb k k = true.
Proof. intros k. apply key_eqb_eq. reflexivity. Qed.

Lemma key_eqb_neq : forall a b, key_eqb a b = false <-> a <> b.
Proof.
  intros a b. split.
  - intros H E. subst. rewrite key_eqb_refl in H. discriminate.
  - intros H. destruct (key_eqb a b) eqn:E; [|reflexivity].
    apply key_eqb_eq in E. contradiction.
Qed.

Definition Unique (st : vstate) : Prop := NoDup (map fst st).

(* ------------------------------------------------------------------------------------------ *)
(* find_key                                                                                    *)
(* ------------------------------------------------------------------------------------------ *)

Lemma find_key_cons : forall k k' d t,
  find_key k ((k', d) :: t) = if key_eqb k k' then Some 0 else option_map S (find_key k t).
Proof. reflexivity. Qed.

Lemma find_key_some : forall k st i, find_key k st = Some i ->
  (exists d, nth_error st i = Some (k, d)) /\
  (forall j x, j < i -> nth_error st j = Some x -> fst x <> k).
Proof.
  intros k st. induction st as [|[k' d'] t IH]; intros i H.
  - discriminate.
  - rewrite find_key_cons in H. destruct (key_eqb k k') eqn:E.
    + injection H as <-. apply key_eqb_eq in E. subst k'. split.
      * exists d'. reflexivity.
      * intros j x Hj. lia.
    + destruct (find_key k t) as [i'|] eqn:F; cbn [option_map] in H; [|discriminate].
      injection H as <-. destruct (IH i' eq_refl) as [[d Hd] Hf]. split.
      * exists d. exact Hd.
      * intros j x Hj Hx. destruct j as [|j].
        -- cbn [nth_error] in Hx. injection Hx as <-. cbn [fst]. intros ->.
           rewrite key_eqb_refl in E. discriminate.
        -- cbn [nth_error] in Hx. apply (Hf j x); [lia|exact Hx].
Qed.

Lemma find_key_intro : forall k st i d, nth_error st i = Some (k, d) ->
  (forall j x, j < i -> nth_error st j = Some x -> fst x <> k) ->
  find_key k st = Some i.
Proof.
  intros k st. induction st as [|[k' d'] t IH]; intros i d H Hf.
  - destruct i; discriminate.
  - rewrite find_key_cons. destruct i as [|i].
    + cbn [nth_error] in H. injection H as -> _. rewrite key_eqb_refl. reflexivity.
    + cbn [nth_error] in H.
      assert (E : key_eqb k k' = false).
      { apply key_eqb_neq. intros ->. apply (Hf 0 (k', d')); [lia|reflexivity|reflexivity]. }
      rewrite E. rewrite (IH i d H).
      * reflexivity.
      * intros j x Hj Hx. apply (Hf (S j) x); [lia|exact Hx].
Qed.

Theorem find_key_none : forall k st, find_key k st = None <-> ~ In k (map fst st).
Proof.
  intros k st. induction st as [|[k' d'] t IH].
  - cbn. split; [intros _ []|reflexivity].
  - rewrite find_key_cons. cbn [map fst In]. destruct (key_eqb k k') eqn:E.
    + apply key_eqb_eq in E. subst. split; [discriminate|].
      intros H. exfalso. apply H. left. reflexivity.
    + apply key_eqb_neq in E. destruct (find_key k t) as [n|] eqn:F; cbn [option_map].
      * split; [discriminate|]. intros H.
        assert (X : Some n = None) by (apply IH; tauto). discriminate.
      * assert (Hn : ~ In k (map fst t)) by (apply IH; reflexivity).
        split; [|reflexivity]. intros _ [Hk|Hin]; [subst; apply E; reflexivity|contradiction].
Qed.

(* characterisation through nth_error *)
Theorem find_key_spec_nth_error : forall k st i,
  find_key k st = Some i <->
  ((exists d, nth_error st i = Some (k, d)) /\
   (forall j x, j < i -> nth_error st j = Some x -> fst x <> k)).
Proof.
  intros k st i. split.
  - apply find_key_some.
  - intros [[d Hd] Hf]. apply (find_key_intro k st i d Hd Hf).
Qed.

(* characterisation through nth, as stated *)
Theorem find_key_spec : forall k st i,
  find_key k st = Some i <->
  (i < length st /\ fst (nth i st (k, 0%Z)) = k /\
   forall j, j < i -> fst (nth j st (k, 0%Z)) <> k).
Proof.
  intros k st i. split.
  - intros H. destruct (find_key_some k st i H) as [[d Hd] Hf].
    assert (Hi : i < length st) by (apply nth_error_Some; rewrite Hd; discriminate).
    split; [exact Hi|]. split.
    + rewrite (nth_error_nth st i (k, 0%Z) Hd). reflexivity.
    + intros j Hj. apply (Hf j); [exact Hj|]. apply nth_error_nth'. lia.
  - intros [Hi [Hk Hf]].
    apply (find_key_intro k st i (snd (nth i st (k, 0%Z)))).
    + rewrite (nth_error_nth' st (k, 0%Z) Hi). f_equal.
      destruct (nth i st (k, 0%Z)) as [a b]. cbn [fst snd] in *. subst. reflexivity.
    + intros j x Hj Hx. rewrite <- (nth_error_nth st j (k, 0%Z) Hx). apply Hf. exact Hj.
Qed.

Lemma find_key_lt : forall k st i, find_key k st = Some i -> i < length st.
Proof. intros k st i H. apply find_key_spec in H. tauto. Qed.

Lemma find_key_app : forall k' st k d,
  find_key k' (st ++ [(k, d)]) =
  match find_key k' st with
  | Some i => Some i
  | None => if key_eqb k' k then Some (length st) else None
  end.
Proof.
  intros k' st k d. induction st as [|[k0 d0] t IH].
  - cbn [app find_key length]. destruct (key_eqb k' k); reflexivity.
  - cbn [app]. rewrite !find_key_cons. destruct (key_eqb k' k0); [reflexivity|].
    rewrite IH. destruct (find_key k' t); cbn [option_map]; [reflexivity|].
    cbn [length]. destruct (key_eqb k' k); reflexivity.
Qed.

Lemma find_key_ext : forall k st1 st2, map fst st1 = map fst st2 -> find_key k st1 = find_key k st2.
Proof.
  intros k st1. induction st1 as [|[k1 d1] t1 IH]; intros [|[k2 d2] t2] H;
    cbn [map fst] in H; try discriminate; try reflexivity.
  injection H as H1 H2. subst. rewrite !find_key_cons. rewrite (IH t2 H2). reflexivity.
Qed.

(* ------------------------------------------------------------------------------------------ *)
(* set_nth, removelast                                                                         *)
(* ------------------------------------------------------------------------------------------ *)

Lemma set_nth_length : forall A i (x : A) l, length (set_nth i x l) = length l.
Proof.
  intros A i x l. revert i. induction l as [|h t IH]; intros [|i]; cbn [set_nth length];
    try reflexivity. f_equal. apply IH.
Qed.

Lemma nth_error_set_nth_eq : forall A i (x : A) l,
  i < length l -> nth_error (set_nth i x l) i = Some x.
Proof.
  intros A i x l. revert i. induction l as [|h t IH]; intros [|i] H; cbn [length] in H;
    cbn [set_nth nth_error]; try lia; try reflexivity.
  apply IH. lia.
Qed.

Lemma nth_error_set_nth_neq : forall A i j (x : A) l,
  j <> i -> nth_error (set_nth i x l) j = nth_error l j.
Proof.
  intros A i j x l. revert i j. induction l as [|h t IH]; intros [|i] [|j] H;
    cbn [set_nth nth_error]; try reflexivity; try contradiction.
  apply IH. lia.
Qed.

Lemma map_fst_set_nth : forall (st : vstate) i k d0 d,
  nth_error st i = Some (k, d0) -> map fst (set_nth i (k, d) st) = map fst st.
Proof.
  intros st. induction st as [|h t IH]; intros [|i] k d0 d H; cbn [nth_error] in H;
    try discriminate.
  - injection H as ->. reflexivity.
  - cbn [set_nth map]. f_equal. apply (IH i k d0 d H).
Qed.

Lemma removelast_len : forall A (l : list A), length (removelast l) = length l - 1.
Proof.
  intros A l. induction l as [|a t IH]; [reflexivity|].
  destruct t as [|b t]; [reflexivity|].
  change (removelast (a :: b :: t)) with (a :: removelast (b :: t)).
  cbn [length] in *. rewrite IH. lia.
Qed.

Lemma nth_error_removelast : forall A (l : list A) j,
  j < length l - 1 -> nth_error (removelast l) j = nth_error l j.
Proof.
  intros A l. induction l as [|a t IH]; intros j Hj.
  - cbn [length] in Hj. lia.
  - destruct t as [|b t]; [cbn [length] in Hj; lia|].
    change (removelast (a :: b :: t)) with (a :: removelast (b :: t)).
    destruct j as [|j]; [reflexivity|]. cbn [nth_error]. apply IH.
    cbn [length] in *. lia.
Qed.

(* ------------------------------------------------------------------------------------------ *)
(* INSERT                                                                                      *)
(* ------------------------------------------------------------------------------------------ *)

Theorem vm_insert_fresh : forall st k d, find_key k st = None ->
     vm_insert st k d = (st ++ [(k, d)], length st)
  /\ (forall i, i < length st -> nth_error (fst (vm_insert st k d)) i = nth_error st i)
  /\ length (fst (vm_insert st k d)) = S (length st).
Proof.
  intros st k d F. unfold vm_insert. rewrite F. cbn [fst]. split; [reflexivity|]. split.
  - intros i Hi. apply nth_error_app1. exact Hi.
  - rewrite app_length. cbn [length]. lia.
Qed.

Theorem vm_insert_existing : forall st k d i, find_key k st = Some i ->
     snd (vm_insert st k d) = i
  /\ nth_error (fst (vm_insert st k d)) i = Some (k, d)
  /\ (forall j, j <> i -> nth_error (fst (vm_insert st k d)) j = nth_error st j)
  /\ length (fst (vm_insert st k d)) = length st.
Proof.
  intros st k d i F. unfold vm_insert. rewrite F. cbn [fst snd].
  split; [reflexivity|]. split; [|split].
  - apply nth_error_set_nth_eq. apply (find_key_lt k st i F).
  - intros j Hj. apply nth_error_set_nth_neq. exact Hj.
  - apply set_nth_length.
Qed.

(* ------------------------------------------------------------------------------------------ *)
(* REMOVE                                                                                      *)
(* ------------------------------------------------------------------------------------------ *)

Theorem vm_remove_spec : forall st i x, nth_error st i = Some x ->
     exists st', vm_remove st i = Some (st', x)
  /\ length st' = length st - 1
  /\ (forall j, j < length st - 1 -> j <> i -> nth_error st' j = nth_error st j)
  /\ (i < length st - 1 -> nth_error st' i = nth_error st (length st - 1)).
Proof.
  intros st i x H. unfold vm_remove. rewrite H. cbv zeta.
  assert (Hi : i < length st) by (apply nth_error_Some; rewrite H; discriminate).
  assert (Hlast : nth_error st (length st - 1) = Some (nth (length st - 1) st x))
    by (apply nth_error_nth'; lia).
  eexists. split; [reflexivity|].
  destruct (i =? length st - 1) eqn:E.
  - apply Nat.eqb_eq in E. split; [apply removelast_len|]. split.
    + intros j Hj _. apply nth_error_removelast. exact Hj.
    + intros Hlt. lia.
  - apply Nat.eqb_neq in E. split; [|split].
    + rewrite set_nth_length. apply removelast_len.
    + intros j Hj Hji. rewrite nth_error_set_nth_neq by exact Hji.
      apply nth_error_removelast. exact Hj.
    + intros Hlt. rewrite Hlast. apply nth_error_set_nth_eq.
      rewrite removelast_len. exact Hlt.
Qed.

Theorem vm_remove_none : forall st i, nth_error st i = None -> vm_remove st i = None.
Proof. intros st i H. unfold vm_remove. rewrite H. reflexivity. Qed.

Lemma vm_remove_inv : forall st i st' x, vm_remove st i = Some (st', x) -> nth_error st i = Some x.
Proof.
  intros st i st' x H. unfold vm_remove in H. destruct (nth_error st i) as [y|]; [|discriminate].
  cbv zeta in H. injection H as _ Hx. subst. reflexivity.
Qed.

(* vm_remove_spec, with the result state named *)
Lemma vm_remove_spec' : forall st i st' x, vm_remove st i = Some (st', x) ->
     nth_error st i = Some x
  /\ length st' = length st - 1
  /\ (forall j, j < length st - 1 -> j <> i -> nth_error st' j = nth_error st j)
  /\ (i < length st - 1 -> nth_error st' i = nth_error st (length st - 1)).
Proof.
  intros st i st' x Hr. pose proof (vm_remove_inv st i st' x Hr) as Hn.
  destruct (vm_remove_spec st i x Hn) as [st'' [Hr' Hrest]].
  rewrite Hr in Hr'. injection Hr' as Heq. subst st''. split; [exact Hn|exact Hrest].
Qed.

(* the elements of the state after a removal are exactly the elements at the other indices *)
Lemma remove_nth_iff : forall st i st' x, vm_remove st i = Some (st', x) ->
  forall y, (exists j, nth_error st' j = Some y) <-> (exists j, j <> i /\ nth_error st j = Some y).
Proof.
  intros st i st' x Hr y.
  destruct (vm_remove_spec' st i st' x Hr) as [Hn [Hlen [Hoth Hmov]]].
  assert (Hi : i < length st) by (apply nth_error_Some; rewrite Hn; discriminate).
  split.
  - intros [j Hj].
    assert (Hjl : j < length st') by (apply nth_error_Some; rewrite Hj; discriminate).
    rewrite Hlen in Hjl. destruct (Nat.eq_dec j i) as [->|Hji].
    + exists (length st - 1). split; [lia|]. rewrite <- Hmov by exact Hjl. exact Hj.
    + exists j. split; [exact Hji|]. rewrite <- Hoth by assumption. exact Hj.
  - intros [j [Hji Hj]].
    assert (Hjl : j < length st) by (apply nth_error_Some; rewrite Hj; discriminate).
    destruct (Nat.eq_dec j (length st - 1)) as [->|Hjn].
    + exists i. rewrite Hmov by lia. exact Hj.
    + exists j. rewrite Hoth by lia. exact Hj.
Qed.

(* ------------------------------------------------------------------------------------------ *)
(* INVARIANT: positions stay unique                                                            *)
(* ------------------------------------------------------------------------------------------ *)

Lemma Unique_nth : forall st,
  Unique st <->
  (forall i j, i < length st ->
     option_map fst (nth_error st i) = option_map fst (nth_error st j) -> i = j).
Proof.
  intros st. unfold Unique. rewrite NoDup_nth_error. rewrite map_length. split.
  - intros H i j Hi Hij. apply H; [exact Hi|]. rewrite !nth_error_map. exact Hij.
  - intros H i j Hi Hij. apply H; [exact Hi|]. rewrite <- !nth_error_map. exact Hij.
Qed.

Lemma unique_key_index : forall st i j k d d', Unique st ->
  nth_error st i = Some (k, d) -> nth_error st j = Some (k, d') -> i = j.
Proof.
  intros st i j k d d' U Hi Hj. apply (proj1 (Unique_nth st) U).
  - apply nth_error_Some. rewrite Hi. discriminate.
  - rewrite Hi, Hj. reflexivity.
Qed.

Lemma NoDup_snoc : forall A (l : list A) a, NoDup l -> ~ In a l -> NoDup (l ++ [a]).
Proof.
  intros A l. induction l as [|h t IH]; intros b Hnd Hin; cbn [app].
  - constructor; [intros []|constructor].
  - inversion Hnd as [|h' t' Hh Ht]; subst. constructor.
    + rewrite in_app_iff. intros [H|[H|[]]]; [contradiction|].
      subst. apply Hin. left. reflexivity.
    + apply IH; [exact Ht|]. intros H. apply Hin. right. exact H.
Qed.

Theorem unique_insert : forall st k d, Unique st -> Unique (fst (vm_insert st k d)).
Proof.
  intros st k d U. unfold vm_insert. destruct (find_key k st) as [i|] eqn:F; cbn [fst].
  - destruct (find_key_some k st i F) as [[d0 Hd0] _].
    unfold Unique. rewrite (map_fst_set_nth st i k d0 d Hd0). exact U.
  - unfold Unique. rewrite map_app. cbn [map fst]. apply NoDup_snoc; [exact U|].
    apply find_key_none. exact F.
Qed.

Theorem unique_remove : forall st i st' x,
  Unique st -> vm_remove st i = Some (st', x) -> Unique st'.
Proof.
  intros st i st' x U Hr.
  destruct (vm_remove_spec' st i st' x Hr) as [Hn [Hlen [Hoth Hmov]]].
  assert (Hi : i < length st) by (apply nth_error_Some; rewrite Hn; discriminate).
  pose proof (proj1 (Unique_nth st) U) as Un.
  assert (P : forall j, j < length st - 1 ->
            nth_error st' j = nth_error st (if j =? i then length st - 1 else j)).
  { intros j Hj. destruct (j =? i) eqn:E.
    - apply Nat.eqb_eq in E. subst j. apply Hmov. exact Hj.
    - apply Nat.eqb_neq in E. apply Hoth; assumption. }
  apply Unique_nth. intros a b Ha Hab. rewrite Hlen in Ha.
  assert (Hb : b < length st - 1).
  { destruct (lt_dec b (length st - 1)) as [Hb|Hb]; [exact Hb|exfalso].
    assert (Hbn : nth_error st' b = None) by (apply nth_error_None; lia).
    rewrite Hbn in Hab. cbn [option_map] in Hab.
    destruct (nth_error st' a) as [y|] eqn:Ea.
    - discriminate.
    - apply nth_error_None in Ea. lia. }
  rewrite (P a Ha), (P b Hb) in Hab.
  apply Un in Hab.
  - destruct (Nat.eqb_spec a i) as [Ea|Ea]; destruct (Nat.eqb_spec b i) as [Eb|Eb]; lia.
  - destruct (a =? i); lia.
Qed.

Inductive vop := VIns (k : key) (d : Z) | VRem (i : nat).

Definition vstep (st : vstate) (o : vop) : vstate :=
  match o with
  | VIns k d => fst (vm_insert st k d)
  | VRem i => match vm_remove st i with Some (st', _) => st' | None => st end
  end.

Lemma unique_step : forall st o, Unique st -> Unique (vstep st o).
Proof.
  intros st [k d|i] U; unfold vstep.
  - apply unique_insert. exact U.
  - destruct (vm_remove st i) as [[st' x]|] eqn:Hr; [|exact U].
    apply (unique_remove st i st' x U Hr).
Qed.

Lemma unique_fold : forall ops st, Unique st -> Unique (fold_left vstep ops st).
Proof.
  intros ops. induction ops as [|o ops IH]; intros st U; cbn [fold_left].
  - exact U.
  - apply IH. apply unique_step. exact U.
Qed.

Theorem unique_reachable : forall ops, Unique (fold_left vstep ops []).
Proof. intros ops. apply unique_fold. unfold Unique. cbn [map]. constructor. Qed.

(* ------------------------------------------------------------------------------------------ *)
(* REFINEMENT to the abstract map                                                              *)
(* ------------------------------------------------------------------------------------------ *)

Definition m_insert (m : key -> option Z) k d := fun k' => if key_eqb k' k then Some d else m k'.
Definition m_remove (m : key -> option Z) k := fun k' => if key_eqb k' k then None else m k'.

Theorem lookup_nth : forall st i k d, Unique st -> nth_error st i = Some (k, d) ->
  vm_lookup st k = Some d /\ find_key k st = Some i.
Proof.
  intros st i k d U Hn.
  assert (F : find_key k st = Some i).
  { destruct (find_key k st) as [i'|] eqn:F.
    - destruct (find_key_some k st i' F) as [[d' Hd'] _].
      f_equal. apply (unique_key_index st i' i k d' d U Hd' Hn).
    - exfalso. apply find_key_none in F. apply F.
      change k with (fst (k, d)). apply in_map. apply (nth_error_In st i Hn). }
  split; [|exact F]. unfold vm_lookup. rewrite F, Hn. reflexivity.
Qed.

Lemma lookup_iff : forall st, Unique st ->
  forall k d, vm_lookup st k = Some d <-> exists i, nth_error st i = Some (k, d).
Proof.
  intros st U k d. split.
  - unfold vm_lookup. destruct (find_key k st) as [i|] eqn:F; [|discriminate].
    destruct (find_key_some k st i F) as [[d0 Hd0] _]. rewrite Hd0. cbn [option_map snd].
    intros H. injection H as <-. exists i. exact Hd0.
  - intros [i Hi]. apply (lookup_nth st i k d U Hi).
Qed.

Lemma option_ext : forall (a b : option Z), (forall d, a = Some d <-> b = Some d) -> a = b.
Proof.
  intros [x|] [y|] H.
  - apply (proj2 (H y)). reflexivity.
  - pose proof (proj1 (H x) eq_refl). discriminate.
  - pose proof (proj2 (H y) eq_refl). discriminate.
  - reflexivity.
Qed.

Theorem lookup_insert : forall st k d, Unique st ->
  forall k', vm_lookup (fst (vm_insert st k d)) k' = m_insert (vm_lookup st) k d k'.
Proof.
  intros st k d _ k'. unfold m_insert, vm_insert.
  destruct (find_key k st) as [i|] eqn:F; cbn [fst].
  - destruct (find_key_some k st i F) as [[d0 Hd0] _].
    pose proof (find_key_lt k st i F) as Hi.
    unfold vm_lookup.
    rewrite (find_key_ext k' _ st (map_fst_set_nth st i k d0 d Hd0)).
    destruct (key_eqb k' k) eqn:E.
    + apply key_eqb_eq in E. subst k'. rewrite F.
      rewrite nth_error_set_nth_eq by exact Hi. reflexivity.
    + destruct (find_key k' st) as [j|] eqn:G; [|reflexivity].
      rewrite nth_error_set_nth_neq; [reflexivity|].
      intros ->. destruct (find_key_some k' st i G) as [[d1 Hd1] _].
      rewrite Hd0 in Hd1. injection Hd1 as Hk Hd. subst.
      rewrite key_eqb_refl in E. discriminate.
  - unfold vm_lookup. rewrite find_key_app.
    destruct (find_key k' st) as [j|] eqn:G.
    + pose proof (find_key_lt k' st j G) as Hj.
      rewrite nth_error_app1 by exact Hj.
      destruct (key_eqb k' k) eqn:E; [|reflexivity].
      apply key_eqb_eq in E. subst. rewrite F in G. discriminate.
    + destruct (key_eqb k' k) eqn:E; [|reflexivity].
      rewrite nth_error_app2 by lia. rewrite Nat.sub_diag. reflexivity.
Qed.

Theorem lookup_remove : forall st i k d st', Unique st -> nth_error st i = Some (k, d) ->
  vm_remove st i = Some (st', (k, d)) ->
  forall k', vm_lookup st' k' = m_remove (vm_lookup st) k k'.
Proof.
  intros st i k d st' U Hn Hr k'.
  pose proof (unique_remove st i st' (k, d) U Hr) as U'.
  apply option_ext. intros d'. rewrite (lookup_iff st' U'). unfold m_remove.
  rewrite (remove_nth_iff st i st' (k, d) Hr (k', d')).
  destruct (key_eqb k' k) eqn:E.
  - apply key_eqb_eq in E. subst k'. split; [|discriminate].
    intros [j [Hji Hj]]. exfalso. apply Hji.
    apply (unique_key_index st j i k d' d U Hj Hn).
  - rewrite (lookup_iff st U). split.
    + intros [j [_ Hj]]. exists j. exact Hj.
    + intros [j Hj]. exists j. split; [|exact Hj].
      intros ->. rewrite Hn in Hj. injection Hj as Hk Hd. subst.
      rewrite key_eqb_refl in E. discriminate.
Qed.

(* ------------------------------------------------------------------------------------------ *)
(* a concrete history                                                                          *)
(* ------------------------------------------------------------------------------------------ *)

Definition kA : key := ((1, 0), (3, 1))%Z.
Definition kB : key := ((-5, 2), (0, 0))%Z.
Definition kC : key := ((7, -1), (1, 0))%Z.

(* insert three distinct positions, overwrite the second one, then remove index 0:
   the last vertex (kC) moves into slot 0, kB keeps index 1 and carries the overwritten payload *)
Example history_ex :
  let ops := [VIns kA 10%Z; VIns kB 20%Z; VIns kC 30%Z; VIns kB 25%Z; VRem 0] in
  let st := fold_left vstep ops [] in
     st = [(kC, 30%Z); (kB, 25%Z)]
  /\ vm_lookup st kA = None
  /\ vm_lookup st kB = Some 25%Z
  /\ vm_lookup st kC = Some 30%Z
  /\ find_key kC st = Some 0
  /\ snd (vm_insert [(kA, 10%Z); (kB, 20%Z); (kC, 30%Z)] kB 25%Z) = 1
  /\ snd (vm_insert [(kA, 10%Z); (kB, 20%Z)] kC 30%Z) = 2
  /\ vm_remove [(kA, 10%Z); (kB, 25%Z); (kC, 30%Z)] 0 = Some ([(kC, 30%Z); (kB, 25%Z)], (kA, 10%Z))
  /\ vm_remove st 2 = None.
Proof. vm_compute. repeat split; reflexivity. Qed.

Print Assumptions vm_insert_fresh.
Print Assumptions vm_insert_existing.
Print Assumptions vm_remove_spec.
Print Assumptions unique_reachable.
Print Assumptions lookup_insert.
Print Assumptions lookup_remove.
