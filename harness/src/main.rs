// spade-verif-harness: executes operation histories against the real spade implementation and
// prints every observable result and the complete handle graph after each mutating step.
// It takes no decisions: all judgement happens in the Coq-extracted checker.
//
// usage: spade-verif-harness <case-file> [timeout-ms]
use spade::handles::*;
use spade::*;
use std::fmt::Write as _;
use std::panic::{catch_unwind, AssertUnwindSafe};
use std::sync::{mpsc, Arc, Mutex};

mod ops;
#[cfg(spade_verif)]
mod prims;
pub use ops::*;

fn main() {
    let args: Vec<String> = std::env::args().collect();
    let text = std::fs::read_to_string(&args[1]).expect("case file");
    let timeout_ms: u64 = args.get(2).map(|s| s.parse().unwrap()).unwrap_or(4000);
    if std::env::var("VERIF_BT").is_err() {
        std::panic::set_hook(Box::new(|_| {}));
    }
    let mut cases: Vec<Vec<String>> = Vec::new();
    for line in text.lines() {
        let line = line.trim();
        if line.is_empty() || line.starts_with('#') {
            continue;
        }
        if line.starts_with("C ") {
            cases.push(vec![line.to_string()]);
        } else if let Some(c) = cases.last_mut() {
            c.push(line.to_string());
        }
    }
    let stdout = std::io::stdout();
    for case in cases {
        let buf = Arc::new(Mutex::new(String::new()));
        let (tx, rx) = mpsc::channel();
        let b2 = buf.clone();
        let c2 = case.clone();
        std::thread::Builder::new()
            .stack_size(64 << 20)
            .spawn(move || {
                run_case(&c2, &b2);
                let _ = tx.send(());
            })
            .unwrap();
        let done = rx.recv_timeout(std::time::Duration::from_millis(timeout_ms)).is_ok();
        let mut s = buf.lock().map(|g| g.clone()).unwrap_or_else(|e| e.into_inner().clone());
        if !done {
            // the worker thread keeps spinning; it is abandoned and killed at process exit
            if !s.ends_with('\n') && !s.is_empty() {
                s.push('\n');
            }
            s.push_str("R hang\nX\n");
        }
        use std::io::Write;
        let mut out = stdout.lock();
        out.write_all(s.as_bytes()).unwrap();
        out.flush().unwrap();
    }
    std::process::exit(0);
}

fn run_case(lines: &[String], buf: &Arc<Mutex<String>>) {
    let head: Vec<&str> = lines[0].split_whitespace().collect();
    // C <id> <kind> <scalar> <hint>
    let (id, kind, scalar, hint) = (head[1], head[2], head[3], head[4]);
    {
        let mut b = buf.lock().unwrap();
        let _ = writeln!(b, "C {} {} {} {}", id, kind, scalar, hint);
    }
    macro_rules! go {
        ($t:ty) => {
            run_ops::<$t>(&lines[1..], buf)
        };
    }
    macro_rules! by_hint {
        ($s:ty, $mk:ident) => {
            match hint {
                "last" => go!($mk<$s, LastUsedVertexHintGenerator>),
                "h16" => go!($mk<$s, HierarchyHintGenerator<$s>>),
                "h2" => go!($mk<$s, HierarchyHintGeneratorWithBranchFactor<$s, 2>>),
                "h3" => go!($mk<$s, HierarchyHintGeneratorWithBranchFactor<$s, 3>>),
                _ => panic!("hint"),
            }
        };
    }
    match (kind, scalar) {
        ("dt", "f64") => by_hint!(f64, Dt),
        ("dt", "f32") => by_hint!(f32, Dt),
        ("cdt", "f64") => by_hint!(f64, Cdt),
        ("cdt", "f32") => by_hint!(f32, Cdt),
        _ => panic!("kind/scalar"),
    }
    let mut b = buf.lock().unwrap();
    b.push_str("X\n");
}

pub type Dt<S, L> = DelaunayTriangulation<VD<S>, (), (), (), L>;
pub type Cdt<S, L> = ConstrainedDelaunayTriangulation<VD<S>, (), (), (), L>;

fn panic_msg(e: Box<dyn std::any::Any + Send>) -> String {
    let s = if let Some(s) = e.downcast_ref::<&str>() {
        s.to_string()
    } else if let Some(s) = e.downcast_ref::<String>() {
        s.clone()
    } else {
        "?".to_string()
    };
    s.chars().map(|c| if c.is_whitespace() { '_' } else { c }).take(160).collect()
}

fn run_ops<T: Tx>(lines: &[String], buf: &Arc<Mutex<String>>) {
    let mut t = T::default();
    for (k, line) in lines.iter().enumerate() {
        let toks: Vec<&str> = line.split_whitespace().collect();
        let mut out = String::new();
        let r = catch_unwind(AssertUnwindSafe(|| exec_op::<T>(&mut t, k, &toks, &mut out)));
        let mut b = buf.lock().unwrap();
        match r {
            Ok(()) => b.push_str(&out),
            Err(e) => {
                // keep the echoed op line if it was produced
                if let Some(pos) = out.find('\n') {
                    b.push_str(&out[..=pos]);
                } else {
                    let _ = writeln!(b, "O {} {}", k, toks.join(" "));
                }
                let msg = panic_msg(e);
                let _ = writeln!(b, "R panic {}", msg);
                // The documented panic of the add_constraint family must leave a usable structure: dump it and go on.
                // After any other panic the operation was abandoned half way: the case ends here and no state is judged.
                if msg.contains("intersect") {
                    let mut st = String::new();
                    if catch_unwind(AssertUnwindSafe(|| dump_state(&t, &mut st))).is_ok() {
                        b.push_str(&st);
                    } else {
                        b.push_str("S broken\n");
                    }
                } else {
                    return;
                }
            }
        }
    }
}
