use crate::{Cdt, Dt};
use spade::handles::*;
use spade::*;
use std::fmt::Write as _;

// ------------------------------------------------------------------ scalars and vertex type
pub trait Sc: SpadeNum + num_traits::Float + Into<f64> + std::fmt::Debug + Send + 'static {
    fn of_f64(x: f64) -> Self;
    const NAME: &'static str;
}
impl Sc for f64 {
    fn of_f64(x: f64) -> Self {
        x
    }
    const NAME: &'static str = "f64";
}
impl Sc for f32 {
    fn of_f64(x: f64) -> Self {
        x as f32
    }
    const NAME: &'static str = "f32";
}

#[derive(Clone, Copy, Debug, PartialEq)]
pub struct VD<S> {
    pub p: Point2<S>,
    pub d: u32,
}
impl<S: SpadeNum> HasPosition for VD<S> {
    type Scalar = S;
    fn position(&self) -> Point2<S> {
        self.p
    }
}
impl<S: SpadeNum> From<Point2<S>> for VD<S> {
    fn from(p: Point2<S>) -> Self {
        VD { p, d: 777_000 }
    }
}

pub fn bits<S: Sc>(x: S) -> u64 {
    let f: f64 = x.into();
    f.to_bits()
}
fn fb(tok: &str) -> f64 {
    f64::from_bits(tok.parse::<u64>().expect("hex coordinate"))
}
pub fn pt<S: Sc>(x: &str, y: &str) -> Point2<S> {
    Point2::new(S::of_f64(fb(x)), S::of_f64(fb(y)))
}
pub fn vd<S: Sc>(x: &str, y: &str, d: &str) -> VD<S> {
    VD { p: pt(x, y), d: d.parse().unwrap() }
}
fn err_name(e: InsertionError) -> &'static str {
    match e {
        InsertionError::TooSmall => "TooSmall",
        InsertionError::TooLarge => "TooLarge",
        InsertionError::NAN => "NAN",
    }
}

// ------------------------------------------------------------------ the common interface
pub trait Tx:
    Triangulation<Vertex = VD<<Self as Tx>::S>, DirectedEdge = (), Face = ()>
    + FloatTriangulation
    + Clone
    + Default
{
    type S: Sc;
    const IS_CDT: bool;
    fn flag(&self, e: FixedUndirectedEdgeHandle) -> bool;
    fn ncons(&self) -> usize;
    fn inherent_remove(&mut self, v: FixedVertexHandle) -> VD<Self::S>;
    fn load(v: Vec<VD<Self::S>>, stable: bool) -> Result<Self, InsertionError>;
    fn load_cdt(_v: Vec<VD<Self::S>>, _e: Vec<[usize; 2]>, _stable: bool) -> Option<Result<Self, InsertionError>> {
        None
    }
    fn cdt_op(&mut self, _name: &str, _a: &[&str], _out: &mut String) -> bool {
        false
    }
    fn dt_op(&self, _name: &str, _a: &[&str], _out: &mut String) -> bool {
        false
    }
    /// reference construction: add constraints given by end point positions; false if impossible
    fn ref_add_constraints(&mut self, cons: &[(Point2<Self::S>, Point2<Self::S>)]) -> bool {
        cons.is_empty()
    }
    fn constraint_positions(&self) -> Vec<(Point2<Self::S>, Point2<Self::S>)> {
        Vec::new()
    }
}

impl<S: Sc, L: HintGenerator<S> + Clone> Tx for Dt<S, L> {
    type S = S;
    const IS_CDT: bool = false;
    fn flag(&self, _: FixedUndirectedEdgeHandle) -> bool {
        false
    }
    fn ncons(&self) -> usize {
        0
    }
    fn inherent_remove(&mut self, v: FixedVertexHandle) -> VD<S> {
        Triangulation::remove(self, v)
    }
    fn load(v: Vec<VD<S>>, stable: bool) -> Result<Self, InsertionError> {
        if stable {
            Self::bulk_load_stable(v)
        } else {
            Self::bulk_load(v)
        }
    }
    fn dt_op(&self, name: &str, a: &[&str], out: &mut String) -> bool {
        match name {
            "nn" => {
                let r = self.nearest_neighbor(pt(a[0], a[1]));
                match r {
                    Some(v) => {
                        let _ = writeln!(out, "R some {}", v.fix().index());
                    }
                    None => out.push_str("R none\n"),
                }
                true
            }
            "nnw" => {
                // One NaturalNeighbor object and one result vector serve a warm-up query (on the first vertex) and then the
                // real one: "result will be cleared initially" and the internal buffers must not leak between queries.
                let nn = self.natural_neighbor();
                let mut w = Vec::new();
                if let Some(v0) = self.vertices().next() {
                    nn.get_weights(v0.position(), &mut w);
                    let _ = nn.interpolate(|_| S::of_f64(1.0), v0.position());
                }
                let q = pt(a[0], a[1]);
                nn.get_weights(q, &mut w);
                let _ = write!(out, "R {}", w.len());
                for (v, x) in w {
                    let _ = write!(out, " {} {}", v.index(), bits(x));
                }
                // trailer: interpolate and interpolate_gradient of the constant 1 on the same object
                let i1 = nn.interpolate(|_| S::of_f64(1.0), q);
                let i2 = nn.interpolate_gradient(|_| S::of_f64(1.0), |_| [S::of_f64(0.0), S::of_f64(0.0)], S::of_f64(1.0), q);
                match i1 {
                    Some(x) => {
                        let _ = write!(out, " 1 {}", bits(x));
                    }
                    None => out.push_str(" 0 0"),
                }
                // the value of the gradient variant is not judged (only whether there is one): 2 = Some
                out.push_str(if i2.is_some() { " 2 0" } else { " 0 0" });
                out.push('\n');
                true
            }
            "vor" => {
                dump_voronoi(self, out);
                true
            }
            _ => false,
        }
    }
}

fn vsel<T: Triangulation>(t: &T, tok: &str) -> Option<FixedVertexHandle> {
    // "vK": K modulo num_vertices; "VK": raw index
    let k: usize = tok[1..].parse().unwrap();
    if tok.starts_with('V') {
        return Some(FixedVertexHandle::from_index(k));
    }
    let n = t.num_vertices();
    if n == 0 {
        None
    } else {
        Some(FixedVertexHandle::from_index(k % n))
    }
}

impl<S: Sc, L: HintGenerator<S> + Clone> Tx for Cdt<S, L> {
    type S = S;
    const IS_CDT: bool = true;
    fn flag(&self, e: FixedUndirectedEdgeHandle) -> bool {
        self.is_constraint_edge(e)
    }
    fn ncons(&self) -> usize {
        self.num_constraints()
    }
    fn inherent_remove(&mut self, v: FixedVertexHandle) -> VD<S> {
        ConstrainedDelaunayTriangulation::remove(self, v)
    }
    fn load(v: Vec<VD<S>>, stable: bool) -> Result<Self, InsertionError> {
        if stable {
            Self::bulk_load_cdt_stable(v, Vec::new())
        } else {
            <Self as Triangulation>::bulk_load(v)
        }
    }
    fn load_cdt(v: Vec<VD<S>>, e: Vec<[usize; 2]>, stable: bool) -> Option<Result<Self, InsertionError>> {
        Some(if stable { Self::bulk_load_cdt_stable(v, e) } else { Self::bulk_load_cdt(v, e) })
    }
    fn ref_add_constraints(&mut self, cons: &[(Point2<S>, Point2<S>)]) -> bool {
        for (p, q) in cons {
            let a = self.vertices().find(|v| v.position() == *p).map(|v| v.fix());
            let b = self.vertices().find(|v| v.position() == *q).map(|v| v.fix());
            match (a, b) {
                (Some(a), Some(b)) => {
                    if a != b {
                        if !self.can_add_constraint(a, b) {
                            return false;
                        }
                        self.add_constraint(a, b);
                    }
                }
                _ => return false,
            }
        }
        true
    }
    fn constraint_positions(&self) -> Vec<(Point2<S>, Point2<S>)> {
        self.undirected_edges().filter(|e| e.is_constraint_edge()).map(|e| { let [a, b] = e.positions(); (a, b) }).collect()
    }
    fn cdt_op(&mut self, name: &str, a: &[&str], out: &mut String) -> bool {
        let two = |t: &Self, out: &mut String| -> Option<(FixedVertexHandle, FixedVertexHandle)> {
            let x = vsel(t, a[0])?;
            let y = vsel(t, a[1])?;
            let _ = write!(out, " V{} V{}", x.index(), y.index());
            Some((x, y))
        };
        match name {
            "addc" | "tryc" | "canc" | "exc" | "split" | "confv" => {
                let sel = two(self, out);
                out.push('\n');
                let (x, y) = match sel {
                    Some(p) => p,
                    None => {
                        out.push_str("R skip\n");
                        return true;
                    }
                };
                match name {
                    "addc" => {
                        let r = self.add_constraint(x, y);
                        let _ = writeln!(out, "R {}", r as u8);
                    }
                    "tryc" | "split" => {
                        let r = if name == "tryc" {
                            self.try_add_constraint(x, y)
                        } else {
                            self.add_constraint_and_split(x, y, |p| VD { p, d: 888_000 })
                        };
                        let _ = write!(out, "R {}", r.len());
                        for e in r {
                            let _ = write!(out, " {}", e.index());
                        }
                        out.push('\n');
                    }
                    "canc" => {
                        let _ = writeln!(out, "R {}", self.can_add_constraint(x, y) as u8);
                    }
                    "exc" => {
                        let _ = writeln!(out, "R {}", self.exists_constraint(x, y) as u8);
                    }
                    "confv" => {
                        let r: Vec<usize> =
                            self.get_conflicting_edges_between_vertices(x, y).map(|e| e.fix().index()).collect();
                        let _ = write!(out, "R {}", r.len());
                        for e in r {
                            let _ = write!(out, " {}", e);
                        }
                        out.push('\n');
                    }
                    _ => unreachable!(),
                }
                true
            }
            "adde" => {
                let _ = writeln!(out, " {}", a.join(" "));
                let r = self.add_constraint_edge(vd(a[0], a[1], a[2]), vd(a[3], a[4], a[5]));
                match r {
                    Ok(b) => {
                        let _ = writeln!(out, "R ok {}", b as u8);
                    }
                    Err(e) => {
                        let _ = writeln!(out, "R err {}", err_name(e));
                    }
                }
                true
            }
            "addes" => {
                let _ = writeln!(out, " {}", a.join(" "));
                let n: usize = a[0].parse().unwrap();
                let closed = a[1] == "1";
                let vs: Vec<VD<S>> = (0..n).map(|i| vd(a[2 + 3 * i], a[3 + 3 * i], a[4 + 3 * i])).collect();
                match self.add_constraint_edges(vs, closed) {
                    Ok(()) => out.push_str("R ok\n"),
                    Err(e) => {
                        let _ = writeln!(out, "R err {}", err_name(e));
                    }
                }
                true
            }
            "rmc" => {
                let n = self.num_undirected_edges();
                if n == 0 {
                    out.push_str(" -\nR skip\n");
                    return true;
                }
                let k: usize = a[0][1..].parse::<usize>().unwrap() % n;
                let _ = writeln!(out, " E{}", k);
                let r = self.remove_constraint_edge(self.fixed_undirected_edges().nth(k).unwrap());
                let _ = writeln!(out, "R {}", r as u8);
                true
            }
            "isc" | "confp" => {
                let _ = writeln!(out, " {}", a.join(" "));
                let (p, q) = (pt(a[0], a[1]), pt(a[2], a[3]));
                if name == "isc" {
                    let _ = writeln!(out, "R {}", self.intersects_constraint(p, q) as u8);
                } else {
                    let r: Vec<usize> =
                        self.get_conflicting_edges_between_points(p, q).map(|e| e.fix().index()).collect();
                    let _ = write!(out, "R {}", r.len());
                    for e in r {
                        let _ = write!(out, " {}", e);
                    }
                    out.push('\n');
                }
                true
            }
            "refine" => {
                // refine <ratio-bits|-> <min-area-bits|-> <max-area-bits|-> <max-verts|-> <keep 0/1> <excl 0/1>
                let _ = writeln!(out, " {}", a.join(" "));
                let mut p = RefinementParameters::<S>::new();
                if a[0] != "-" {
                    p = p.with_angle_limit(AngleLimit::from_radius_to_shortest_edge_ratio(fb(a[0])));
                }
                if a[1] != "-" {
                    p = p.with_min_required_area(S::of_f64(fb(a[1])));
                }
                if a[2] != "-" {
                    p = p.with_max_allowed_area(S::of_f64(fb(a[2])));
                }
                if a[3] != "-" {
                    p = p.with_max_additional_vertices(a[3].parse().unwrap());
                }
                if a[4] == "1" {
                    p = p.keep_constraint_edges();
                }
                p = p.exclude_outer_faces(a[5] == "1");
                let r = self.refine(p);
                let _ = write!(out, "R {} {}", r.refinement_complete as u8, r.excluded_faces.len());
                let mut ex: Vec<usize> = r.excluded_faces.iter().map(|f| f.index()).collect();
                ex.sort();
                for f in ex {
                    let _ = write!(out, " {}", f);
                }
                out.push('\n');
                true
            }
            _ => false,
        }
    }
}

fn dump_voronoi<T: Tx>(t: &T, out: &mut String) {
    // per directed voronoi edge: from-face to-face (face index, 0 = outer) direction vector bits,
    // dual face index (as_delaunay_vertex), next, prev, rev
    let _ = write!(out, "R vor {}", t.num_directed_edges());
    for e in t.directed_voronoi_edges() {
        let f = |v: VoronoiVertex<_, _, _, _>| match v {
            VoronoiVertex::Inner(face) => face.fix().index() as i64,
            VoronoiVertex::Outer(_) => -1,
        };
        let d = e.direction_vector();
        let _ = write!(
            out,
            " {} {} {} {} {} {} {} {} {}",
            e.as_delaunay_edge().fix().index(),
            f(e.from()),
            f(e.to()),
            bits(d.x),
            bits(d.y),
            e.face().as_delaunay_vertex().fix().index(),
            e.next().as_delaunay_edge().fix().index(),
            e.prev().as_delaunay_edge().fix().index(),
            e.rev().as_delaunay_edge().fix().index()
        );
    }
    // per inner face: circumcenter bits
    let _ = write!(out, " cc {}", t.num_inner_faces());
    for f in t.inner_faces() {
        let c = f.circumcenter();
        let _ = write!(out, " {} {} {}", f.fix().index(), bits(c.x), bits(c.y));
    }
    // per voronoi face: adjacent edges sequence
    let _ = write!(out, " vf {}", t.num_vertices());
    for vf in t.voronoi_faces() {
        let es: Vec<usize> = vf.adjacent_edges().map(|e| e.as_delaunay_edge().fix().index()).collect();
        let _ = write!(out, " {} {}", vf.as_delaunay_vertex().fix().index(), es.len());
        for e in es {
            let _ = write!(out, " {}", e);
        }
    }
    out.push('\n');
}


// ------------------------------------------------------------------ incremental reference (C10, C11)
/// Builds a fresh triangulation by inserting `verts` one by one (and adding `cons` as constraints, by position)
/// and prints its edge set and constraint set mapped to the vertex indices of `t` (matching by position):
/// `Q <n_edges> (u v)* <n_constraints> (u v)*`; `Q -1` if the reference could not be built.
pub fn reference_line<T: Tx>(t: &T, verts: &[VD<T::S>], cons: &[(Point2<T::S>, Point2<T::S>)], out: &mut String) {
    let r = std::panic::catch_unwind(std::panic::AssertUnwindSafe(|| {
        let mut rt = T::default();
        for v in verts {
            if rt.insert(*v).is_err() {
                return None;
            }
        }
        if !rt.ref_add_constraints(cons) {
            return None;
        }
        let idx = |p: Point2<T::S>| -> Option<usize> {
            t.vertices().find(|v| v.position() == p).map(|v| v.fix().index())
        };
        let mut es = Vec::new();
        let mut cs = Vec::new();
        for e in rt.undirected_edges() {
            let [a, b] = e.vertices();
            let (ia, ib) = (idx(a.position())?, idx(b.position())?);
            es.push((ia, ib));
            if rt.flag(e.fix()) {
                cs.push((ia, ib));
            }
        }
        Some((es, cs))
    }));
    match r {
        Ok(Some((es, cs))) => {
            let _ = write!(out, "Q {}", es.len());
            for (a, b) in &es {
                let _ = write!(out, " {} {}", a, b);
            }
            let _ = write!(out, " {}", cs.len());
            for (a, b) in &cs {
                let _ = write!(out, " {} {}", a, b);
            }
            out.push('\n');
        }
        _ => out.push_str("Q -1\n"),
    }
}

// ------------------------------------------------------------------ state dump
pub fn dump_state<T: Tx>(t: &T, out: &mut String) {
    let nv = t.num_vertices();
    let ne = t.num_undirected_edges();
    let nf = t.num_all_faces();
    let _ = write!(
        out,
        "S {} {} {} {} {} {} {}",
        nv,
        ne,
        nf,
        t.ncons(),
        t.convex_hull_size(),
        t.num_inner_faces(),
        t.all_vertices_on_line() as u8
    );
    out.push_str(" V");
    for v in t.vertices() {
        let p = v.position();
        let oe = v.out_edge().map(|e| e.fix().index() as i64).unwrap_or(-1);
        let _ = write!(out, " {} {} {} {}", bits(p.x), bits(p.y), v.data().d, oe);
    }
    out.push_str(" E");
    for e in t.directed_edges() {
        let _ = write!(
            out,
            " {} {} {} {}",
            e.next().fix().index(),
            e.prev().fix().index(),
            e.face().fix().index(),
            e.from().fix().index()
        );
    }
    out.push_str(" F");
    for f in t.all_faces() {
        let a = f.adjacent_edge().map(|e| e.fix().index() as i64).unwrap_or(-1);
        let _ = write!(out, " {}", a);
    }
    out.push_str(" G");
    for e in t.fixed_undirected_edges() {
        let _ = write!(out, " {}", t.flag(e) as u8);
    }
    let hull: Vec<usize> = t.convex_hull().map(|e| e.fix().index()).collect();
    let _ = write!(out, " H {}", hull.len());
    for e in hull {
        let _ = write!(out, " {}", e);
    }
    out.push('\n');
}

fn loc_str(p: PositionInTriangulation) -> String {
    match p {
        PositionInTriangulation::OnVertex(v) => format!("vertex {}", v.index()),
        PositionInTriangulation::OnEdge(e) => format!("edge {}", e.index()),
        PositionInTriangulation::OnFace(f) => format!("face {}", f.index()),
        PositionInTriangulation::OutsideOfConvexHull(e) => format!("outside {}", e.index()),
        PositionInTriangulation::NoTriangulation => "none".to_string(),
    }
}

// ------------------------------------------------------------------ op interpreter
pub fn exec_op<T: Tx>(t: &mut T, k: usize, toks: &[&str], out: &mut String) {
    let name = toks[0];
    let a = &toks[1..];
    let _ = write!(out, "O {} {}", k, name);
    let mut mutating = true;
    match name {
        "ins" => {
            let _ = writeln!(out, " {}", a.join(" "));
            match t.insert(vd(a[0], a[1], a[2])) {
                Ok(v) => {
                    let _ = writeln!(out, "R ok {}", v.index());
                }
                Err(e) => {
                    let _ = writeln!(out, "R err {}", err_name(e));
                }
            }
        }
        "insh" => {
            let h = vsel(t, a[3]);
            match h {
                None => {
                    out.push_str(" -\nR skip\n");
                }
                Some(h) => {
                    let _ = writeln!(out, " {} {} {} V{}", a[0], a[1], a[2], h.index());
                    match t.insert_with_hint(vd(a[0], a[1], a[2]), h) {
                        Ok(v) => {
                            let _ = writeln!(out, "R ok {}", v.index());
                        }
                        Err(e) => {
                            let _ = writeln!(out, "R err {}", err_name(e));
                        }
                    }
                }
            }
        }
        "insmid" => {
            // insmid eK d : insert the midpoint of undirected edge K (constraint edges preferred when K is odd);
            // echoed as an ordinary `ins x y d` so that the checker treats it as such
            let n = t.num_undirected_edges();
            if n == 0 {
                out.clear();
                let _ = write!(out, "O {} ins -\nR skip\n", k);
            } else {
                let kk: usize = a[0][1..].parse().unwrap();
                let all: Vec<_> = t.fixed_undirected_edges().collect();
                let cons: Vec<_> = all.iter().copied().filter(|e| t.flag(*e)).collect();
                let e = if kk % 2 == 1 && !cons.is_empty() { cons[(kk / 2) % cons.len()] } else { all[kk % n] };
                let [p0, p1] = t.undirected_edge(e).positions();
                let two = T::S::of_f64(2.0);
                let m = Point2::new((p0.x + p1.x) / two, (p0.y + p1.y) / two);
                out.clear();
                let _ = writeln!(out, "O {} ins {} {} {}", k, bits(m.x), bits(m.y), a[1]);
                match t.insert(VD { p: m, d: a[1].parse().unwrap() }) {
                    Ok(v) => {
                        let _ = writeln!(out, "R ok {}", v.index());
                    }
                    Err(e) => {
                        let _ = writeln!(out, "R err {}", err_name(e));
                    }
                }
            }
        }
        "rm" | "trm" => match vsel(t, a[0]) {
            None => out.push_str(" -\nR skip\n"),
            Some(v) => {
                let _ = writeln!(out, " V{}", v.index());
                let r = if name == "rm" { t.inherent_remove(v) } else { Triangulation::remove(t, v) };
                let _ = writeln!(out, "R {} {} {}", bits(r.p.x), bits(r.p.y), r.d);
                let verts: Vec<VD<T::S>> = t.vertices().map(|v| *v.data()).collect();
                let cons = t.constraint_positions();
                reference_line(t, &verts, &cons, out);
            }
        },
        "lrm" => {
            let _ = writeln!(out, " {}", a.join(" "));
            match t.locate_and_remove(pt(a[0], a[1])) {
                Some(r) => {
                    let _ = writeln!(out, "R some {} {} {}", bits(r.p.x), bits(r.p.y), r.d);
                }
                None => out.push_str("R none\n"),
            }
        }
        "clear" => {
            out.push('\n');
            t.clear();
            out.push_str("R ok\n");
        }
        "clone" => {
            out.push('\n');
            let c = t.clone();
            *t = c;
            out.push_str("R ok\n");
        }
        "bulk" | "bulks" => {
            let _ = writeln!(out, " {}", a.join(" "));
            let n: usize = a[0].parse().unwrap();
            let vs: Vec<VD<T::S>> = (0..n).map(|i| vd(a[1 + 3 * i], a[2 + 3 * i], a[3 + 3 * i])).collect();
            match T::load(vs.clone(), name == "bulks") {
                Ok(nt) => {
                    *t = nt;
                    out.push_str("R ok\n");
                    reference_line(t, &vs, &[], out);
                }
                Err(e) => {
                    let _ = writeln!(out, "R err {}", err_name(e));
                }
            }
        }
        "bulkc" | "bulkcs" => {
            let _ = writeln!(out, " {}", a.join(" "));
            let n: usize = a[0].parse().unwrap();
            let vs: Vec<VD<T::S>> = (0..n).map(|i| vd(a[1 + 3 * i], a[2 + 3 * i], a[3 + 3 * i])).collect();
            let m: usize = a[1 + 3 * n].parse().unwrap();
            let es: Vec<[usize; 2]> = (0..m)
                .map(|i| [a[2 + 3 * n + 2 * i].parse().unwrap(), a[3 + 3 * n + 2 * i].parse().unwrap()])
                .collect();
            let cons: Vec<(Point2<T::S>, Point2<T::S>)> =
                es.iter().filter(|e| e[0] < vs.len() && e[1] < vs.len()).map(|e| (vs[e[0]].p, vs[e[1]].p)).collect();
            match T::load_cdt(vs.clone(), es, name == "bulkcs") {
                Some(Ok(nt)) => {
                    *t = nt;
                    out.push_str("R ok\n");
                    reference_line(t, &vs, &cons, out);
                }
                Some(Err(e)) => {
                    let _ = writeln!(out, "R err {}", err_name(e));
                }
                None => out.push_str("R skip\n"),
            }
        }
        // ---------------------------------------------------------------- queries
        "loc" | "locv" => {
            mutating = false;
            let _ = writeln!(out, " {}", a.join(" "));
            if name == "loc" {
                let _ = writeln!(out, "R {}", loc_str(t.locate(pt(a[0], a[1]))));
            } else {
                match t.locate_vertex(pt(a[0], a[1])) {
                    Some(v) => {
                        let _ = writeln!(out, "R some {}", v.fix().index());
                    }
                    None => out.push_str("R none\n"),
                }
            }
        }
        "loch" => {
            mutating = false;
            let k: usize = a[2][1..].parse().unwrap();
            let h = if a[2].starts_with('V') {
                k
            } else if t.num_vertices() > 0 {
                k % t.num_vertices()
            } else {
                0
            };
            let _ = writeln!(out, " {} {} V{}", a[0], a[1], h);
            let r = t.locate_with_hint(pt(a[0], a[1]), FixedVertexHandle::from_index(h));
            let _ = writeln!(out, "R {}", loc_str(r));
        }
        "hull" => {
            mutating = false;
            out.push('\n');
            let h: Vec<usize> = t.convex_hull().map(|e| e.fix().index()).collect();
            let hr: Vec<usize> = t.convex_hull().rev().map(|e| e.fix().index()).collect();
            let _ = write!(out, "R {} {}", t.convex_hull_size(), h.len());
            for e in &h {
                let _ = write!(out, " {}", e);
            }
            let _ = write!(out, " {}", hr.len());
            for e in &hr {
                let _ = write!(out, " {}", e);
            }
            out.push('\n');
        }
        "line" | "lineh" => {
            mutating = false;
            let it = if name == "line" {
                let _ = writeln!(out, " {}", a.join(" "));
                Some(LineIntersectionIterator::new(t, pt(a[0], a[1]), pt(a[2], a[3])))
            } else {
                match (vsel(t, a[0]), vsel(t, a[1])) {
                    (Some(x), Some(y)) => {
                        let _ = writeln!(out, " V{} V{}", x.index(), y.index());
                        Some(LineIntersectionIterator::new_from_handles(t, x, y))
                    }
                    _ => {
                        out.push_str(" -\nR skip\n");
                        None
                    }
                }
            };
            if let Some(it) = it {
                let mut items = Vec::new();
                for (n, i) in it.enumerate() {
                    if n > 100_000 {
                        panic!("line iterator yields without end");
                    }
                    items.push(match i {
                        Intersection::EdgeIntersection(e) => format!("x {}", e.fix().index()),
                        Intersection::VertexIntersection(v) => format!("v {}", v.fix().index()),
                        Intersection::EdgeOverlap(e) => format!("o {}", e.fix().index()),
                    });
                }
                let _ = writeln!(out, "R {} {}", items.len(), items.join(" "));
            }
        }
        "vrect" | "erect" | "vcirc" | "ecirc" => {
            mutating = false;
            // the parameters are echoed as the scalar type holds them (an f32 triangulation receives rounded values)
            let echoed: Vec<String> = a.iter().map(|tok| bits(T::S::of_f64(fb(tok))).to_string()).collect();
            let _ = writeln!(out, " {}", echoed.join(" "));
            let r: Vec<usize> = match name {
                "vrect" => t.get_vertices_in_rectangle(pt(a[0], a[1]), pt(a[2], a[3])).map(|v| v.fix().index()).collect(),
                "erect" => t.get_edges_in_rectangle(pt(a[0], a[1]), pt(a[2], a[3])).map(|e| e.fix().index()).collect(),
                "vcirc" => t.get_vertices_in_circle(pt(a[0], a[1]), T::S::of_f64(fb(a[2]))).map(|v| v.fix().index()).collect(),
                _ => t.get_edges_in_circle(pt(a[0], a[1]), T::S::of_f64(fb(a[2]))).map(|e| e.fix().index()).collect(),
            };
            let _ = write!(out, "R {}", r.len());
            for x in r {
                let _ = write!(out, " {}", x);
            }
            out.push('\n');
        }
        "bary" => {
            mutating = false;
            let _ = writeln!(out, " {}", a.join(" "));
            let b = t.barycentric();
            let mut w = Vec::new();
            if let Some(v0) = t.vertices().next() {
                b.get_weights(v0.position(), &mut w);
                let _ = b.interpolate(|_| T::S::of_f64(1.0), v0.position());
            }
            let q = pt(a[0], a[1]);
            b.get_weights(q, &mut w);
            let _ = write!(out, "R {}", w.len());
            for (v, x) in w {
                let _ = write!(out, " {} {}", v.index(), bits(x));
            }
            match b.interpolate(|_| T::S::of_f64(1.0), q) {
                Some(x) => {
                    let _ = write!(out, " 1 {}", bits(x));
                }
                None => out.push_str(" 0 0"),
            }
            out.push('\n');
        }
        "sq" => {
            // side_query through the public edge handle: sq dK X Y
            mutating = false;
            let n = t.num_directed_edges();
            if n == 0 {
                out.push_str(" -\nR skip\n");
            } else {
                let k: usize = a[0][1..].parse::<usize>().unwrap() % n;
                let _ = writeln!(out, " D{} {} {}", k, a[1], a[2]);
                let e = t.directed_edges().nth(k).unwrap();
                let q = e.side_query(pt(a[1], a[2]));
                let _ = writeln!(
                    out,
                    "R {} {} {}",
                    q.is_on_left_side() as u8,
                    q.is_on_right_side() as u8,
                    q.is_on_line() as u8
                );
            }
        }
        "valc" => {
            mutating = false;
            let _ = writeln!(out, " {}", a.join(" "));
            let x = T::S::of_f64(fb(a[0]));
            match validate_coordinate(x) {
                Ok(()) => out.push_str("R ok\n"),
                Err(e) => {
                    let _ = writeln!(out, "R err {}", err_name(e));
                }
            }
        }
        "valv" => {
            mutating = false;
            let _ = writeln!(out, " {}", a.join(" "));
            match validate_vertex(&vd::<T::S>(a[0], a[1], "0")) {
                Ok(()) => out.push_str("R ok\n"),
                Err(e) => {
                    let _ = writeln!(out, "R err {}", err_name(e));
                }
            }
        }
        "mit" => {
            mutating = false;
            let _ = writeln!(out, " {}", a.join(" "));
            let p = mitigate_underflow(Point2::new(fb(a[0]), fb(a[1])));
            let _ = writeln!(out, "R {} {}", p.x.to_bits(), p.y.to_bits());
        }
        "snap" => {
            out.push('\n');
            out.push_str("R ok\n");
        }
        #[cfg(spade_verif)]
        "prim" => {
            crate::prims::prim(t, a, out);
        }
        #[cfg(spade_verif)]
        "msq" | "mcic" => {
            mutating = false;
            let _ = writeln!(out, " {}", a.join(" "));
            if name == "msq" {
                let q = spade::verif_hooks::side_query(pt::<T::S>(a[0], a[1]), pt(a[2], a[3]), pt(a[4], a[5]));
                let _ = writeln!(out, "R {} {} {}", q.is_on_left_side() as u8, q.is_on_right_side() as u8, q.is_on_line() as u8);
            } else {
                let r = spade::verif_hooks::contained_in_circumference(
                    pt::<T::S>(a[0], a[1]), pt(a[2], a[3]), pt(a[4], a[5]), pt(a[6], a[7]));
                let _ = writeln!(out, "R {}", r as u8);
            }
        }
        _ => {
            let is_query = matches!(name, "canc" | "exc" | "confv" | "isc" | "confp" | "nn" | "nnw" | "vor");
            if is_query {
                mutating = false;
            }
            let handled = if matches!(name, "nn" | "nnw" | "vor") {
                let _ = writeln!(out, " {}", a.join(" "));
                let h = t.dt_op(name, a, out);
                if !h {
                    out.push_str("R skip\n");
                }
                true
            } else {
                t.cdt_op(name, a, out)
            };
            if !handled {
                let _ = writeln!(out, " {}", a.join(" "));
                out.push_str("R skip\n");
                mutating = false;
            }
        }
    }
    if mutating {
        dump_state(t, out);
    }
}
