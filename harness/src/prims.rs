// Direct calls of spade's internal DCEL primitives through the cfg(spade_verif) hook module.
// `prim <name> <selector> [x y d]`: the selector picks (modulo) among the topologically admissible
// arguments; the resolved argument is echoed.
use crate::ops::*;
use spade::handles::*;
use spade::verif_hooks as h;
use spade::*;
use std::fmt::Write as _;

pub fn prim<T: Tx>(t: &mut T, a: &[&str], out: &mut String) {
    let name = a[0];
    let sel: usize = a[1].parse().unwrap();
    let v = || vd::<T::S>(a[2], a[3], a[4]);
    let des: Vec<FixedDirectedEdgeHandle> = t.fixed_directed_edges().collect();
    let outer = |t: &T, e: FixedDirectedEdgeHandle| t.directed_edge(e).face().is_outer();
    let n_outer = des.iter().filter(|e| outer(t, **e)).count();
    let pick = |c: Vec<usize>| -> Option<usize> { if c.is_empty() { None } else { Some(c[sel % c.len()]) } };
    let cand_de = |f: &dyn Fn(&T, FixedDirectedEdgeHandle) -> bool| -> Vec<usize> {
        des.iter().enumerate().filter(|(_, e)| f(t, **e)).map(|(i, _)| i).collect()
    };
    macro_rules! skip {
        () => {{
            let _ = writeln!(out, " {} -", name);
            out.push_str("R skip\n");
            return;
        }};
    }
    match name {
        "ifv" => {
            if t.num_vertices() != 0 { skip!() }
            let _ = writeln!(out, " ifv 0 {} {} {}", a[2], a[3], a[4]);
            let r = h::insert_first_vertex(t.s_mut(), v());
            let _ = writeln!(out, "R {}", r.index());
        }
        "isv" => {
            if t.num_vertices() != 1 { skip!() }
            let _ = writeln!(out, " isv 0 {} {} {}", a[2], a[3], a[4]);
            let r = h::insert_second_vertex(t.s_mut(), v());
            let _ = writeln!(out, "R {}", r.index());
        }
        "flip" => {
            let c = cand_de(&|t, e| e.index() % 2 == 0 && !outer(t, e) && !outer(t, e.rev()));
            let Some(i) = pick(c) else { skip!() };
            let _ = writeln!(out, " flip {}", i / 2);
            h::flip_cw(t.s_mut(), des[i].as_undirected());
            out.push_str("R ok\n");
        }
        "cflip" => {
            // flip restricted to strictly convex quadrilaterals, so that the faces stay counter-clockwise
            let c = cand_de(&|t, e| {
                if e.index() % 2 != 0 || outer(t, e) || outer(t, e.rev()) {
                    return false;
                }
                let eh = t.directed_edge(e);
                let (a, b) = (eh.from().position(), eh.to().position());
                let c_ = eh.prev().from().position();
                let d_ = eh.rev().prev().from().position();
                h::side_query(c_, d_, a).is_on_left_side() != h::side_query(c_, d_, b).is_on_left_side()
                    && !h::side_query(c_, d_, a).is_on_line()
                    && !h::side_query(c_, d_, b).is_on_line()
            });
            let Some(i) = pick(c) else { skip!() };
            let _ = writeln!(out, " flip {}", i / 2);
            h::flip_cw(t.s_mut(), des[i].as_undirected());
            out.push_str("R ok\n");
        }
        "leg" | "legf" => {
            if des.is_empty() { skip!() }
            let i = sel % des.len();
            let _ = writeln!(out, " {} {}", name, i);
            let r = h::legalize_edge(t, des[i], name == "legf");
            let _ = writeln!(out, "R {}", r as u8);
        }
        "iit" => {
            let fs: Vec<FixedFaceHandle<InnerTag>> = t.fixed_inner_faces().collect();
            if fs.is_empty() { skip!() }
            let f = fs[sel % fs.len()];
            let _ = writeln!(out, " iit {} {} {} {}", f.index(), a[2], a[3], a[4]);
            let r = h::insert_into_triangle(t.s_mut(), v(), f);
            let _ = writeln!(out, "R {}", r.index());
        }
        "se" | "she" => {
            let c = if name == "se" {
                cand_de(&|t, e| !outer(t, e) && !outer(t, e.rev()))
            } else {
                cand_de(&|t, e| !outer(t, e) && outer(t, e.rev()))
            };
            let Some(i) = pick(c) else { skip!() };
            let _ = writeln!(out, " {} {} {} {} {}", name, i, a[2], a[3], a[4]);
            let (vh, es) = if name == "se" { h::split_edge(t.s_mut(), des[i], v()) } else { h::split_half_edge(t.s_mut(), des[i], v()) };
            let _ = writeln!(out, "R {} {} {}", vh.index(), es[0].index(), es[1].index());
        }
        "cnf" => {
            if t.num_all_faces() < 2 && t.num_vertices() < 2 { skip!() }
            let c = cand_de(&|t, e| outer(t, e));
            let Some(i) = pick(c) else { skip!() };
            let _ = writeln!(out, " cnf {} {} {} {}", i, a[2], a[3], a[4]);
            let r = h::create_new_face_adjacent_to_edge(t.s_mut(), des[i], v());
            let _ = writeln!(out, "R {}", r.index());
        }
        "csf" => {
            if t.num_all_faces() < 2 || n_outer < 4 { skip!() }
            let c = cand_de(&|t, e| outer(t, e));
            let Some(i) = pick(c) else { skip!() };
            let _ = writeln!(out, " csf {}", i);
            let r = h::create_single_face_between_edge_and_next(t.s_mut(), des[i]);
            let _ = writeln!(out, "R {}", r.index());
        }
        "ext" => {
            if t.num_all_faces() != 1 || t.num_undirected_edges() == 0 { skip!() }
            let ends: Vec<usize> = t
                .vertices()
                .filter(|v| v.out_edges().count() == 1)
                .map(|v| v.fix().index())
                .collect();
            let Some(i) = pick(ends) else { skip!() };
            let _ = writeln!(out, " ext {} {} {} {}", i, a[2], a[3], a[4]);
            let r = h::extend_line(t.s_mut(), FixedVertexHandle::from_index(i), v());
            let _ = writeln!(out, "R {}", r.index());
        }
        "sel" => {
            if t.num_all_faces() != 1 || t.num_undirected_edges() == 0 { skip!() }
            let i = sel % des.len();
            let _ = writeln!(out, " sel {} {} {} {}", i, a[2], a[3], a[4]);
            let (es, vh) = h::split_edge_when_all_vertices_on_line(t.s_mut(), des[i], v());
            let _ = writeln!(out, "R {} {} {}", vh.index(), es[0].index(), es[1].index());
        }
        _ => skip!(),
    }
}
