#!/bin/sh
# builds the extracted checkers:
#   /verif/.cache/chk   specification checker  (Check/Run.v)        -- independent of the translated model
#   /verif/.cache/chkm  model correspondence   (Check/RunModel.v)   -- Gen/DcelOps.v + Tri/Legalize.v vs implementation
# usage: build.sh [spec|model|all]
set -e
cd "$(dirname "$0")"
WHAT=${1:-all}
build() {  # $1 = extraction file, $2 = gen dir, $3 = work dir, $4 = output, $5 = entry point
  mkdir -p $2 ../.cache/$3
  ( cd $2 && rm -f *.ml *.mli && coqc -Q ../../coq/theories SpadeV ../../coq/theories/Check/$1 >/dev/null )
  python3 ../tools/codes.py ml > $2/Codes_tbl.ml
  rm -rf ../.cache/$3/*; cp $2/*.ml $2/*.mli ../.cache/$3/
  sed "s/Run\.run_case/$5/" chk.ml > ../.cache/$3/chk.ml
  ( cd ../.cache/$3 && ocamlfind ocamlopt -O2 -package zarith -linkpkg -w -a $(ocamlfind ocamldep -sort *.ml *.mli 2>/dev/null | tr '\n' ' ') -o ../$4 2>/dev/null || \
    ocamlfind ocamlopt -package zarith -linkpkg -w -a $(ocamlfind ocamldep -sort *.ml *.mli | tr '\n' ' ') -o ../$4 )
}
if [ "$WHAT" = spec ] || [ "$WHAT" = all ]; then build Extract.v gen ocaml chk Run.run_case; fi
if [ "$WHAT" = model ] || [ "$WHAT" = all ]; then build ExtractModel.v genm ocamlm chkm RunModel.run_model_case; fi
