#!/bin/sh
# builds the extracted checker: /verif/ocaml/gen/*.ml (from Coq) + chk.ml -> /verif/.cache/chk
set -e
cd "$(dirname "$0")"
mkdir -p gen ../.cache/ocaml
( cd gen && rm -f *.ml *.mli && coqc -Q ../../coq/theories SpadeV ../../coq/theories/Check/Extract.v >/dev/null )
python3 ../tools/codes.py ml > gen/Codes_tbl.ml
rm -rf ../.cache/ocaml/*; cp gen/*.ml gen/*.mli chk.ml ../.cache/ocaml/
cd ../.cache/ocaml
ocamlfind ocamlopt -O2 -package zarith -linkpkg -w -a $(ocamlfind ocamldep -sort *.ml *.mli 2>/dev/null | tr ' ' '\n' | grep -v '^$' | tr '\n' ' ') -o ../chk 2>&1 || \
ocamlfind ocamlopt -package zarith -linkpkg -w -a $(ocamlfind ocamldep -sort *.ml *.mli | tr '\n' ' ') -o ../chk
