(* splitstats.ml -- derived from chk.ml (same parsing), prints SplitStats.split_stats_case rows.
   chk.ml -- glue around the Coq-extracted checker: turns the harness' text output into lists of
   integers, calls Run.run_case, prints verdicts.  No judgement is made here. *)
let z_of_string s = Big_int_Z.big_int_of_string s

let is_int s =
  let n = String.length s in
  n > 0 && (let st = if s.[0] = '-' then 1 else 0 in
            st < n && (let ok = ref true in
                       for i = st to n - 1 do if s.[i] < '0' || s.[i] > '9' then ok := false done; !ok))

let tok_to_z (s : string) : Big_int_Z.big_int option =
  if is_int s then Some (z_of_string s)
  else match Codes_tbl.kw_code s with
    | Some c -> Some (z_of_string c)
    | None ->
      let n = String.length s in
      if n >= 2 && is_int (String.sub s 1 (n - 1)) && (match s.[0] with 'V' | 'E' | 'D' | 'v' | 'e' | 'd' -> true | _ -> false)
      then Some (z_of_string (String.sub s 1 (n - 1))) else None

let toks line = Stdlib.List.filter (fun s -> s <> "") (String.split_on_char ' ' line)

let rec nat_to_int = function Datatypes.O -> 0 | Datatypes.S n -> 1 + nat_to_int n

(* CHK_PASSES=1: also print one line per passing verdict (used by tools/rmstats.py to attribute verdicts to operations) *)
let show_passes = (try Sys.getenv "CHK_PASSES" <> "" with Not_found -> false)

let () =
  let cur_id = ref "" and cur_cfg = ref None and steps = ref [] in
  let op = ref None and res = ref [] and obs = ref None and aux = ref None in
  let flush_step () =
    (match !op with
     | Some (code, args) ->
       steps := { Run.s_op = code; Run.s_args = args; Run.s_res = !res; Run.s_obs = !obs; Run.s_aux = !aux } :: !steps
     | None -> ());
    op := None; res := []; obs := None; aux := None in
  let finish_case () =
    flush_step ();
    (match !cur_cfg with
     | Some cfg ->
       let rows = SplitStats.split_stats_case cfg (Stdlib.List.rev !steps) in
       Stdlib.List.iter (fun row ->
           Printf.printf "T %s" !cur_id;
           Stdlib.List.iter (fun z -> Printf.printf " %s" (Big_int_Z.string_of_big_int z)) row;
           print_newline ()) rows
     | None -> ());
    cur_cfg := None; steps := [] in
  (try
     while true do
       let line = input_line stdin in
       match toks line with
       | "C" :: id :: kind :: scalar :: hint :: _ ->
         cur_id := id;
         steps := []; op := None; res := []; obs := None; aux := None;
         let h = match Codes_tbl.kw_code hint with Some c -> z_of_string c | None -> Big_int_Z.zero_big_int in
         cur_cfg := Some { Run.c_cdt = (kind = "cdt"); Run.c_f32 = (scalar = "f32"); Run.c_hint = h }
       | "O" :: _k :: name :: args ->
         flush_step ();
         let a = Stdlib.List.filter_map tok_to_z args in
         op := Some (z_of_string (string_of_int (Codes_tbl.op_code name)), a)
       | "R" :: "panic" :: _ ->
         res := (match Codes_tbl.kw_code "panic" with Some c -> [z_of_string c] | None -> [])
       | "R" :: rs -> res := Stdlib.List.filter_map tok_to_z rs
       | "S" :: ss ->
         obs := Some (Stdlib.List.filter_map (fun s -> if is_int s then Some (z_of_string s) else None) ss)
       | "Q" :: qs ->
         aux := Some (Stdlib.List.filter_map (fun s -> if is_int s then Some (z_of_string s) else None) qs)
       | "X" :: _ -> finish_case ()
       | _ -> ()
     done
   with End_of_file -> ());
  if !cur_cfg <> None then finish_case ()
