#!/bin/sh
# Build the framework from files on disk only (offline): translated model files, the Coq development
# (full .vo build), the extracted checker, the Rust harness.
set -e
cd "$(dirname "$0")"
export CARGO_NET_OFFLINE=true
mkdir -p .cache evidence replay
python3 tools/rs2v.py /repo coq/theories/Gen
python3 tools/codes.py coq > coq/theories/Check/Codes.v.tmp
cmp -s coq/theories/Check/Codes.v.tmp coq/theories/Check/Codes.v 2>/dev/null || mv coq/theories/Check/Codes.v.tmp coq/theories/Check/Codes.v
rm -f coq/theories/Check/Codes.v.tmp
( cd coq && coq_makefile -f _CoqProject -o Makefile >/dev/null && timeout 3000 make -j16 > ../.cache/coq-build.log 2>&1 ) || { tail -30 .cache/coq-build.log; echo "setup: Coq build failed"; exit 1; }
./ocaml/build.sh
[ -f harness/Cargo.lock ] || cp /repo/Cargo.lock harness/Cargo.lock
( cd harness && RUSTFLAGS="--cfg spade_verif -Awarnings" cargo build --offline 2>&1 | tail -3 )
echo "setup: ok"
