#!/usr/bin/env python3
"""acstats.py -- attribute the `corr` verdicts of the model checker (.cache/chkm) to constraint insertions and classify them.

  python3 tools/acstats.py .cache/run/C12 [more run dirs]

Reads the harness outputs (shard*.out) of a ./verify run, re-runs chkm with CHK_PASSES=1 and reports, per kind of
add_constraint / try_add_constraint / can_add_constraint call (decided from the state BEFORE the call and the state after it), how many
calls the executable model (Tri/AddConstraint.v) reproduced index-exactly.  Only reporting: the judgement is the checker's."""
import sys, os, glob, subprocess, struct, collections
from fractions import Fraction
from concurrent.futures import ThreadPoolExecutor

ROOT = os.path.dirname(os.path.dirname(os.path.abspath(__file__)))
CHKM = os.path.join(ROOT, ".cache", "chkm")

def f64(b):
    return struct.unpack('<d', struct.pack('<Q', int(b)))[0]
def f32(b):
    return struct.unpack('<f', struct.pack('<I', int(b)))[0]

def parse_state(t, is32):
    nv, ne, nf = int(t[1]), int(t[2]), int(t[3])
    dec = f64          # the harness prints f32 coordinates widened to f64 bit patterns
    i = t.index("V") + 1
    V = [(Fraction(dec(t[i + 4 * k])), Fraction(dec(t[i + 4 * k + 1])), int(t[i + 4 * k + 3])) for k in range(nv)]
    i = t.index("E", i + 4 * nv) + 1
    E = [tuple(int(x) for x in t[i + 4 * k:i + 4 * k + 4]) for k in range(2 * ne)]     # next prev face org
    i = i + 8 * ne
    assert t[i] == "F"
    i = i + 1 + nf
    assert t[i] == "G"
    G = [int(x) for x in t[i + 1:i + 1 + ne]]
    return dict(nv=nv, ne=ne, nf=nf, V=V, E=E, G=G)

def orient(a, b, c):
    return (b[0] - a[0]) * (c[1] - a[1]) - (b[1] - a[1]) * (c[0] - a[0])

def strictly_inside(a, b, q):
    if orient(a, b, q) != 0:
        return False
    d = (q[0] - a[0]) * (b[0] - a[0]) + (q[1] - a[1]) * (b[1] - a[1])
    l = (b[0] - a[0]) ** 2 + (b[1] - a[1]) ** 2
    return 0 < d < l

def crosses(a, b, c, d):
    """open segments a-b and c-d cross properly"""
    o1, o2, o3, o4 = orient(a, b, c), orient(a, b, d), orient(c, d, a), orient(c, d, b)
    return o1 * o2 < 0 and o3 * o4 < 0

def classify(p, n, name, va, vb, res):
    tags = [name]
    A, B = p["V"][va][:2], p["V"][vb][:2]
    deg = p["nf"] <= 1
    if deg:
        tags.append("degenerate-state(all-collinear)")
    if va == vb:
        return tags + ["a==b"]
    inner = [i for i, q in enumerate(p["V"]) if i not in (va, vb) and strictly_inside(A, B, q[:2])]
    edges = [(p["E"][2 * k][3], p["E"][2 * k + 1][3], p["G"][k]) for k in range(p["ne"])]
    crossed = [(u, v, g) for (u, v, g) in edges if crosses(A, B, p["V"][u][:2], p["V"][v][:2])]
    ncross = len(crossed)
    ccross = sum(1 for c in crossed if c[2])
    # constraint edges that touch the open segment with an end point do not block (they end at a vertex on the segment)
    if name == "canc":
        tags.append("answer:%s" % res[0])
        tags.append("canc:crossing-constraint" if ccross else "canc:no-crossing-constraint")
    refused = (res and res[0] == "panic") or (name == "tryc" and res == ["0"] and va != vb)
    if name != "canc":
        if refused:
            tags.append("refused(crossing-constraint)")
            if inner:
                tags.append("refused:behind-vertices-on-the-segment")
            if any(not c[2] for c in crossed):
                tags.append("refused:free-edges-crossed-too")
        else:
            tags.append("accepted")
    if inner:
        tags.append("through-vertices:%s" % (len(inner) if len(inner) <= 3 else "4+"))
        tags.append("through-vertices")
    if not refused:
        c = "0" if ncross == 0 else ("1" if ncross == 1 else ("2-3" if ncross <= 3 else ("4-7" if ncross <= 7 else "8+")))
        tags.append("free-edges-crossed:%s" % c)
        chain = [va] + sorted(inner, key=lambda i: (p["V"][i][0] - A[0]) ** 2 + (p["V"][i][1] - A[1]) ** 2) + [vb]
        es = {frozenset((u, v)): g for (u, v, g) in edges}
        pieces = [frozenset(x) for x in zip(chain, chain[1:])]
        ex = [x in es for x in pieces]
        fl = [es.get(x, 0) for x in pieces]
        if all(ex):
            tags.append("along-existing-edges(all pieces)")
        elif any(ex):
            tags.append("along-existing-edges(some pieces)")
        if all(fl):
            tags.append("duplicate(all pieces already constraints)")
        elif any(fl):
            tags.append("some pieces already constraints")
        if n is not None and name != "canc":
            hull = False
            for k in range(n["ne"]):
                u, v = n["E"][2 * k][3], n["E"][2 * k + 1][3]
                if frozenset((u, v)) in pieces and (n["E"][2 * k][2] == 0 or n["E"][2 * k + 1][2] == 0):
                    hull = True
            if hull and not deg:
                tags.append("on-the-hull")
            if p["E"] != n["E"]:
                tags.append("edges-rotated")
    return tags

def one(of):
    res = subprocess.run(CHKM, stdin=open(of), stdout=subprocess.PIPE, env=dict(os.environ, CHK_PASSES="1"), text=True).stdout
    verd = {}
    for line in res.splitlines():
        t = line.split()
        if len(t) == 4 and t[0] in ("P", "F") and t[3] == "corr":
            verd.setdefault((t[1], int(t[2])), []).append(t[0] == "P")
    stats = collections.Counter()
    cid, k, prev, is32 = None, -1, None, False
    pending = None
    def finish(pend, after):
        name, args, r = pend
        if r is None or r[0] in ("skip", "hang") or prev is None:
            return
        if name == "adde":
            vl = verd.get((cid, k), [])
            ok = "pass" if (vl and all(vl)) else ("FAIL" if vl else "no-verdict")
            stats[("adde", ok)] += 1
            stats[("adde:" + ("refused(panic)" if r[0] == "panic" else " ".join(r[:2])), ok)] += 1
            stats[("ALL", ok)] += 1
            return
        va, vb = int(args[0][1:]), int(args[1][1:])
        vl = verd.get((cid, k), [])
        ok = "pass" if (vl and all(vl)) else ("FAIL" if vl else "no-verdict")
        for tg in classify(prev, after, name, va, vb, r):
            stats[(tg, ok)] += 1
        stats[("ALL", ok)] += 1
    for line in open(of, errors="replace"):
        t = line.split()
        if not t:
            continue
        if t[0] == "C":
            cid, k, prev, pending = t[1], -1, None, None
            is32 = t[3] == "f32"
        elif t[0] == "O":
            if pending is not None and pending[0] == "canc":
                finish(pending, None)
            k += 1
            pending = None
            if t[2] in ("addc", "tryc", "canc", "adde"):
                pending = [t[2], t[3:], None]
        elif t[0] == "R" and pending is not None:
            pending[2] = t[1:]
            if pending[0] == "canc":
                finish(pending, None)
                pending = None
        elif t[0] == "S":
            if len(t) > 1 and t[1] == "broken":
                prev, pending = None, None
                continue
            cur = parse_state(t, is32)
            if pending is not None:
                finish(pending, cur)
                pending = None
            prev = cur
    return stats

def main():
    files = []
    for d in sys.argv[1:]:
        files += sorted(glob.glob(os.path.join(d, "shard*.out")))
    total = collections.Counter()
    with ThreadPoolExecutor(max_workers=16) as ex:
        for st in ex.map(one, files):
            total.update(st)
    keys = sorted({k for (k, _) in total})
    print("%-52s %8s %6s %10s" % ("class", "pass", "FAIL", "no-verdict"))
    for k in keys:
        print("%-52s %8d %6d %10d" % (k, total[(k, "pass")], total[(k, "FAIL")], total[(k, "no-verdict")]))

if __name__ == "__main__":
    main()
