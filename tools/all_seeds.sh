#!/bin/sh
# all_seeds.sh : applies every kept seeded change in turn and runs the quick check of the property it breaks; prints one line per change
cd /verif
for d in seeded/*/; do
  n=$(basename $d); p=$(python3 -c "import json; m=json.load(open('$d/meta.json')); print('SKIP' if m.get('status')=='invalidated' else m['breaks_property'])")
  [ "$p" = "SKIP" ] && { echo "$n invalidated (see meta.json)"; continue; }
  git -C /repo diff --quiet || { echo "/repo dirty, stop"; exit 2; }
  git -C /repo apply /verif/$d/patch.diff 2>/dev/null || { echo "$n: patch does not apply"; continue; }
  ./verify $p --tier quick > /tmp/allseeds-$n.log 2>&1; RC=$?
  git -C /repo checkout -- .
  echo "$n $p exit=$RC viol=$(grep -c '^VIOLATION' /tmp/allseeds-$n.log) $(grep '^VIOLATION' /tmp/allseeds-$n.log | head -1 | sed 's/.*replay=//' | cut -c1-80)"
done
python3 tools/rs2v.py /repo coq/theories/Gen > /dev/null; cd coq && make -j16 > /dev/null 2>&1
