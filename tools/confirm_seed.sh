#!/bin/sh
# confirm_seed.sh <seed-dir> : in a scratch worktree verify that (1) the patch applies, (2) the 185 lib tests pass with it,
# (3) the demo prints PASS without the patch and fails with it. Prints a one-line summary; removes the worktree.
set -u
D=$(realpath "$1"); NAME=$(basename "$D"); WT=/tmp/confirm-$NAME
git -C /repo worktree remove --force $WT 2>/dev/null; rm -rf $WT
git -C /repo worktree add -q --detach $WT HEAD || exit 2
export CARGO_NET_OFFLINE=true
rm -rf /tmp/confirm-demo-$NAME; cp -r "$D/demo" /tmp/confirm-demo-$NAME
sed -i "s#SPADE_PATH#$WT#" /tmp/confirm-demo-$NAME/Cargo.toml; cp /repo/Cargo.lock /tmp/confirm-demo-$NAME/ 2>/dev/null
( cd /tmp/confirm-demo-$NAME && CARGO_TARGET_DIR=$WT/target-demo timeout 900 cargo run --offline >/tmp/confirm-$NAME.clean.log 2>&1 ); CLEAN=$?
git -C $WT apply "$D/patch.diff" || { echo "$NAME: patch does not apply"; exit 2; }
( cd $WT && CARGO_TARGET_DIR=$WT/target timeout 1800 cargo test --offline --lib 2>&1 | grep "test result" > /tmp/confirm-$NAME.tests.log )
( cd /tmp/confirm-demo-$NAME && CARGO_TARGET_DIR=$WT/target-demo timeout 900 cargo run --offline >/tmp/confirm-$NAME.mut.log 2>&1 ); MUT=$?
echo "$NAME: demo-clean-exit=$CLEAN demo-mutant-exit=$MUT tests: $(cat /tmp/confirm-$NAME.tests.log)"
git -C /repo worktree remove --force $WT; rm -rf /tmp/confirm-demo-$NAME
