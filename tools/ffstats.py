#!/usr/bin/env python3
"""ffstats.py -- attribute the `corr` verdicts of the model checker (.cache/chkm) to the rectangle / circle queries and classify them.

  python3 tools/ffstats.py .cache/run/C16 [more run dirs]

Reads the harness outputs (shard*.out) of a ./verify run, re-runs chkm with CHK_PASSES=1 and reports, per kind of query (decided from the
state before the query and the shape), how many result lists the executable model (Query/FloodFill.v) reproduced in order.
Only reporting: the judgement is the checker's."""
import sys, os, glob, subprocess, struct, collections
from fractions import Fraction
from concurrent.futures import ThreadPoolExecutor

ROOT = os.path.dirname(os.path.dirname(os.path.abspath(__file__)))
CHKM = os.path.join(ROOT, ".cache", "chkm")
QOPS = ("vrect", "erect", "vcirc", "ecirc")

def f64(b):
    return struct.unpack('<d', struct.pack('<Q', int(b)))[0]

def parse_state(t):
    nv, ne, nf = int(t[1]), int(t[2]), int(t[3])
    i = t.index("V") + 1
    V = [(Fraction(f64(t[i + 4 * k])), Fraction(f64(t[i + 4 * k + 1]))) for k in range(nv)]
    i = t.index("E", i + 4 * nv) + 1
    E = [tuple(int(x) for x in t[i + 4 * k:i + 4 * k + 4]) for k in range(2 * ne)]     # next prev face org
    return dict(nv=nv, ne=ne, nf=nf, V=V, E=E)

def orient(a, b, c):
    return (b[0] - a[0]) * (c[1] - a[1]) - (b[1] - a[1]) * (c[0] - a[0])

def hull(s):
    return [e for e in range(2 * s["ne"]) if s["E"][e][2] == 0]

def classify(s, op, args, nres):
    tags = [op]
    if s is None or s["nv"] == 0:
        return tags + ["state:empty"]
    if s["nv"] == 1:
        tags.append("state:single-vertex")
    elif s["nf"] <= 1:
        tags.append("state:collinear")
    else:
        tags.append("state:2d")
    V = s["V"]
    xs = [p[0] for p in V]; ys = [p[1] for p in V]
    if op in ("vrect", "erect"):
        lo = (Fraction(f64(args[0])), Fraction(f64(args[1]))); hi = (Fraction(f64(args[2])), Fraction(f64(args[3])))
        if lo[0] > hi[0] or lo[1] > hi[1]:
            tags.append("shape:inverted")
        elif lo == hi:
            tags.append("shape:point")
        elif lo[0] == hi[0] or lo[1] == hi[1]:
            tags.append("shape:line")
        else:
            tags.append("shape:proper")
        inside = lambda p: lo[0] <= p[0] <= hi[0] and lo[1] <= p[1] <= hi[1]
        onb = lambda p: inside(p) and (p[0] in (lo[0], hi[0]) or p[1] in (lo[1], hi[1]))
        c = ((lo[0] + hi[0]) / 2, (lo[1] + hi[1]) / 2)
        if lo[0] <= min(xs) and hi[0] >= max(xs) and lo[1] <= min(ys) and hi[1] >= max(ys):
            tags.append("contains-whole-hull")
        if hi[0] < min(xs) or lo[0] > max(xs) or hi[1] < min(ys) or lo[1] > max(ys):
            tags.append("disjoint-from-bbox")
        if any(onb(p) for p in V):
            tags.append("touches-vertex")
        # a rectangle corner exactly on an edge / an edge collinear with a side
        corners = [lo, (lo[0], hi[1]), hi, (hi[0], lo[1])]
        touch_edge = False
        for k in range(s["ne"]):
            a, b = V[s["E"][2 * k][3]], V[s["E"][2 * k + 1][3]]
            for q in corners:
                if orient(a, b, q) == 0 and min(a[0], b[0]) <= q[0] <= max(a[0], b[0]) and min(a[1], b[1]) <= q[1] <= max(a[1], b[1]) and q != a and q != b:
                    touch_edge = True
            if (a[0] == b[0] and a[0] in (lo[0], hi[0])) or (a[1] == b[1] and a[1] in (lo[1], hi[1])):
                touch_edge = True
        if touch_edge:
            tags.append("touches-edge")
    else:
        c = (Fraction(f64(args[0])), Fraction(f64(args[1]))); r2 = Fraction(f64(args[2]))
        tags.append("shape:zero-radius" if r2 == 0 else "shape:proper")
        d2 = lambda p: (p[0] - c[0]) ** 2 + (p[1] - c[1]) ** 2
        if all(d2(p) <= r2 for p in V):
            tags.append("contains-whole-hull")
        if any(d2(p) == r2 for p in V):
            tags.append("touches-vertex")
        for k in range(s["ne"]):
            a, b = V[s["E"][2 * k][3]], V[s["E"][2 * k + 1][3]]
            l2 = (a[0] - b[0]) ** 2 + (a[1] - b[1]) ** 2
            t = (b[0] - a[0]) * (c[0] - a[0]) + (b[1] - a[1]) * (c[1] - a[1])
            if 0 < t < l2 and orient(a, b, c) ** 2 == r2 * l2:
                tags.append("touches-edge")
                break
    if s["nf"] > 1:
        # start point relative to the hull
        out = any(orient(V[s["E"][e][3]], V[s["E"][e ^ 1][3]], c) > 0 for e in hull(s))
        onh = any(orient(V[s["E"][e][3]], V[s["E"][e ^ 1][3]], c) == 0 for e in hull(s))
        tags.append("start:outside-hull" if out else ("start:on-hull" if onh else "start:inside-hull"))
        if c in V:
            tags.append("start:on-vertex")
    tags.append("result:empty" if nres == 0 else "result:nonempty")
    return tags

def process(path):
    cases = {}
    cur = None; st = None; ops = None
    for line in open(path, errors="replace"):
        t = line.split()
        if not t:
            continue
        if t[0] == "C":
            cur = t[1]; st = None; ops = {}; cases[cur] = ops
        elif t[0] == "O":
            k = int(t[1]); name = t[2]
            if name in QOPS:
                ops[k] = [name, t[3:], st, None]
            lastk = k
        elif t[0] == "R":
            if lastk in ops and ops[lastk][3] is None:
                ops[lastk][3] = t[1:]
        elif t[0] == "S":
            try:
                st = parse_state(t)
            except Exception:
                st = None
    env = dict(os.environ, CHK_PASSES="1")
    out = subprocess.run([CHKM], stdin=open(path), capture_output=True, text=True, env=env).stdout
    res = collections.Counter(); fails = []
    judged = set()
    for line in out.splitlines():
        t = line.split()
        if len(t) >= 4 and t[0] in ("P", "F") and t[3] == "corr":
            cid, k = t[1], int(t[2])
            o = cases.get(cid, {}).get(k)
            if o is None:
                continue
            judged.add((cid, k))
            r = o[3] or []
            nres = int(r[0]) if r and r[0].isdigit() else 0
            for tag in classify(o[2], o[0], o[1], nres):
                res[(tag, t[0])] += 1
            res[("ALL", t[0])] += 1
            if t[0] == "F":
                fails.append((path, cid, k, o[0]))
    for cid, ops in cases.items():
        for k, o in ops.items():
            if (cid, k) not in judged:
                r = o[3] or []
                res[("NOT-JUDGED " + o[0] + (" (" + r[0] + ")" if r and not r[0].isdigit() else ""), "P")] += 0
                res[("NOT-JUDGED " + o[0] + (" (" + r[0] + ")" if r and not r[0].isdigit() else ""), "N")] += 1
    return res, fails

def main():
    files = []
    for d in sys.argv[1:]:
        files += sorted(glob.glob(os.path.join(d, "shard*.out")))
    tot = collections.Counter(); fails = []
    with ThreadPoolExecutor(8) as ex:
        for res, f in ex.map(process, files):
            tot.update(res); fails += f
    tags = sorted(set(t for (t, _) in tot))
    print("%-40s %8s %8s" % ("class", "pass", "fail"))
    for t in tags:
        if t.startswith("NOT-JUDGED"):
            print("%-40s %8d (no corr verdict)" % (t, tot[(t, "N")]))
        else:
            print("%-40s %8d %8d" % (t, tot[(t, "P")], tot[(t, "F")]))
    for f in fails[:20]:
        print("FAIL", *f)

if __name__ == "__main__":
    main()
