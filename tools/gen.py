"""Case generators. Every random choice derives from one splitmix64 state (VERIF_SEED)."""
import struct, math

MASK = (1 << 64) - 1

class Rng:
    def __init__(self, seed):
        self.s = seed & MASK
    def next(self):
        self.s = (self.s + 0x9E3779B97F4A7C15) & MASK
        z = self.s
        z = ((z ^ (z >> 30)) * 0xBF58476D1CE4E5B9) & MASK
        z = ((z ^ (z >> 27)) * 0x94D049BB133111EB) & MASK
        return z ^ (z >> 31)
    def below(self, n):
        return self.next() % n
    def range(self, a, b):          # inclusive
        return a + self.below(b - a + 1)
    def chance(self, p):
        return (self.next() >> 11) / float(1 << 53) < p
    def choice(self, l):
        return l[self.below(len(l))]
    def weighted(self, pairs):
        tot = sum(w for _, w in pairs)
        x = self.below(tot)
        for v, w in pairs:
            if x < w:
                return v
            x -= w
    def shuffle(self, l):
        for i in range(len(l) - 1, 0, -1):
            j = self.below(i + 1)
            l[i], l[j] = l[j], l[i]

def bits(x):
    return struct.unpack('<Q', struct.pack('<d', x))[0]
def from_bits(b):
    return struct.unpack('<d', struct.pack('<Q', b & MASK))[0]
def f32_bits(x):
    return struct.unpack('<I', struct.pack('<f', x))[0]
def f32_from_bits(b):
    return struct.unpack('<f', struct.pack('<I', b & 0xFFFFFFFF))[0]
def is_f32(x):
    if x != x or x in (float('inf'), float('-inf')):
        return True
    try:
        return struct.unpack('<f', struct.pack('<f', x))[0] == x
    except OverflowError:
        return False
def ulp_step(x, k, f32=False):
    """move x by k representable steps of the scalar type"""
    if f32:
        b = f32_bits(x)
        # monotone integer mapping of IEEE bits
        i = b if b < 0x80000000 else 0x80000000 - b
        i += k
        b = i if i >= 0 else 0x80000000 - i
        return f32_from_bits(b)
    for _ in range(abs(k)):
        x = math.nextafter(x, math.inf if k > 0 else -math.inf)
    return x

HINTS = ["last", "h16", "h2", "h3"]

class Case:
    def __init__(self, cid, kind, scalar, hint):
        self.cid, self.kind, self.scalar, self.hint = cid, kind, scalar, hint
        self.ops = []
        self.meta = {}
    def add(self, *toks):
        self.ops.append(" ".join(str(t) for t in toks))
    def ins(self, x, y, d):
        self.add("ins", bits(x), bits(y), d)
    def text(self):
        return "C %s %s %s %s\n%s\n" % (self.cid, self.kind, self.scalar, self.hint, "\n".join(self.ops))

# ------------------------------------------------------------------ point sources
def grid_point(r, g):
    return (float(r.range(-g, g)), float(r.range(-g, g)))

PYTH = [(3, 4, 5), (5, 12, 13), (8, 15, 17), (7, 24, 25), (20, 21, 29)]
def circle_points(r):
    """integer points exactly on one circle centred at the origin (+ optional shift)"""
    a, b, c = r.choice(PYTH)
    pts = set()
    for (x, y) in [(a, b), (b, a), (c, 0), (0, c)]:
        for sx in (1, -1):
            for sy in (1, -1):
                pts.add((sx * x, sy * y))
    pts = sorted(pts)
    r.shuffle(pts)
    sh = (r.range(-3, 3), r.range(-3, 3))
    k = r.choice([0, 0, 1, -1, 10, -10])
    sc = 2.0 ** k
    return [((x + sh[0]) * sc, (y + sh[1]) * sc) for x, y in pts]

def point_cloud(r, n, style, f32=False):
    """n points (duplicates/collinear/cocircular on purpose)"""
    pts = []
    if style == 'grid':
        g = r.choice([1, 2, 2, 3, 3, 5, 9])
        pts = [grid_point(r, g) for _ in range(n)]
    elif style == 'circle':
        cp = circle_points(r)
        pts = cp[:n]
        while len(pts) < n:
            pts.append(r.choice(cp) if r.chance(0.3) else (float(r.range(-6, 6)), float(r.range(-6, 6))))
        r.shuffle(pts)
    elif style == 'line':
        dx, dy = r.choice([(1, 0), (0, 1), (1, 1), (2, 1), (1, -3)])
        ox, oy = r.range(-3, 3), r.range(-3, 3)
        for _ in range(n):
            t = r.range(-6, 6)
            if r.chance(0.12):
                pts.append((float(ox + dx * t + r.choice([-1, 1])), float(oy + dy * t)))   # leaves the line
            else:
                pts.append((float(ox + dx * t), float(oy + dy * t)))
    elif style == 'ulp':
        base = point_cloud(r, n, r.choice(['grid', 'circle']), f32)
        for (x, y) in base:
            if r.chance(0.4):
                x = ulp_step(x if x != 0 else 1.0, r.range(-3, 3), f32)
            if r.chance(0.4):
                y = ulp_step(y if y != 0 else 1.0, r.range(-3, 3), f32)
            pts.append((x, y))
    elif style == 'mag':
        # coordinates m * 2^e with extreme exponents (kept within the valid range)
        lo, hi = (-120, 120) if f32 else (-142, 195)
        e0 = r.choice([lo, hi - 6, 0, r.range(lo, hi - 6)])
        mixed = r.chance(0.3)
        for _ in range(n):
            e = e0 if not mixed else r.choice([lo, hi - 6, 0])
            pts.append((r.range(-9, 9) * 2.0 ** e, r.range(-9, 9) * 2.0 ** e))
    elif style == 'cluster':
        cx, cy = r.range(-50, 50), r.range(-50, 50)
        for _ in range(n):
            if r.chance(0.7):
                pts.append((float(cx + r.range(-1, 1)), float(cy + r.range(-1, 1))))
            else:
                pts.append((float(r.range(-60, 60)), float(r.range(-60, 60))))
    elif style == 'ray':
        # many points at the same pseudo-angle from the centre
        dx, dy = r.choice([(1, 0), (1, 1), (0, 1), (-1, 2), (3, -1)])
        for _ in range(n):
            if r.chance(0.6):
                t = r.range(1, 12)
                pts.append((float(dx * t), float(dy * t)))
            else:
                pts.append((float(r.range(-8, 8)), float(r.range(-8, 8))))
    elif style == 'bigcol':
        # large integer coordinates with nearly collinear triples: exact determinants of +-1..few while the
        # floating-point evaluation of the same determinant rounds to 0 or to the wrong sign
        sh = r.choice([20, 24]) if f32 else r.choice([27, 30, 31, 40])
        dx, dy = r.range(1, 1 << 10) | 1, r.range(1, 1 << 10) | 1
        bx, by = r.range(-(1 << sh), 1 << sh), r.range(-(1 << sh), 1 << sh)
        scale = 1 << max(0, sh - 12)
        for _ in range(n):
            t = r.range(-8, 8) * scale + r.range(-3, 3)
            x, y = bx + t * dx, by + t * dy
            k = r.below(5)
            if k == 0:
                x += r.choice([-1, 1])
            elif k == 1:
                y += r.choice([-1, 1])
            elif k == 2:
                x, y = x + r.range(-(1 << sh), 1 << sh) // 4, y + r.range(-(1 << sh), 1 << sh) // 4
            pts.append((float(x), float(y)))
    elif style == 'unimod':
        # chains of long lattice vectors with cross product exactly +-1 (columns of a random unimodular matrix):
        # consecutive points are collinear up to the smallest possible exact determinant while every coordinate
        # product exceeds the mantissa -- inexact orientation / in-circle evaluations get these wrong
        lim = (1 << 10) if f32 else (1 << r.choice([20, 28, 30]))
        a, b, c_, d_ = 1, 0, 0, 1
        while max(abs(a), abs(b), abs(c_), abs(d_)) < lim // 8:
            k = r.range(1, 6)
            if r.chance(0.5):
                a, b = a + k * c_, b + k * d_
            else:
                c_, d_ = c_ + k * a, d_ + k * b
        v1, v2 = (a, c_), (b, d_)           # cross(v1, v2) = a*d_ - b*c_ = 1
        if r.chance(0.5):
            v1, v2 = v2, v1                  # cross = -1
        ox, oy = r.range(-lim // 4, lim // 4), r.range(-lim // 4, lim // 4)
        A = (ox - v1[0], oy - v1[1]); B = (ox, oy); C = (ox + v2[0], oy + v2[1])
        chain = [A, B, C, (C[0] + v1[0], C[1] + v1[1])]
        pts = [(float(x), float(y)) for x, y in chain[:max(3, min(n, 4))]]
        # the rest: points on either side, far and near
        nx, ny = -(v1[1] + v2[1]), (v1[0] + v2[0])      # a normal direction
        while len(pts) < n:
            k = r.below(4)
            if k == 0:
                t = r.choice([-1, 1]) * r.range(1, 4)
                pts.append((float(ox + t * nx // 2), float(oy + t * ny // 2)))
            elif k == 1:
                pts.append((float(ox + r.range(-lim // 8, lim // 8)), float(oy + r.range(-lim // 8, lim // 8))))
            elif k == 2:
                t = r.choice([-1, 1])
                pts.append((float(ox + t * nx + r.range(-3, 3)), float(oy + t * ny + r.range(-3, 3))))
            else:
                p0 = r.choice(chain)
                pts.append((float(p0[0] + r.range(-1, 1)), float(p0[1] + r.range(-1, 1))))
        if r.chance(0.5):
            r.shuffle(pts)
    elif style == 'bigcircle':
        # integer points next to a circle of large radius: nearly cocircular quadruples, edges that are nearly diameters,
        # coordinate products far beyond the mantissa
        import math
        R = float(1 << (r.choice([10, 11]) if f32 else r.choice([26, 27, 30])))
        cx, cy = r.range(-5, 5), r.range(-5, 5)
        base = r.range(0, 359)
        for _ in range(n):
            k = r.below(6)
            ang = math.radians(base + r.choice([0, 90, 180, 270, 45, 135]) + r.range(-3, 3) + r.range(0, 1000) / 1000.0)
            if k == 0:
                pts.append((float(cx + r.range(-3, 3)), float(cy + r.range(-3, 3))))
            else:
                pts.append((float(cx + round(R * math.cos(ang)) + r.range(-1, 1)), float(cy + round(R * math.sin(ang)) + r.range(-1, 1))))
    else:
        raise ValueError(style)
    if f32:
        pts = [(struct.unpack('<f', struct.pack('<f', x))[0], struct.unpack('<f', struct.pack('<f', y))[0]) for x, y in pts]
    return pts

STYLES = [('grid', 36), ('circle', 18), ('line', 8), ('ulp', 12), ('mag', 8), ('cluster', 5), ('ray', 5), ('bigcol', 6), ('unimod', 10), ('bigcircle', 8)]

def pick_cfg(r, kinds=("dt", "cdt"), f32_share=0.2):
    kind = r.choice(list(kinds))
    scalar = "f32" if r.chance(f32_share) else "f64"
    hint = r.weighted([("last", 4), ("h16", 2), ("h2", 2), ("h3", 2)])
    return kind, scalar, hint

# ------------------------------------------------------------------ invalid coordinate stream (C08)
def special_values():
    vals = []
    for e in range(0, 2048):
        for m in (0, 1, (1 << 52) - 1):
            for s in (0, 1):
                vals.append((s << 63) | (e << 52) | m)
    mn, mx = bits(2.0 ** -142), bits(2.0 ** 201)
    for b in (mn, mx):
        for k in (-2, -1, 0, 1, 2):
            vals.append(b + k)
            vals.append((b + k) | (1 << 63))
    vals += [0x7ff8000000000001, 0x7ff0000000000001, 0xfff8000000000000, 0x7fffffffffffffff, 1, 2, (1 << 52) - 1]
    # every f32 exponent, widened
    for e in range(0, 256):
        for m in (0, 1, (1 << 23) - 1):
            for s in (0, 1):
                x = f32_from_bits((s << 31) | (e << 23) | m)
                if x == x:
                    vals.append(bits(x))
    return vals

INVALID = None
def invalid_value(r):
    """a bit pattern that is usually invalid or right at a limit"""
    global INVALID
    if INVALID is None:
        mn, mx = bits(2.0 ** -142), bits(2.0 ** 201)
        INVALID = [0x7ff8000000000000, 0xfff8000000000000, 0x7ff0000000000000, 0xfff0000000000000,
                   0x7ff0000000000001, 1, (1 << 63) | 1, mn - 1, mn, mn + 1, mx - 1, mx, mx + 1,
                   (mn - 1) | (1 << 63), (mx + 1) | (1 << 63), bits(1e-50), bits(1e70), bits(-1e-300), bits(-1e300),
                   0x8000000000000000]
    return r.choice(INVALID)

# ------------------------------------------------------------------ generic histories
def history(r, cid, kinds=("dt", "cdt"), max_ops=14, max_pts=12, f32_share=0.2, styles=None,
            w_ins=60, w_rm=14, w_lrm=5, w_insh=8, w_trm=3, w_clear=1, w_clone=1, w_dupe=10, w_invalid=0,
            w_addc=0, w_rmc=0, w_split=0, w_tryc=0, w_adde=0, force_kind=None, p_bulk=0.3, w_insmid=0):
    kind, scalar, hint = pick_cfg(r, kinds, f32_share)
    if force_kind:
        kind = force_kind
    f32 = scalar == "f32"
    style = r.weighted(styles or STYLES)
    c = Case(cid, kind, scalar, hint)
    n_ops = r.range(3, max_ops)
    pool = point_cloud(r, max_pts, style, f32)
    c.meta = {"style": style, "kind": kind, "scalar": scalar, "hint": hint}
    inserted = []
    d = 1
    if r.chance(p_bulk):
        # start from a bulk load (all four loaders)
        k = r.range(1, max_pts)
        sub = [r.choice(pool) for _ in range(k)] if r.chance(0.5) else pool[:k]
        toks = []
        for (x, y) in sub:
            toks += [bits(x), bits(y), d]
            d += 1
        stable = r.chance(0.5)
        if kind == "cdt" and r.chance(0.6):
            m = r.range(0, 4)
            es = []
            for _ in range(m):
                es += [r.below(k), r.below(k)]
            c.add("bulkcs" if stable else "bulkc", k, *toks, m, *es)
        else:
            c.add("bulks" if stable else "bulk", k, *toks)
        inserted += sub
    for _ in range(n_ops):
        ws = [("ins", w_ins), ("rm", w_rm), ("lrm", w_lrm), ("insh", w_insh), ("trm", w_trm), ("clear", w_clear),
              ("clone", w_clone), ("dupe", w_dupe), ("invalid", w_invalid), ("insmid", w_insmid)]
        if kind == "cdt":
            ws += [("addc", w_addc), ("rmc", w_rmc), ("split", w_split), ("tryc", w_tryc), ("adde", w_adde)]
        ws = [(a, b) for a, b in ws if b > 0]
        op = r.weighted(ws)
        if op in ("ins", "insh"):
            x, y = r.choice(pool)
            if op == "ins":
                c.ins(x, y, d)
            else:
                c.add("insh", bits(x), bits(y), d, ("V%d" % r.range(0, 40)) if r.chance(0.15) else ("v%d" % r.below(64)))
            inserted.append((x, y))
            d += 1
        elif op == "dupe" and inserted:
            x, y = r.choice(inserted)
            if r.chance(0.3) and x == 0.0:
                x = -0.0
            c.ins(x, y, d)
            d += 1
        elif op == "insmid":
            c.add("insmid", "e%d" % r.below(256), d)
            d += 1
        elif op in ("rm", "trm"):
            c.add(op, "v%d" % r.below(64))
        elif op == "lrm":
            x, y = r.choice(inserted) if inserted and r.chance(0.7) else r.choice(pool)
            c.add("lrm", bits(x), bits(y))
        elif op in ("clear", "clone"):
            c.add(op)
        elif op == "invalid":
            x, y = r.choice(pool)
            bad = invalid_value(r)
            k = r.below(10)
            if k >= 7 and c.kind == "cdt":
                # add_constraint_edge(s) with one or several invalid vertices (of different classes): the first in input order decides
                (x2, y2) = r.choice(pool)
                bad2 = invalid_value(r)
                v1 = [bad, bits(y), d] if r.chance(0.6) else [bits(x), bits(y), d]
                v2 = [bits(x2), bad2, d + 1] if (r.chance(0.7) or v1[0] != bad) else [bits(x2), bits(y2), d + 1]
                if k == 7:
                    c.add("adde", *(v1 + v2))
                else:
                    (x3, y3) = r.choice(pool)
                    c.add("addes", 3, r.below(2), *([bits(x3), bits(y3), d + 2] + v1 + v2))
                d += 3
            elif k >= 4:
                c.add("insh", *([bad, bits(y)] if r.chance(0.5) else [bits(x), bad]), d, "v%d" % r.below(64))
                d += 1
            else:
                if r.chance(0.5):
                    c.add("ins", bad, bits(y), d)
                else:
                    c.add("ins", bits(x), bad, d)
                d += 1
        elif op in ("addc", "tryc", "split"):
            c.add(op, "v%d" % r.below(64), "v%d" % r.below(64))
        elif op == "rmc":
            c.add("rmc", "e%d" % r.below(128))
        elif op == "adde":
            (x1, y1), (x2, y2) = r.choice(pool), r.choice(pool)
            c.add("adde", bits(x1), bits(y1), d, bits(x2), bits(y2), d + 1)
            d += 2
    return c
