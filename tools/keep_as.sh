#!/bin/sh
# keep_as.sh <seed-dir> <new-name> <property> "<needs>" "<detect>"
S=$(realpath "$1"); rm -rf /tmp/seed-out/$2; cp -r $S /tmp/seed-out/$2
/verif/tools/keep_seed.sh /tmp/seed-out/$2 "$3" "$4" "demo-clean-exit=0 demo-mutant-exit=1 185 passed" "$5"
rm -rf /tmp/seed-out/$2
