#!/bin/sh
# keep_seed.sh <seed-dir> <property> "<what it needs to manifest>" "<confirm line>" "<detection line>"
D=$(realpath "$1"); N=$(basename "$D"); mkdir -p /verif/seeded/$N
cp "$D/patch.diff" /verif/seeded/$N/; cp -r "$D/demo" /verif/seeded/$N/; cp "$D/notes.md" /verif/seeded/$N/ 2>/dev/null
python3 - "$N" "$2" "$3" "$4" "$5" <<'PY'
import json,sys
n,prop,needs,confirm,detect=sys.argv[1:6]
json.dump({"seed":n,"breaks_property":prop,"needs_to_manifest":needs,"confirmed_by":"tools/confirm_seed.sh (scratch worktree: patch applies, 185 lib tests pass with it, demo PASS without / FAIL with)","confirm_result":confirm,"detected_by":detect},open('/verif/seeded/%s/meta.json'%n,'w'),indent=1)
PY
