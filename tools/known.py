"""Class predicates of the known findings listed in /verif/known_findings.json.
Each takes (shrunk case, failing tag, event line or None) and says whether the failure belongs to the class."""
KNOWN_CLASSES = {}
