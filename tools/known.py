"""Class predicates of the known findings listed in /verif/known_findings.json.
Each takes (shrunk case, failing tag, event line or None) and says whether the failure belongs to the class."""
from fractions import Fraction
import gen

STATE_TAGS = {"geo", "delaunay", "wf", "hull_iter", "cdtlocal", "dt_when_free", "bulk_equiv", "bulk_edges"}

def _bulk_points(op):
    t = op.split()
    if t[0] not in ("bulk", "bulks", "bulkc", "bulkcs"):
        return None
    n = int(t[1])
    pts = []
    for k in range(n):
        x, y = gen.from_bits(int(t[2 + 3 * k])), gen.from_bits(int(t[3 + 3 * k]))
        if x != x or y != y or abs(x) == float("inf") or abs(y) == float("inf"):
            return None
        pts.append((Fraction(x), Fraction(y)))
    return pts

def thin_large(pts):
    """nearly collinear at large magnitude: relative width of the point set below 1e-6 and a coordinate above 2^20"""
    if len(pts) < 4 or max(max(abs(x), abs(y)) for x, y in pts) < 2 ** 20:
        return False
    a = min(pts); c = max(pts)
    l2 = (c[0] - a[0]) ** 2 + (c[1] - a[1]) ** 2
    if l2 == 0:
        return False
    w = max(abs((c[0] - a[0]) * (p[1] - a[1]) - (c[1] - a[1]) * (p[0] - a[0])) for p in pts)
    return w * w < l2 * l2 * Fraction(1, 10 ** 12) and w > 0

def bulk_thin_large(case, tag, event):
    if tag not in STATE_TAGS:
        return False
    for op in case.ops:
        pts = _bulk_points(op)
        if pts and thin_large(pts):
            return True
    return False

KNOWN_CLASSES = {"bulk_thin_large": bulk_thin_large}
