"""Class predicates of the known findings listed in /verif/known_findings.json.
Each takes (shrunk case, failing tag, event line or None) and says whether the failure belongs to the class."""
from fractions import Fraction
import gen

STATE_TAGS = {"geo", "delaunay", "wf", "hull_iter", "cdtlocal", "dt_when_free", "bulk_equiv", "bulk_edges"}

def _bulk_points(op):
    t = op.split()
    if t[0] not in ("bulk", "bulks", "bulkc", "bulkcs"):
        return None
    n = int(t[1])
    pts = []
    for k in range(n):
        x, y = gen.from_bits(int(t[2 + 3 * k])), gen.from_bits(int(t[3 + 3 * k]))
        if x != x or y != y or abs(x) == float("inf") or abs(y) == float("inf"):
            return None
        pts.append((Fraction(x), Fraction(y)))
    return pts

def thin_large(pts):
    """nearly collinear at large magnitude: relative width of the point set below 1e-6 and a coordinate above 2^20"""
    if len(pts) < 4 or max(max(abs(x), abs(y)) for x, y in pts) < 2 ** 20:
        return False
    a = min(pts); c = max(pts)
    l2 = (c[0] - a[0]) ** 2 + (c[1] - a[1]) ** 2
    if l2 == 0:
        return False
    w = max(abs((c[0] - a[0]) * (p[1] - a[1]) - (c[1] - a[1]) * (p[0] - a[0])) for p in pts)
    return w * w < l2 * l2 * Fraction(1, 10 ** 12) and w > 0

def bulk_thin_large(case, tag, event):
    if tag not in STATE_TAGS:
        return False
    for op in case.ops:
        pts = _bulk_points(op)
        if pts and thin_large(pts):
            return True
    return False

KNOWN_CLASSES = {"bulk_thin_large": bulk_thin_large}

import subprocess, os
HARNESS = "/verif/.cache/target/debug/spade-verif-harness"

def _run(case):
    path = "/verif/.cache/known_probe.case"
    with open(path, "w") as f:
        f.write(case.text())
    try:
        return subprocess.run([HARNESS, path, "4000"], capture_output=True, text=True, timeout=120).stdout
    except Exception:
        return ""

def _states(out):
    """yields (op line tokens, result tokens, vertex list [(xbits, ybits, data)]) per step"""
    op, res, verts = None, None, []
    steps = []
    for line in out.splitlines():
        t = line.split()
        if not t:
            continue
        if t[0] == "O":
            op, res = t, None
        elif t[0] == "R":
            res = t
            steps.append([op, res, None])
        elif t[0] == "S" and len(t) > 8 and steps:
            nv = int(t[1])
            i = t.index("V") + 1
            vs = [(t[i + 4 * k], t[i + 4 * k + 1], t[i + 4 * k + 2]) for k in range(nv)]
            steps[-1][2] = vs
    return steps

def split_repeated(case, tag, event):
    """add_constraint_and_split between two positions that were already connected by an earlier add_constraint_and_split which
    created a (rounded) split vertex: the second call re-splits next to the old split vertex and constraints get lost"""
    if tag not in ("split", "ncons", "noncross", "segspec", "geo", "wf", "cdtlocal"):
        return False
    steps = _states(_run(case))
    seen = []          # (frozenset of end point positions, created_split_vertex)
    verts = []
    for op, res, vs in steps:
        if op and len(op) > 4 and op[2] == "split" and op[3].startswith("V") and verts:
            a, b = int(op[3][1:]), int(op[4][1:])
            if a < len(verts) and b < len(verts):
                key = frozenset([verts[a][:2], verts[b][:2]])
                created = vs is not None and any(v[2] == "888000" for v in vs[len(verts):])
                for (k2, c2) in seen:
                    if k2 == key and c2:
                        return True
                seen.append((key, created))
        if vs is not None:
            verts = vs
    return False

KNOWN_CLASSES["split_repeated"] = split_repeated
