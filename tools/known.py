"""Class predicates of the known findings listed in /verif/known_findings.json.
Each takes (shrunk case, failing tag, event line or None) and says whether the failure belongs to the class."""
from fractions import Fraction
import gen

STATE_TAGS = {"geo", "delaunay", "wf", "hull_iter", "cdtlocal", "dt_when_free", "bulk_equiv", "bulk_edges"}

def _bulk_points(op):
    t = op.split()
    if t[0] not in ("bulk", "bulks", "bulkc", "bulkcs"):
        return None
    n = int(t[1])
    pts = []
    for k in range(n):
        x, y = gen.from_bits(int(t[2 + 3 * k])), gen.from_bits(int(t[3 + 3 * k]))
        if x != x or y != y or abs(x) == float("inf") or abs(y) == float("inf"):
            return None
        pts.append((Fraction(x), Fraction(y)))
    return pts

def thin_large(pts):
    """nearly collinear at large magnitude: relative width of the point set below 1e-6 and a coordinate above 2^20"""
    if len(pts) < 4 or max(max(abs(x), abs(y)) for x, y in pts) < 2 ** 20:
        return False
    a = min(pts); c = max(pts)
    l2 = (c[0] - a[0]) ** 2 + (c[1] - a[1]) ** 2
    if l2 == 0:
        return False
    w = max(abs((c[0] - a[0]) * (p[1] - a[1]) - (c[1] - a[1]) * (p[0] - a[0])) for p in pts)
    return w * w < l2 * l2 * Fraction(1, 10 ** 12) and w > 0

def bulk_thin_large(case, tag, event):
    if tag not in STATE_TAGS:
        return False
    for op in case.ops:
        pts = _bulk_points(op)
        if pts and thin_large(pts):
            return True
    return False

KNOWN_CLASSES = {"bulk_thin_large": bulk_thin_large}

import subprocess, os
HARNESS = "/verif/.cache/target/debug/spade-verif-harness"

def _run(case):
    path = "/verif/.cache/known_probe.case"
    with open(path, "w") as f:
        f.write(case.text())
    try:
        return subprocess.run([HARNESS, path, "4000"], capture_output=True, text=True, timeout=120).stdout
    except Exception:
        return ""

def _states(out):
    """yields (op line tokens, result tokens, vertex list [(xbits, ybits, data)]) per step"""
    op, res, verts = None, None, []
    steps = []
    for line in out.splitlines():
        t = line.split()
        if not t:
            continue
        if t[0] == "O":
            op, res = t, None
        elif t[0] == "R":
            res = t
            steps.append([op, res, None])
        elif t[0] == "S" and len(t) > 8 and steps:
            nv = int(t[1])
            i = t.index("V") + 1
            vs = [(t[i + 4 * k], t[i + 4 * k + 1], t[i + 4 * k + 2]) for k in range(nv)]
            steps[-1][2] = vs
    return steps

def split_repeated(case, tag, event):
    """add_constraint_and_split between two positions that were already connected by an earlier add_constraint_and_split which
    created a (rounded) split vertex: the second call re-splits next to the old split vertex and constraints get lost"""
    if tag not in ("split", "ncons", "noncross", "segspec", "geo", "wf", "cdtlocal", "panic", "hang", "remove", "remove_cons"):
        return False
    steps = _states(_run(case))
    seen = []          # (frozenset of end point positions, created_split_vertex)
    verts = []
    for op, res, vs in steps:
        if op and len(op) > 4 and op[2] == "split" and op[3].startswith("V") and verts:
            a, b = int(op[3][1:]), int(op[4][1:])
            if a < len(verts) and b < len(verts):
                key = frozenset([verts[a][:2], verts[b][:2]])
                new_vs = [v[:2] for v in vs[len(verts):] if v[2] == "888000"] if vs is not None else []
                created = bool(new_vs)
                for (k2, c2, on2) in seen:
                    # the same pair again, or a segment between two vertices of an earlier split chain (its end points and its rounded split
                    # vertices): the new segment runs along the rounded chain
                    if c2 and (k2 == key or key <= on2):
                        return True
                seen.append((key, created, frozenset(list(key) + new_vs)))
        if vs is not None:
            verts = vs
    return False

KNOWN_CLASSES["split_repeated"] = split_repeated

import struct
def _fb(tok):
    return Fraction(struct.unpack('<d', struct.pack('<Q', int(tok)))[0])

def _parse_state(t):
    nv, ne, nf = int(t[1]), int(t[2]), int(t[3])
    i = t.index("V") + 1
    V = [(_fb(t[i + 4 * k]), _fb(t[i + 4 * k + 1]), t[i + 4 * k + 2]) for k in range(nv)]
    i = t.index("E") + 1
    E = [tuple(int(x) for x in t[i + 4 * k:i + 4 * k + 4]) for k in range(2 * ne)]
    return nv, ne, nf, V, E

def steiner_hull_rounding(case, tag, event):
    """after refine / add_constraint_and_split a Steiner point placed on a convex-hull edge is only the rounded point of that edge:
    the outer face can have a dent of relative size < 3e-9 (f32: 1e-4) at such a vertex. Everything else (faces ccw, distinct positions) must hold."""
    if tag != "geo":
        return False
    if not any(o.split()[0] in ("refine", "split") for o in case.ops):
        return False
    out = _run(case)
    found = False
    for line in out.splitlines():
        t = line.split()
        if not t or t[0] != "S" or len(t) < 9 or "V" not in t:
            continue
        nv, ne, nf, V, E = _parse_state(t)
        if nf <= 1:
            continue
        P = [(x, y) for x, y, _ in V]
        if len(set(P)) != len(P):
            return False
        def orient(a, b, c):
            return (b[0] - a[0]) * (c[1] - a[1]) - (b[1] - a[1]) * (c[0] - a[0])
        for e in range(2 * ne):
            nx, pv, fc, og = E[e]
            if fc != 0:
                a, b, c = P[og], P[E[nx][3]], P[E[E[nx][0]][3]]
                if orient(a, b, c) <= 0:
                    return False
                continue
            a, b = P[og], P[E[e ^ 1][3]]
            for vi, p in enumerate(P):
                o = orient(a, b, p)
                if o > 0:
                    steiner = any(V[k][2] in ("777000", "888000") for k in (og, E[e ^ 1][3], vi))
                    l2 = (b[0] - a[0]) ** 2 + (b[1] - a[1]) ** 2
                    d2 = (p[0] - a[0]) ** 2 + (p[1] - a[1]) ** 2
                    if not steiner or o * o > Fraction(1, 10 ** (8 if case.scalar == 'f32' else 17)) * l2 * max(d2, l2):
                        return False
                    found = True
    return found

KNOWN_CLASSES["steiner_hull_rounding"] = steiner_hull_rounding

def _all_coords(case):
    out = []
    for op in case.ops:
        for tok in op.split()[1:]:
            if tok.isdigit() and len(tok) > 12:
                x = gen.from_bits(int(tok))
                if x == x and abs(x) != float("inf"):
                    out.append(abs(x))
    return out

def f32_underflow_line_iterator(case, tag, event):
    """f32 triangulations whose coordinate differences are so small that their products underflow in f32 arithmetic (|x| < 2^-63):
    the line iterator's inexact projections become 0 and it does not advance (can_add_constraint / add_constraint / bulk_load_cdt
    / LineIntersectionIterator never return)"""
    endless = tag == "hang" or (tag == "panic" and event is not None and "line_iterator_yields_without_end" in event)   # the harness stops an endless iterator itself
    if not endless or case.scalar != "f32":
        return False
    cs = [c for c in _all_coords(case) if c > 0]
    return bool(cs) and max(cs) < 2.0 ** -63

def split_fallback_assert(case, tag, event):
    """add_constraint_and_split panics in add_splitting_constraint_edge_fallback: assert_ne!(new_edges, Vec::new())"""
    return tag == "panic" and event is not None and "left_!=_right" in event and "failed___left:_[]" in event

KNOWN_CLASSES["f32_underflow_line_iterator"] = f32_underflow_line_iterator
KNOWN_CLASSES["split_fallback_assert"] = split_fallback_assert

def _coarse(case):
    """rounding error comparable to the feature size: the spacing of the scalar type at the largest coordinate is at least 1/16 of the
    smallest non-zero coordinate difference of the input"""
    cs = sorted(set(gen.from_bits(int(tok)) for op in case.ops for tok in op.split()[1:] if tok.isdigit() and len(tok) > 12))
    cs = [c for c in cs if c == c and abs(c) != float("inf")]
    if len(cs) < 2:
        return False
    diffs = [b - a for a, b in zip(cs, cs[1:]) if b > a]
    if not diffs:
        return False
    p = 24 if case.scalar == "f32" else 53
    # (M8) the admissible coordinates have a hole around zero: a split coordinate of magnitude below 2^-142 is rounded to zero by
    # mitigate_underflow_for_coordinate, an error of up to 2^-142 -- coarse when the coordinate differences are below 2^-138
    return max(abs(c) for c in cs) >= min(diffs) * 2.0 ** (p - 5) or min(diffs) <= 16 * 2.0 ** -142

def split_coarse_rounding(case, tag, event):
    """add_constraint_and_split where the spacing of the scalar type is comparable to the distances between the vertices: a split vertex is
    placed at the rounded intersection, and the piece from there to the next vertex then runs exactly through, or on the wrong side of, an
    existing vertex that was clear of the exact segment: a face of zero or negative area (geo), later debug assertions
    `is_ordered_ccw` in legalize_edge (panic), non-Delaunay free edges next to it (cdtlocal)."""
    if not any(o.split()[0] == "split" for o in case.ops):
        return False
    coarse = _coarse(case)
    # the same happens at any scale when the rounded split vertex is nearly collinear with existing vertices (a face of relative area ~1e-14 is
    # inverted by the rounding): the debug assertion in a `split`, and inverted faces with a split-created corner, are accepted without the
    # global coarseness condition; the verdicts without further evidence (dropped pieces) keep it
    if tag == "panic" and event is not None and "is_ordered_ccw" in event and case.ops[-1].split()[0] == "split":
        return True
    if tag in ("split", "segspec", "noncross", "ncons", "panic") and not coarse:
        return False
    if tag == "panic":
        # (M8) "Failed to locate position": point location of a LATER operation walks into the inverted face left by an earlier split
        return event is not None and ("is_ordered_ccw" in event or
                                      ("Failed_to_locate_position" in event and sum(1 for o in case.ops if o.split()[0] == "split") >= 2))
    if tag in ("split", "segspec", "noncross", "ncons"):
        # the piece of a crossed constraint behind a rounded split vertex is dropped when it would now cross another new piece
        return True
    if tag not in ("geo", "cdtlocal", "dt_when_free", "delaunay"):
        return False
    # a face that is not counter-clockwise must have a corner created by the split (payload 888000)
    out = _run(case)
    found = False
    for line in out.splitlines():
        t = line.split()
        if not t or t[0] != "S" or len(t) < 9 or "V" not in t:
            continue
        nv, ne, nf, V, E = _parse_state(t)
        P = [(x, y) for x, y, _ in V]
        def orient(a, b, c):
            return (b[0] - a[0]) * (c[1] - a[1]) - (b[1] - a[1]) * (c[0] - a[0])
        bad = set()
        for e in range(2 * ne):
            nx, pv, fc, og = E[e]
            if fc != 0:
                tri = (og, E[nx][3], E[E[nx][0]][3])
                if orient(P[tri[0]], P[tri[1]], P[tri[2]]) <= 0:
                    bad.add(frozenset(tri))
        # every degenerate face has a corner created by the split, or shares an edge with such a face (a rounded split vertex that lands on
        # the line through several existing vertices flattens a whole fan of faces)
        ok = {t for t in bad if any(V[k][2] == "888000" for k in t)}
        changed = True
        while changed:
            changed = False
            for t in bad - ok:
                if any(len(t & u) >= 2 for u in ok):
                    ok.add(t); changed = True
        if bad - ok:
            return False
        if bad:
            found = True
    return found

KNOWN_CLASSES["split_coarse_rounding"] = split_coarse_rounding

def line_end_near_vertex(case, tag, event):
    """a `line` query whose end point is within 4 representable steps (per coordinate) of a vertex position without being equal to it"""
    if tag not in ("lineiter", "admission"):
        return False
    import struct
    def key(b):
        b = int(b)
        return b if b < (1 << 63) else (1 << 63) - b      # monotone integer image of the IEEE bits
    verts = []
    for op in case.ops:
        t = op.split()
        if t[0] in ("ins", "insh"):
            verts.append((key(t[1]), key(t[2])))
    for op in case.ops:
        t = op.split()
        if t[0] in ("line", "confp", "isc") and len(t) >= 5:
            bx, by = key(t[3]), key(t[4])
            for (vx, vy) in verts:
                if (bx, by) != (vx, vy) and abs(bx - vx) <= 4 and abs(by - vy) <= 4:
                    return True
    return False

KNOWN_CLASSES["line_end_near_vertex"] = line_end_near_vertex

def subnormal_query(case, tag, event):
    """an interpolation query (nnw / bary) with a non-zero coordinate of magnitude below MIN_ALLOWED_VALUE = 2^-142 (a value that
    insert rejects as TooSmall, but that locate / get_weights accept without validation)"""
    if tag not in ("interp", "corr"):
        return False
    for op in case.ops:
        t = op.split()
        if t[0] in ("nnw", "bary") and len(t) >= 3:
            for tok in t[1:3]:
                x = gen.from_bits(int(tok))
                if x == x and 0.0 < abs(x) < 2.0 ** -142:
                    return True
    return False

KNOWN_CLASSES["subnormal_query"] = subnormal_query

def flood_coarse_rounding_hang(case, tag, event):
    """a rectangle / circle query that does not return, on inputs where the rounding error of the scalar type is comparable to the feature size
    (`_coarse`: the spacing at the largest coordinate or shape parameter is at least 1/16 of the smallest non-zero difference of two of them)"""
    if tag != "hang":
        return False
    if not case.ops or case.ops[-1].split()[0] not in ("vrect", "erect", "vcirc", "ecirc"):
        return False
    return _coarse(case)

KNOWN_CLASSES["flood_coarse_rounding_hang"] = flood_coarse_rounding_hang

def circle_square_overflow(case, tag, event):
    """a shape query on which a squared length overflows the scalar type: a circle query with a coordinate or the radius above ~1.8e19 (f32) /
    ~1.3e154 (f64), or a rectangle query on a triangulation with VERTEX coordinates above that bound (the collinear case of the rectangle metric
    projects with squared lengths): the metric compares infinities"""
    if tag != "shape" or not case.ops:
        return False
    op = case.ops[-1].split()[0]
    lim = 1.8e19 if case.scalar == "f32" else 1.3e154
    if op in ("vcirc", "ecirc"):
        vals = _all_coords(case)
        return bool(vals) and 2 * max(vals) > lim
    if op in ("vrect", "erect"):
        vs = []
        for o in case.ops:
            t = o.split()
            if t[0] in ("ins", "insh") or t[0].startswith("bulk") or t[0] in ("adde", "addes"):
                for tok in t[1:]:
                    if tok.isdigit() and len(tok) > 12:
                        x = gen.from_bits(int(tok))
                        if x == x and abs(x) != float("inf"):
                            vs.append(abs(x))
        return bool(vs) and 2 * max(vs) > lim
    return False

KNOWN_CLASSES["circle_square_overflow"] = circle_square_overflow

def refine_f32_locate_panic(case, tag, event):
    """refine() on an f32 triangulation panics with "Failed to locate position": the walk that locates a circumcentre does not terminate within its step limit"""
    return (tag == "panic" and event is not None and "Failed_to_locate_position" in event and case.scalar == "f32"
            and bool(case.ops) and case.ops[-1].split()[0] == "refine")

KNOWN_CLASSES["refine_f32_locate_panic"] = refine_f32_locate_panic

def nn_weights_nan_near_hull(case, tag, event):
    """NaturalNeighbor::get_weights returns NaN weights for a query strictly inside the convex hull but within a relative 1e-12 of a hull edge
    (the circumcentre of the query and the two hull vertices is astronomically far away; inf - inf in the area sums)"""
    if tag != "interp" or not case.ops or case.ops[-1].split()[0] != "nnw":
        return False
    out = _run(case)
    lines = out.splitlines()
    rl = [l for l in lines if l.startswith("R ")]
    sl = [l for l in lines if l.startswith("S ") and "V" in l.split()]
    if not rl or not sl:
        return False
    r = rl[-1].split()
    try:
        n = int(r[1])
        ws = [int(r[3 + 2 * k]) for k in range(n)]
    except Exception:
        return False
    def is_nan(b):
        return (b >> 52) & 0x7ff == 0x7ff and (b & ((1 << 52) - 1)) != 0
    if not any(is_nan(b) for b in ws):
        return False
    t = sl[-1].split()
    nv, ne, nf, V, E = _parse_state(t)
    q = case.ops[-1].split()
    qx, qy = _fb(q[1]), _fb(q[2])
    P = [(x, y) for x, y, _ in V]
    for e in range(2 * ne):
        nx, pv, fc, og = E[e]
        if fc != 0:
            continue
        a, b = P[og], P[E[e ^ 1][3]]
        o = (b[0] - a[0]) * (qy - a[1]) - (b[1] - a[1]) * (qx - a[0])
        l2 = (b[0] - a[0]) ** 2 + (b[1] - a[1]) ** 2
        d2 = (qx - a[0]) ** 2 + (qy - a[1]) ** 2
        if o != 0 and o * o <= Fraction(1, 10 ** 24) * l2 * max(d2, l2):
            return True
    return False

KNOWN_CLASSES["nn_weights_nan_near_hull"] = nn_weights_nan_near_hull

def bulk_load_mixed_magnitude_hang(case, tag, event):
    """a bulk loader that does not return on a point set mixing magnitudes more than 2^200 apart (e.g. 1e-42 and 1e57, all valid): the angular
    hull structure of the sweep (Hull::get) walks for ever"""
    if tag != "hang" or not case.ops:
        return False
    for op in case.ops:
        pts = _bulk_points(op) if op.split()[0].startswith("bulk") else None
        if pts:
            mags = [abs(v) for p in pts for v in p if v != 0]
            if mags and max(mags) / min(mags) > Fraction(2) ** 200:
                return True
    return False

KNOWN_CLASSES["bulk_load_mixed_magnitude_hang"] = bulk_load_mixed_magnitude_hang
