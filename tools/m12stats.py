#!/usr/bin/env python3
"""m12stats.py -- attribute the `corr` verdicts of the model checker (.cache/chkm) to the operation that was judged.

  python3 tools/m12stats.py .cache/run/C04 [more run dirs]

Reads the case files and harness outputs (shard*.case / shard*.out) of a ./verify run, re-runs chkm with CHK_PASSES=1 and reports per operation
name (as written in the CASE: `insmid` is echoed by the harness as `ins`) how many steps got a corr verdict and how many of them passed.
`ins`/`insh`/`insmid` steps are split by whether num_constraints grew (= the new vertex split a constraint edge: handle_legal_edge_split).
Only reporting: the judgement is the checker's."""
import sys, os, glob, subprocess, collections
from concurrent.futures import ThreadPoolExecutor

ROOT = os.path.dirname(os.path.dirname(os.path.abspath(__file__)))
CHKM = os.environ.get("M12_CHKM", os.path.join(ROOT, ".cache", "chkm"))

def one(of):
    res = subprocess.run(CHKM, stdin=open(of), stdout=subprocess.PIPE, env=dict(os.environ, CHK_PASSES="1"), text=True).stdout
    verd = {}
    for line in res.splitlines():
        t = line.split()
        if len(t) == 4 and t[0] in ("P", "F") and t[3] == "corr":
            verd.setdefault((t[1], int(t[2])), []).append(t[0] == "P")
    # op names as written in the case file
    names = {}
    cf = of[:-4] + ".case"
    cid, k = None, 0
    for line in open(cf, errors="replace"):
        t = line.split()
        if not t:
            continue
        if t[0] == "C":
            cid, k = t[1], 0
        else:
            names[(cid, k)] = t[0]
            k += 1
    stats = collections.Counter()
    cid, k, nc, pend = None, -1, 0, None
    def finish(after_nc):
        nonlocal pend
        if pend is None:
            return
        name, kk, r, before = pend
        pend = None
        vl = verd.get((cid, kk), [])
        ok = "pass" if (vl and all(vl)) else ("FAIL" if vl else "no-verdict")
        cname = names.get((cid, kk), name)
        stats[(cname, ok)] += 1
        if cname in ("ins", "insh", "insmid") and r and r[0] == "ok" and after_nc is not None:
            stats[(cname + (":split-a-constraint-edge" if after_nc > before else ":other"), ok)] += 1
        if cname == "rmc" and r and r[0] in ("0", "1"):
            stats[("rmc:returned-" + ("true" if r[0] == "1" else "false"), ok)] += 1
        if cname == "locv" and r:
            stats[("locv:" + r[0], ok)] += 1
    for line in open(of, errors="replace"):
        t = line.split()
        if not t:
            continue
        if t[0] == "C":
            finish(None)
            cid, k, nc = t[1], -1, 0
        elif t[0] == "O":
            finish(None)
            k = int(t[1])
            pend = [t[2], k, None, nc]
        elif t[0] == "R" and pend is not None:
            pend[2] = t[1:]
        elif t[0] == "S":
            if len(t) > 4 and t[1] != "broken":
                new_nc = int(t[4])
                finish(new_nc)
                nc = new_nc
            else:
                finish(None)
        elif t[0] == "X":
            finish(None)
    finish(None)
    return stats

def main():
    files = []
    for d in sys.argv[1:]:
        files += sorted(glob.glob(os.path.join(d, "shard*.out")))
    tot = collections.Counter()
    with ThreadPoolExecutor(max_workers=16) as ex:
        for st in ex.map(one, files):
            tot.update(st)
    keys = sorted(set(k for k, _ in tot))
    print("%-40s %8s %6s %10s" % ("operation (as in the case)", "pass", "FAIL", "no-verdict"))
    for k in keys:
        print("%-40s %8d %6d %10d" % (k, tot[(k, "pass")], tot[(k, "FAIL")], tot[(k, "no-verdict")]))

if __name__ == "__main__":
    main()
