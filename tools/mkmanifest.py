#!/usr/bin/env python3
"""Regenerates /verif/MANIFEST.json from the table below (claimed checks) + properties.jsonl (not_applicable for the rest)."""
import json, sys, os
ROOT = os.path.dirname(os.path.dirname(os.path.abspath(__file__)))
TRUST = ("Trusted: Coq 8.16.1 kernel; the translator tools/rs2v.py where the model is generated; extraction (ExtrOcamlBasic + ExtrOcamlZBigInt) "
         "and the OCaml/Rust/Python transport code; the harness reads the DCEL through spade's public handle API. ")
CLAIMS = {
 "C08": ("proof", "Rocq/Coq proof over a model translated from the Rust source on every run (rs2v) + differential run against the Coq-extracted specification",
         "validate_coordinate / validate_vertex / mitigate_underflow and both limits are re-translated from math.rs on every run and proved, for every binary64 value (Flocq), to implement exactly the documented classification; the run-time oracle is proved equal to that code. Atomic failure of insert and the first-invalid rule of the loaders are checked on the implementation (snapshot equality) over generated histories, not proved.",
         "Four Flocq/Reals library axioms (named in DESIGN.md section 7). f32->f64 widening assumed exact."),
 "C01": ("proof", "Coq: reflection proof of the empty-circumcircle checker + flip-decision lemmas; checker (extracted) decides Delaunay on every implementation state of generated histories",
         "PARTIAL proof. Proved for all inputs: the checker run on implementation states is exactly the property's statement (delaunay_b_spec); the Lawson flip decision is correct (flip yields ccw faces and a strictly legal edge, no flip is legal otherwise, symmetric test, argument order of robust::incircle). Not proved: preservation by whole insert/remove and the Delaunay lemma; the global statement is decided per observed state after every step of every generated history (degenerate-heavy generators, f32/f64, four hint generators, bulk loads).",
         "No axioms. Exactness of the robust crate is outside the repository."),
 "C02": ("proof", "Coq: reflection proof of the 10-clause DCEL well-formedness + geometry checkers; Wf preservation proofs over DCEL primitives GENERATED from dcel_operations.rs; checker on every implementation state",
         "PARTIAL proof. Proved: wf_b/geo clauses are exactly their declarative statements (link consistency, triangles, single outer orbit, vertex orbits, simplicity, Euler relation, size formulas); primitive-level preservation theorems over the translated primitives (see Props/C02.v for the list proved so far). Not proved: preservation by the whole public operations and the tiling clause; these are decided on every observed state (faces strictly ccw, hull contains all vertices, boundary vertices are hull vertices, area identity, degenerate chain).",
         "No axioms."),
 "C03": ("proof", "Coq: reflection proof of the constrained-Delaunay checker; checker on every implementation state of CDT histories",
         "PARTIAL proof: the checker is exactly the statement (cdtlocal_b_spec) and the flip lemmas of C01; preservation by the CDT operations is not proved and is decided per observed state.", "No axioms."),
 "C04": ("proof", "Coq: reflection proofs (non-crossing, counter); checker compares flags/counter on every implementation state",
         "PARTIAL proof: non-crossing and num_constraints = number of flagged edges are decided per observed state by checkers proved equal to their statements. The set-of-segments refinement is not yet proved.", "No axioms."),
 "C05": ("proof", "Coq: refinement proof (vertex array -> finite map) for all histories; index-exact comparison of vertex array / handles / payloads with the model after every operation",
         "Proved for all histories: insert of a fresh position appends at index = length and changes nothing else; insert of an existing position overwrites exactly that payload and returns its index; remove returns the stored data and moves only the last index into the freed slot; positions stay unique; lookup refines the abstract map. The implementation is tied to this model by index-exact comparison of the whole vertex array and every returned handle after every step (DT/CDT, all hint generators, all structural states).",
         "No axioms. The model is hand-written (Vmap/Model.v)."),
 "C14": ("proof", "Coq: proof that the hull iterator model enumerates the outer orbit once (any well-formed DCEL) and that the GENERATED convex_hull_size formula equals its length; geometric hull clauses decided per state",
         "Proved for every well-formed DCEL: the iterator terminates, yields each outer half-edge exactly once as a closed chain, and convex_hull_size() (translated from triangulation.rs) equals the number of yielded edges. Convexity / all vertices right-or-on / boundary vertices are end points are decided on each observed state by checkers proved equal to their statements; their maintenance by insertion/removal is not proved.",
         "No axioms."),
}
def main():
    props = [json.loads(l) for l in open(os.path.join(ROOT, "properties.jsonl"))]
    extra = json.load(open(os.path.join(ROOT, "tools", "claims_extra.json"))) if os.path.exists(os.path.join(ROOT, "tools", "claims_extra.json")) else {}
    claims = dict(CLAIMS)
    for k, v in extra.items():
        claims[k] = tuple(v)
    checks = []
    for p in props:
        pid = p["id"]
        if pid not in claims:
            continue
        cat, tech, text, note = claims[pid]
        checks.append({
            "property_id": pid, "quick_cmd": "./verify %s --tier quick" % pid, "thorough_cmd": "./verify %s --tier thorough" % pid,
            "evidence_file": "/verif/evidence/%s.json" % pid, "replay_cmd_template": "./verify %s --replay {path}" % pid,
            "engine": "coq-spadev", "technique": tech,
            "level_claimed": {"category": cat, "text": text, "design_ref": "DESIGN.md section 6 " + pid},
            "level_note": TRUST + note})
    na = [{"property_id": p["id"], "reason": "check under construction in this round; not yet claimed"} for p in props if p["id"] not in claims]
    m = {"version": 1, "setup_cmd": "./setup.sh",
         "hooks": {"guard": "spade_verif", "enable": "RUSTFLAGS=\"--cfg spade_verif\" (set by ./verify and ./setup.sh when they build the harness)",
                   "baseline_off_cmd": "cd /repo && cargo test --workspace --no-fail-fast --offline", "source_commits": ["c93721e", "6ab01eb"], "add_only": True},
         "engines": [{"name": "coq-spadev", "path": "/verif/coq", "serves_properties": sorted(claims),
                      "kind_free_text": "Coq 8.16 development (models, specifications, proofs) + translator tools/rs2v.py + extracted checker ocaml/ + Rust harness harness/ + driver ./verify"}],
         "checks": checks, "not_applicable": na,
         "notes": "See DESIGN.md. Known findings and fixed defects: known_findings.json. Seeded defects: seeded/."}
    json.dump(m, open(os.path.join(ROOT, "MANIFEST.json"), "w"), indent=1)
    print("claimed:", sorted(claims))
main()
