#!/usr/bin/env python3
"""M8: mutation test of the add_constraint_and_split model.  Each mutant is one textual change of Tri/AddSplit.v / Tri/AddSplitFloat.v applied
in a scratch copy of the Coq tree (.mut/coq); the checker is re-extracted and run over the harness outputs of an existing run directory.
usage: tools/mutate_split.py <run dir> [mutant names...]"""
import sys, os, subprocess, shutil
ROOT = os.path.dirname(os.path.dirname(os.path.abspath(__file__)))
MUT = os.path.join(ROOT, ".mut")
A, F = "theories/Tri/AddSplit.v", "theories/Tri/AddSplitFloat.v"
MUTANTS = [
 ("no-f32-narrowing", F, "Definition to_scalar (f32 : bool) (x : F) : F := if f32 then widen (narrow x) else x.",
                         "Definition to_scalar (f32 : bool) (x : F) : F := x."),
 ("c1-through-p2", F, "let c1 := f_add (f_mul a1 p1x) (f_mul b1 p1y) in", "let c1 := f_add (f_mul a1 p2x) (f_mul b1 p2y) in"),
 ("x-times-reciprocal", F, "else (f_div (f_sub (f_mul b2 c1) (f_mul b1 c2)) determinant,",
                           "else (f_mul (f_sub (f_mul b2 c1) (f_mul b1 c2)) (f_div (f_of_bits 4607182418800017408) determinant),"),
 ("ignored-not-set-by-split", A, "collect_split k' nx [] overlap_vertex (acc ++ [(group, SESplit group_end_vertex e)]) (intact && is_valid)",
                                 "collect_split k' nx [] None (acc ++ [(group, SESplit group_end_vertex e)]) (intact && is_valid)"),
 ("always-intact", A, "(acc ++ [(group, SESplit group_end_vertex e)]) (intact && is_valid)", "(acc ++ [(group, SESplit group_end_vertex e)]) intact"),
 ("edge-in-out-swapped", A, "let edge_out := Insert.d_ccw d e1 in\n        let edge_in := Locate.d_cw d e1 in",
                            "let edge_out := Locate.d_cw d e1 in\n        let edge_in := Insert.d_ccw d e1 in"),
 ("no-last-edge-at-split", A, "let last_edge := if e_to d edge_out =? final_vertex then Some edge_out else None in", "let last_edge := @None nat in"),
 ("no-edge-in-push", A, "let ces := if opt_eqb last_vertex (e_to d edge_in) then ces ++ [e_rev edge_in] else ces in", "let ces := ces in"),
 ("no-legalize-vertex", A, "match legalize_vertices pts d split_vertices with", "match Some d with"),
 ("no-count-at-split", A, "let nc := S nc in", "let nc := nc in"),
 ("existing-arm-no-last-edge", A, "| Some edge => if memb edge ces then None else Some edge", "| Some edge => None"),
 ("verify-outside-invalid", A, "| ROutside _ => Some (None, is_outer d e || is_outer d (e_rev e))", "| ROutside _ => Some (None, false)"),
 ("verify-edge-always-valid", A, "| ROnEdge re => Some (None, as_undirected re =? as_undirected e)", "| ROnEdge re => Some (None, true)"),
 ("verify-face-one-side", A, "| ROnFace f => Some (None, (f =? e_face d e) || (f =? e_face d (e_rev e)))", "| ROnFace f => Some (None, (f =? e_face d e))"),
 ("fallback-pieces-swapped", A, "tr ++ [(old_from, new_handle); (new_handle, old_to)]", "tr ++ [(new_handle, old_to); (old_from, new_handle)]"),
 ("fallback-no-full-legalize", A, "legalize_edge pts fuel (clear_flag d (normalized u)) (normalized u) true", "legalize_edge pts fuel (clear_flag d (normalized u)) (normalized u) false"),
 ("fallback-no-readd", A, "match fallback_readd pts d nc tr with", "match Some (d, nc) with"),
 ("fallback-ends-read-before-insert", A, "        flat_map (fun r =>\n          let '(d, nc, new_handle) := r in\n          let old_from := e_origin d edge in\n          let old_to := e_to d edge in",
                                         "        let old_from := e_origin d edge in\n        let old_to := e_to d edge in\n        flat_map (fun r =>\n          let '(d, nc, new_handle) := r in"),
 ("overlap-resets-group", A, "collect_split k' nx group (Some (e_to d e)) (acc ++ [([], SEOverlap e)]) intact", "collect_split k' nx [] (Some (e_to d e)) (acc ++ [([], SEOverlap e)]) intact"),
 ("no-mitigation", F, "let x := Gen.Math.mitigate_underflow_for_coordinate (to_scalar f32 x) in", "let x := to_scalar f32 x in"),
]
def sh(cmd, cwd=None):
    return subprocess.run(cmd, shell=True, cwd=cwd, stdout=subprocess.PIPE, stderr=subprocess.STDOUT).stdout.decode()
def main():
    run = sys.argv[1]
    want = set(sys.argv[2:])
    for name, path, old, new in MUTANTS:
        if want and name not in want: continue
        shutil.rmtree(MUT, ignore_errors=True)
        os.makedirs(MUT)
        sh("cp -r %s/coq %s/coq" % (ROOT, MUT))
        fp = os.path.join(MUT, "coq", path)
        s = open(fp).read()
        if s.count(old) != 1:
            print("%-34s PATTERN NOT FOUND (%d)" % (name, s.count(old))); continue
        open(fp, "w").write(s.replace(old, new))
        log = ""
        for f in ([F] if path == F else []) + [A, "theories/Check/RunModel.v"]:
            log += sh("coqc -Q theories SpadeV %s" % f, cwd=os.path.join(MUT, "coq"))
        if "Error" in log:
            print("%-34s DOES NOT COMPILE: %s" % (name, log.strip().splitlines()[-1][:120])); continue
        os.makedirs(os.path.join(MUT, "genm")); os.makedirs(os.path.join(MUT, "ml"))
        sh("coqc -Q ../coq/theories SpadeV ../coq/theories/Check/ExtractModel.v", cwd=os.path.join(MUT, "genm"))
        sh("python3 %s/tools/codes.py ml > genm/Codes_tbl.ml; cp genm/*.ml genm/*.mli ml/; sed 's/Run\\.run_case/RunModel.run_model_case/' %s/ocaml/chk.ml > ml/chk.ml" % (ROOT, ROOT), cwd=MUT)
        sh("ocamlfind ocamlopt -O2 -package zarith -linkpkg -w -a $(ocamlfind ocamldep -sort *.ml *.mli 2>/dev/null | tr '\\n' ' ') -o ../chkm 2>/dev/null || "
           "ocamlfind ocamlopt -package zarith -linkpkg -w -a $(ocamlfind ocamldep -sort *.ml *.mli | tr '\\n' ' ') -o ../chkm", cwd=os.path.join(MUT, "ml"))
        if not os.path.exists(os.path.join(MUT, "chkm")):
            print("%-34s checker build failed" % name); continue
        out = sh("python3 %s/tools/splitcount.py %s %s/chkm" % (ROOT, run, MUT))
        print("%-34s %s" % (name, out.splitlines()[0] if out else "?"))
        sys.stdout.flush()
main()
