"""Per-property configuration: which generator feeds it, which verdict tags decide it."""
import os, json, re, glob, math, struct
import gen
from gen import Case, bits

def n_cases(tier, quick, thorough):
    # "search": the enlarged run made when a proof obligation or the correspondence broke -- bounded so that the check stays in minutes
    if tier == "search":
        return min(thorough, 3 * quick)
    # thorough: at most VERIF_THOROUGH_FACTOR (default 4) times the quick size, so that every thorough tier ends within minutes on 16 cores
    # (the uncapped sizes took up to 80 minutes for one property); set VERIF_THOROUGH_FACTOR=0 for the uncapped sizes
    if tier == "thorough":
        f = int(os.environ.get("VERIF_THOROUGH_FACTOR", "4"))
        return thorough if f <= 0 else min(thorough, f * quick)
    return quick

# ------------------------------------------------------------------ generators
def gen_C08(r, tier):
    cases = []
    # scalar stream: all special values through validate_coordinate / validate_vertex / mitigate_underflow
    vals = gen.special_values()
    if tier == "thorough":
        vals = vals + [r.next() for _ in range(60000)]
    else:
        vals = vals + [r.next() for _ in range(1500)]
    chunk = 400
    for i in range(0, len(vals), chunk):
        c = Case("v%d" % (i // chunk), "dt", "f64", "last")
        c.meta = {"style": "bits", "kind": "dt", "scalar": "f64", "hint": "last"}
        for b in vals[i:i + chunk]:
            c.add("valc", b)
            if r.chance(0.2):
                c.add("valv", b, r.choice(vals))
            if r.chance(0.2):
                c.add("mit", b, r.choice(vals))
        cases.append(c)
    # the same through f32 (only f32-representable values are sent)
    f32vals = [b for b in vals[:14000] if gen.is_f32(gen.from_bits(b))]
    for i in range(0, len(f32vals), chunk):
        c = Case("w%d" % (i // chunk), "dt", "f32", "last")
        c.meta = {"style": "bits", "kind": "dt", "scalar": "f32", "hint": "last"}
        for b in f32vals[i:i + chunk]:
            c.add("valc", b)
        cases.append(c)
    # histories with invalid insertions at random points, and bulk loads with an invalid element at position k
    for i in range(n_cases(tier, 300, 4000)):
        c = gen.history(r, "h%d" % i, w_invalid=25, max_ops=12)
        if r.chance(0.5):
            n = r.range(1, 8)
            pts = gen.point_cloud(r, n, "grid", c.scalar == "f32")
            toks = []
            kbad = r.below(n + 2)
            for j, (x, y) in enumerate(pts):
                bx, by = bits(x), bits(y)
                if j == kbad or (j > kbad and r.chance(0.2)):
                    bad = gen.invalid_value(r)
                    if c.scalar == "f32" and not gen.is_f32(gen.from_bits(bad)):
                        bad = 0x7ff8000000000000
                    if r.chance(0.5):
                        bx = bad
                    else:
                        by = bad
                toks += [bx, by, j]
            c.add(r.choice(["bulk", "bulks"]), n, *toks)
        if c.scalar == "f32":
            c.ops = [fix_f32(o) for o in c.ops]
        cases.append(c)
    return cases

def fix_f32(op):
    """replace invalid f64 patterns that are not f32-representable by representable ones of the same class"""
    t = op.split()
    if t[0] in ("ins", "insh"):
        ks = (1, 2)
    elif t[0] == "adde":
        ks = (1, 2, 4, 5)
    elif t[0] == "addes":
        ks = tuple(j for i in range(int(t[1])) for j in (3 + 3 * i, 4 + 3 * i))
    else:
        return op
    for k in ks:
        b = int(t[k])
        x = gen.from_bits(b)
        if not gen.is_f32(x):
            if abs(x) < 1e-30:
                t[k] = str(bits(gen.f32_from_bits(1)))        # least f32 subnormal: too small
            else:
                t[k] = str(0x7ff0000000000000)                # inf: too large
    return " ".join(t)

def gen_hist(kinds=("dt",), quick=400, thorough=6000, **kw):
    def g(r, tier):
        mp = 14 if tier != "thorough" else 40
        mo = 18 if tier != "thorough" else 40
        return [gen.history(r, "h%d" % i, kinds=kinds, max_ops=mo, max_pts=mp, **kw) for i in range(n_cases(tier, quick, thorough))]
    return g

# ------------------------------------------------------------------ classification helpers
def nontrivial(c, minops=3):
    """non-trivial: at least three operations and either a non-insert operation, a duplicate position,
    or a degenerate style; distinctness is by hash of the full op list + configuration"""
    if len(c.ops) < (2 if c.meta.get("style") in ("refine", "bulk") else minops):
        return False
    names = [o.split()[0] for o in c.ops]
    if any(n not in ("ins",) for n in names):
        return True
    return c.meta.get("style") in ("circle", "line", "ulp", "mag", "cluster", "ray", "grid", "bits")

DOCUMENTED = [
    (("addc", "adde", "addes"), re.compile(r"intersect|conflict|Conflicting", re.I)),
    (("bulkc", "bulkcs"), re.compile(r"intersect|overlap|out_of_range|index|bounds", re.I)),
    (("vcirc", "ecirc"), re.compile(r"radius", re.I)),
]
def undocumented_events(events):
    out = []
    for cid, op, ev in events:
        name = op.split()[2] if len(op.split()) > 2 else ""
        if ev.startswith("R hang"):
            out.append((cid, op, ev))
            continue
        msg = ev[len("R panic "):]
        doc = False
        for names, rx in DOCUMENTED:
            if name in names and rx.search(msg):
                doc = True
        if name in ("loc", "loch", "locv", "lrm") and "nan" in msg.lower():
            doc = True
        if not doc:
            out.append((cid, op, ev))
    return out

def match_known(known, pid, tag, case, event):
    from known import KNOWN_CLASSES
    for k in known:
        if k.get("status") == "fixed":
            continue
        if pid not in k["properties"]:
            continue
        fn = KNOWN_CLASSES.get(k["class"])
        if fn and fn(case, tag, event):
            return k
    return None

def corpus_cases(pid, root):
    out = []
    for p in sorted(glob.glob(os.path.join(root, "corpus", pid, "*.json"))):
        j = json.load(open(p))
        c = Case("corpus-" + os.path.basename(p)[:-5], j["kind"], j["scalar"], j["hint"])
        c.ops = j["ops"]
        c.meta = {"style": "corpus", "kind": j["kind"], "scalar": j["scalar"], "hint": j["hint"]}
        out.append(c)
    return out

STATE_RULE = ("histories from one splitmix64 stream (VERIF_SEED): point pools on integer grids (dense in duplicate, collinear and "
              "cocircular configurations), exactly cocircular Pythagorean sets, ulp-perturbed, extreme-magnitude (2^-142..2^195), "
              "collinear, clustered and same-angle sets; operations insert / insert_with_hint (incl. stale hints) / remove / "
              "locate_and_remove / duplicates / clear / clone; f32 and f64, four hint generators. A case is non-trivial when it has "
              ">= 3 operations and a non-insert operation or a degenerate point style; distinct by hash of configuration + op list.")

PROPS = {
 "C08": dict(gen=gen_C08, tags=["validate", "atomic_fail", "mitigate", "parse", "decode"], level="proof",
             rule="all 2048 binary64 exponents x {0,1,all-ones mantissa} x both signs, both limits +-2 ulp, subnormals, infinities, "
                  "NaN payloads, every f32 exponent widened, random bit patterns; the same values inserted into non-empty DT/CDT "
                  "histories (full observable snapshot before/after) and at position k of bulk-load vectors. Non-trivial: >= 3 operations.",
             theorems="Props/C08.v: C08_accept_iff, C08_nan_iff, C08_too_small_iff, C08_too_large_iff, C08_vertex_order, "
                      "C08_mitigate_never_too_small, C08_min_limit, C08_max_limit, C08_oracle_is_code (over the GENERATED validate_coordinate)",
             assumptions=["f32 -> f64 conversion is exact (IEEE widening)", "insert's atomicity is observed on the implementation, not proved"]),
}

# ------------------------------------------------------------------ query generators
def query_points(r, pool, n):
    """query positions: vertices, edge midpoints, near-hull, far outside, random grid points"""
    qs = []
    for _ in range(n):
        k = r.below(6)
        if k == 0 and pool:
            qs.append(r.choice(pool))
        elif k == 1 and len(pool) >= 2:
            a, b = r.choice(pool), r.choice(pool)
            qs.append(((a[0] + b[0]) / 2.0, (a[1] + b[1]) / 2.0))
        elif k == 2 and len(pool) >= 3:
            a, b, c = r.choice(pool), r.choice(pool), r.choice(pool)
            qs.append(((a[0] + b[0] + 2 * c[0]) / 4.0, (a[1] + b[1] + 2 * c[1]) / 4.0))
        elif k == 3:
            qs.append((float(r.range(-40, 40)), float(r.range(-40, 40))))
        elif k == 4 and len(pool) >= 2:
            a, b = r.choice(pool), r.choice(pool)
            t = r.choice([-1.0, 2.0, 3.0, -0.5, 1.5])
            qs.append((a[0] + t * (b[0] - a[0]), a[1] + t * (b[1] - a[1])))
        else:
            qs.append((float(r.range(-6, 6)), float(r.range(-6, 6))))
    return qs

def exact_styles():
    # styles on which f64 arithmetic on squared distances is exact
    return [('grid', 50), ('circle', 20), ('line', 10), ('cluster', 10), ('ray', 10)]

def gen_queries(kinds, qops, quick, thorough, styles=None, with_constraints=False, nq=10, f32_share=0.15):
    def g(r, tier):
        out = []
        for i in range(n_cases(tier, quick, thorough)):
            c = gen.history(r, "q%d" % i, kinds=kinds, max_ops=(12 if tier != "thorough" else 30),
                            max_pts=(12 if tier != "thorough" else 30), styles=styles or exact_styles(), f32_share=f32_share,
                            w_addc=(12 if with_constraints else 0), w_rmc=(3 if with_constraints else 0))
            pool = []
            for o in c.ops:
                t = o.split()
                if t[0] in ("ins", "insh"):
                    pool.append((gen.from_bits(int(t[1])), gen.from_bits(int(t[2]))))
            for (x, y) in query_points(r, pool, nq):
                if c.scalar == "f32" and not (gen.is_f32(x) and gen.is_f32(y)):
                    continue
                op = r.choice(qops)
                if op == "loc":
                    c.add("loc", bits(x), bits(y))
                elif op == "loch":
                    c.add("loch", bits(x), bits(y), ("V%d" % r.range(0, 60)) if r.chance(0.2) else ("v%d" % r.below(64)))
                elif op == "locv":
                    c.add("locv", bits(x), bits(y))
                elif op == "nn":
                    c.add("nn", bits(x), bits(y))
                elif op in ("vrect", "erect"):
                    (x2, y2) = r.choice(query_points(r, pool, 2))
                    if c.scalar == "f32" and not (gen.is_f32(x2) and gen.is_f32(y2)):
                        continue
                    lo = (min(x, x2), min(y, y2)); hi = (max(x, x2), max(y, y2))
                    k = r.below(10)
                    if k == 0:
                        lo, hi = hi, lo                      # inverted
                    elif k == 1:
                        hi = lo                              # a point
                    elif k == 2:
                        hi = (hi[0], lo[1])                  # a horizontal line
                    c.add(op, bits(lo[0]), bits(lo[1]), bits(hi[0]), bits(hi[1]))
                elif op in ("vcirc", "ecirc"):
                    rr = r.choice([0.0, 1.0, 2.0, 4.0, 5.0, 25.0, 0.25, 100.0, 1e6, float(r.range(0, 50))])
                    c.add(op, bits(x), bits(y), bits(rr))
                elif op in ("canc", "tryc", "confv", "exc"):
                    c.add(op, "v%d" % r.below(64), "v%d" % r.below(64))
                elif op in ("isc", "confp", "line"):
                    (x2, y2) = r.choice(query_points(r, pool, 2))
                    if pool and r.chance(0.4):
                        # a segment that leaves its start exactly through a vertex (and continues beyond it)
                        vx, vy = r.choice(pool)
                        t = r.choice([2.0, 3.0, 1.0, 1.5])
                        x2, y2 = x + t * (vx - x), y + t * (vy - y)
                    if c.scalar == "f32" and not (gen.is_f32(x2) and gen.is_f32(y2)):
                        continue
                    c.add(op, bits(x), bits(y), bits(x2), bits(y2))
                elif op == "lineh":
                    c.add(op, "v%d" % r.below(64), "v%d" % r.below(64))
                elif op == "hull":
                    c.add("hull")
                if r.chance(0.15):
                    # interleave a mutation so that hint-generator state and queries mix
                    (mx, my) = r.choice(pool) if pool and r.chance(0.5) else (float(r.range(-6, 6)), float(r.range(-6, 6)))
                    if r.chance(0.6):
                        c.ins(mx, my, 500 + len(c.ops))
                        pool.append((mx, my))
                    else:
                        c.add("rm", "v%d" % r.below(64))
            out.append(c)
        return out
    return g

PROPS.update({
 "C01": dict(gen=gen_hist(kinds=("dt",), quick=1200, thorough=12000), tags=["delaunay", "parse", "decode"], level="proof",
             rule=STATE_RULE, theorems="Props/C01.v", assumptions=[]),
 "C02": dict(gen=gen_hist(kinds=("dt", "cdt"), quick=1200, thorough=12000, w_addc=6, w_rmc=2), tags=["wf", "geo", "parse", "decode"],
             level="proof", rule=STATE_RULE, theorems="Props/C02.v", assumptions=[]),
 "C05": dict(gen=gen_hist(kinds=("dt", "cdt"), quick=600, thorough=20000, w_dupe=25, w_rm=20, w_lrm=10, w_clear=3),
             tags=["vmap", "parse"], level="proof", rule=STATE_RULE, theorems="Props/C05.v", assumptions=[]),
 "C14": dict(gen=gen_queries(("dt", "cdt"), ["hull"], 400, 5000, styles=gen.STYLES, nq=3), tags=["hull_iter", "geo", "wf", "parse", "decode"],
             level="proof", rule=STATE_RULE + " plus explicit convex_hull() / rev() / convex_hull_size() queries", theorems="Props/C14.v", assumptions=[]),
 "C09": dict(gen=gen_queries(("dt", "cdt"), ["loc", "loch", "loch", "locv"], 300, 5000, styles=gen.STYLES, with_constraints=True, nq=24),
             tags=["locate", "parse"], level="proof", rule=STATE_RULE + " followed by locate / locate_with_hint (every kind of hint incl. stale, out of range) / locate_vertex queries on vertices, edge interiors, hull boundary, far outside",
             theorems="Props/C09.v", assumptions=[]),
 "C15": dict(gen=gen_queries(("dt",), ["nn"], 300, 5000, nq=24), tags=["nn", "parse"], level="proof",
             rule=STATE_RULE + " restricted to inputs with exactly representable squared distances; nearest_neighbor queries interleaved with mutations",
             theorems="Props/C15.v", assumptions=[]),
 "C16": dict(gen=gen_queries(("dt", "cdt"), ["vrect", "erect", "vcirc", "ecirc"], 300, 5000, nq=16), tags=["shape", "parse"], level="proof",
             rule=STATE_RULE + " followed by rectangle / circle queries (inside, outside, containing the hull, degenerate to a point or line, inverted, touching)",
             theorems="Props/C16.v", assumptions=[], events=True),
 "C12": dict(gen=gen_queries(("cdt",), ["canc", "tryc", "confv", "isc", "confp", "tryc"], 300, 5000, with_constraints=True, nq=16, f32_share=0.1),
             tags=["admission", "try_atomic", "chain", "parse"], level="proof",
             rule=STATE_RULE + " on CDTs with constraints, followed by can_add_constraint / try_add_constraint / intersects_constraint / get_conflicting_edges_* for vertex pairs and point pairs",
             theorems="Props/C12.v", assumptions=[]),
})

CDT_RULE = STATE_RULE + " On CDTs additionally add_constraint / try_add_constraint / add_constraint_edge / remove_constraint_edge / add_constraint_and_split between random vertex pairs (many through vertices, overlapping edges, crossing constraints)."
PROPS.update({
 "C03": dict(gen=gen_hist(kinds=("cdt",), quick=1500, thorough=15000, w_addc=14, w_rmc=5, w_tryc=6, w_adde=5, w_split=6),
             tags=["cdtlocal", "dt_when_free", "parse", "decode"], level="proof", rule=CDT_RULE, theorems="Props/C03.v", assumptions=[]),
 "C04": dict(gen=gen_hist(kinds=("cdt",), quick=1500, thorough=15000, w_addc=16, w_rmc=6, w_tryc=6, w_adde=5, w_lrm=8, w_trm=6, w_clear=2),
             tags=["ncons", "noncross", "segspec", "parse", "decode"], level="proof", rule=CDT_RULE, theorems="Props/C04.v", assumptions=[]),
})

def gen_C05(r, tier):
    base = gen_hist(kinds=("dt", "cdt"), quick=500, thorough=20000, w_dupe=25, w_rm=20, w_lrm=10, w_clear=3)(r, tier)
    # long refill scenarios: build N vertices, clear / remove many, refill (hint-generator layers must follow)
    extra = []
    for i in range(n_cases(tier, 120, 1500)):
        kind, scalar, hint = gen.pick_cfg(r, ("dt", "cdt"), 0.1)
        c = Case("r%d" % i, kind, scalar, hint)
        c.meta = {"style": "refill", "kind": kind, "scalar": scalar, "hint": hint}
        n = r.choice([3, 5, 9, 17, 18, 20, 33, 40])
        g = r.choice([3, 4, 6])
        pts = [(float(r.range(-g, g)), float(r.range(-g, g))) for _ in range(n)]
        d = 1
        for (x, y) in pts:
            c.ins(x, y, d); d += 1
        mode = r.below(3)
        if mode == 0:
            c.add("clear")
        elif mode == 1:
            for _ in range(r.range(1, n)):
                c.add(r.choice(["rm", "rm", "trm"]), "v%d" % r.below(64))
        else:
            c.add("clone")
        for _ in range(r.range(2, 10)):
            if r.chance(0.6):
                x, y = float(r.range(-g - 2, g + 2)), float(r.range(-g - 2, g + 2))
            else:
                x, y = r.choice(pts)
            c.ins(x, y, d); d += 1
            if r.chance(0.2):
                c.add("rm", "v%d" % r.below(64))
        extra.append(c)
    return base + extra

PROPS["C05"]["gen"] = gen_C05
for _p in ("C05", "C09", "C12", "C15", "C16"):
    PROPS[_p]["events"] = True

BULK_STYLES = [('grid', 20), ('circle', 10), ('line', 6), ('ulp', 8), ('mag', 6), ('cluster', 10), ('ray', 10), ('bigcol', 10), ('unimod', 20)]
def gen_bulk(quick, thorough, kinds=("dt", "cdt"), follow=("hull",)):
    """cases that start with one of the four bulk loaders on adversarial point sets"""
    def g(r, tier):
        out = []
        for i in range(n_cases(tier, quick, thorough)):
            kind, scalar, hint = gen.pick_cfg(r, kinds, 0.15)
            style = r.weighted(BULK_STYLES)
            n = r.range(3, 30 if tier != "thorough" else 80)
            pts = gen.point_cloud(r, n, style, scalar == "f32")
            if r.chance(0.3):
                pts += [r.choice(pts) for _ in range(r.range(1, 4))]      # duplicates
                r.shuffle(pts)
            c = Case("b%d" % i, kind, scalar, hint)
            c.meta = {"style": style, "kind": kind, "scalar": scalar, "hint": hint}
            toks = []
            for j, (x, y) in enumerate(pts):
                toks += [bits(x), bits(y), j + 1]
            stable = r.chance(0.5)
            if kind == "cdt" and r.chance(0.5):
                m = r.range(0, 4)
                es = []
                for _ in range(m):
                    es += [r.below(len(pts)), r.below(len(pts))]
                c.add("bulkcs" if stable else "bulkc", len(pts), *toks, m, *es)
            else:
                c.add("bulks" if stable else "bulk", len(pts), *toks)
            for f in follow:
                c.add(f)
            # a few incremental operations afterwards
            for _ in range(r.range(0, 4)):
                if r.chance(0.6):
                    x, y = r.choice(pts) if r.chance(0.3) else gen.point_cloud(r, 1, style, scalar == "f32")[0]
                    c.ins(x, y, 900 + len(c.ops))
                else:
                    c.add("rm", "v%d" % r.below(64))
            out.append(c)
        return out
    return g

def gen_union(*gs):
    def g(r, tier):
        out = []
        for k, gg in enumerate(gs):
            cs = gg(r, tier)
            for c in cs:
                c.cid = "%s_%d" % (c.cid, k)
            out += cs
        return out
    return g

PROPS["C14"]["gen"] = gen_union(PROPS["C14"]["gen"], gen_bulk(1500, 12000))
PROPS["C02"]["gen"] = gen_union(PROPS["C02"]["gen"], gen_bulk(800, 8000))
PROPS["C01"]["gen"] = gen_union(PROPS["C01"]["gen"], gen_bulk(1000, 10000, kinds=("dt",)))

PROPS.update({
 "C10": dict(gen=gen_union(gen_bulk(1500, 12000, follow=()), gen_hist(kinds=("dt", "cdt"), quick=300, thorough=3000, p_bulk=1.0, w_addc=5)),
             tags=["bulk_equiv", "bulk_stable", "bulk_edges", "wf", "geo", "delaunay", "cdtlocal", "dt_when_free", "ncons", "noncross", "validate", "parse", "decode"],
             level="proof", rule="inputs for all four bulk loaders: grids, exactly cocircular sets, collinear runs, ulp-perturbed, extreme magnitudes, clusters, same-pseudo-angle rays, "
             "large nearly collinear chains (unimodular lattice vectors), duplicates; random constraint index pairs (crossing ones lead to the documented panic); "
             "each result is compared with an incremental construction performed by the implementation on the same input (same constraint set always; same edge set when no two adjacent faces are cocircular). "
             "Non-trivial: >= 3 input points.", theorems="Props/C10.v", assumptions=[]),
 "C11": dict(gen=gen_hist(kinds=("dt", "cdt"), quick=1500, thorough=15000, w_rm=35, w_trm=8, w_lrm=12, w_addc=10, w_dupe=5),
             tags=["remove", "remove_cons", "vmap", "wf", "geo", "delaunay", "cdtlocal", "dt_when_free", "ncons", "parse", "decode"], level="proof",
             rule=CDT_RULE + " removal-heavy (interior, hull, last 3/2/1 vertices, chain vertices, vertices with constraints); after each removal the result is compared with a triangulation the implementation rebuilds from scratch from the remaining vertices and constraints (same edge set when unique).",
             theorems="Props/C11.v", assumptions=[]),
})

def gen_wheel(quick, thorough, kinds=("dt", "cdt")):
    """high-degree vertices: a hub surrounded by many rim vertices that are nearly (not exactly) cocircular; the hub is removed"""
    import math
    def g(r, tier):
        out = []
        for i in range(n_cases(tier, quick, thorough)):
            kind, scalar, hint = gen.pick_cfg(r, kinds, 0.15)
            c = Case("w%d" % i, kind, scalar, hint)
            c.meta = {"style": "wheel", "kind": kind, "scalar": scalar, "hint": hint}
            n = r.range(6, 26 if tier != "thorough" else 60)
            R = r.choice([10, 50, 100, 1000])
            cx, cy = r.range(-5, 5), r.range(-5, 5)
            rim = []
            for k in range(n):
                ang = 2 * math.pi * (k + r.range(-20, 20) / 100.0) / n
                rad = R + (r.range(-R // 10, R // 10) if r.chance(0.7) else 0)
                rim.append((float(cx + round(rad * math.cos(ang))), float(cy + round(rad * math.sin(ang)))))
            pts = [(float(cx), float(cy))] + rim
            order = list(range(len(pts)))
            if r.chance(0.5):
                r.shuffle(order)
            hub_index = order.index(0)
            seen = []
            for j in order:
                c.ins(pts[j][0], pts[j][1], j + 1)
            # the hub's handle is its position among distinct inserted points (duplicates do not add vertices)
            distinct = []
            for j in order:
                if pts[j] not in distinct:
                    distinct.append(pts[j])
            c.add("rm", "V%d" % distinct.index(pts[0]))
            for _ in range(r.range(0, 3)):
                if r.chance(0.5):
                    c.ins(float(cx + r.range(-R, R)), float(cy + r.range(-R, R)), 700 + len(c.ops))
                else:
                    c.add("rm", "v%d" % r.below(64))
            out.append(c)
        return out
    return g

PROPS["C01"]["gen"] = gen_union(PROPS["C01"]["gen"], gen_wheel(300, 3000, kinds=("dt",)))
PROPS["C11"]["gen"] = gen_union(PROPS["C11"]["gen"], gen_wheel(400, 4000))
PROPS["C03"]["gen"] = gen_union(PROPS["C03"]["gen"], gen_wheel(200, 2000, kinds=("cdt",)))

LATTICE = [('grid', 100)]
def gen_lattice_cdt(quick, thorough, qops=(), **kw):
    """small dense integer lattices: most vertex pairs are collinear with other vertices, so constraints run through vertices,
    overlap edges, and rejected additions have accepted prefixes; inserts on constraint edges are frequent"""
    def g(r, tier):
        out = []
        for i in range(n_cases(tier, quick, thorough)):
            c = gen.history(r, "l%d" % i, kinds=("cdt",), max_ops=(22 if tier != "thorough" else 40), max_pts=16, styles=LATTICE,
                            f32_share=0.1, w_ins=40, w_rm=8, w_addc=22, w_tryc=22, w_rmc=6, w_adde=4, w_insmid=14, w_dupe=4,
                            w_lrm=3, w_trm=3, p_bulk=0.1, **kw)
            for _ in range(r.range(0, 6) if qops else 0):
                op = r.choice(list(qops))
                c.add(op, "v%d" % r.below(64), "v%d" % r.below(64))
            out.append(c)
        return out
    return g

PROPS["C03"]["gen"] = gen_union(PROPS["C03"]["gen"], gen_lattice_cdt(800, 8000))
PROPS["C04"]["gen"] = gen_union(PROPS["C04"]["gen"], gen_lattice_cdt(3000, 20000))
PROPS["C12"]["gen"] = gen_union(PROPS["C12"]["gen"], gen_lattice_cdt(600, 6000, qops=("canc", "tryc", "confv")))
PROPS["C11"]["gen"] = gen_union(PROPS["C11"]["gen"], gen_lattice_cdt(400, 4000))

def gen_shifted_nn(quick, thorough):
    """grids translated by large powers of two: coordinates and squared distances stay exactly representable while
    |v|^2 does not -- any reformulation of the distance comparison that is not exact shows up"""
    def g(r, tier):
        out = []
        for i in range(n_cases(tier, quick, thorough)):
            kind, scalar, hint = gen.pick_cfg(r, ("dt",), 0.25)
            f32 = scalar == "f32"
            sh = r.choice([8, 13, 20]) if f32 else r.choice([20, 27, 30, 40, 45])
            ox, oy = r.choice([-1, 1]) * float(1 << sh), r.choice([-1, 0, 1]) * float(1 << sh)
            c = Case("s%d" % i, kind, scalar, hint)
            c.meta = {"style": "shifted", "kind": kind, "scalar": scalar, "hint": hint}
            g_ = r.choice([2, 3, 5])
            pts = [(ox + r.range(-g_, g_), oy + r.range(-g_, g_)) for _ in range(r.range(3, 16))]
            if r.chance(0.3):
                pts = [(ox + t, oy) for t in range(-g_, g_ + 1)]          # collinear
            for j, (x, y) in enumerate(pts):
                c.ins(x, y, j + 1)
            for _ in range(20):
                qx, qy = ox + r.range(-g_ - 2, g_ + 2), oy + r.range(-g_ - 2, g_ + 2)
                c.add("nn", bits(qx), bits(qy))
                if r.chance(0.1):
                    c.add("rm", "v%d" % r.below(64))
            out.append(c)
        return out
    return g
PROPS["C15"]["gen"] = gen_union(PROPS["C15"]["gen"], gen_shifted_nn(300, 3000))
PROPS["C09"]["gen"] = gen_union(PROPS["C09"]["gen"], gen_lattice_cdt(300, 3000))

def gen_prims(quick, thorough):
    """primitive-level cases for the model correspondence (hint generator `last` only: primitives bypass notifications)"""
    def g(r, tier):
        out = []
        for i in range(n_cases(tier, quick, thorough)):
            kind = r.choice(["dt", "cdt"])
            c = Case("p%d" % i, kind, "f64", "last")
            c.meta = {"style": "prims", "kind": kind, "scalar": "f64", "hint": "last", "only_tags": ["corr", "parse"]}
            def v():
                return "%d %d %d" % (bits(float(r.range(-9, 9))), bits(float(r.range(-9, 9))), 100 + len(c.ops))
            if r.chance(0.5):
                # (a) pure topology from scratch: arbitrary coordinates
                c.add("prim ifv 0", v()); c.add("prim isv 0", v())
                for _ in range(r.range(0, 3)):
                    c.add("prim", r.choice(["ext", "sel"]), r.below(64), v())
                c.add("prim cnf", r.below(64), v())
                for _ in range(r.range(4, 24)):
                    nm = r.weighted([("iit", 5), ("se", 4), ("she", 3), ("cnf", 3), ("csf", 3), ("flip", 5)])
                    if nm in ("csf", "flip"):
                        c.add("prim", nm, r.below(256))
                    else:
                        c.add("prim", nm, r.below(256), v())
            else:
                # (b) geometrically valid: a Delaunay triangulation, spoiled by flips of convex quadrilaterals, then legalized
                pts = gen.point_cloud(r, r.range(5, 16), r.choice(["grid", "grid", "circle", "cluster"]), False)
                for j, (x, y) in enumerate(pts):
                    c.ins(x, y, j + 1)
                if kind == "cdt" and r.chance(0.5):
                    for _ in range(r.range(1, 3)):
                        c.add("addc", "v%d" % r.below(64), "v%d" % r.below(64))
                for _ in range(r.range(2, 8)):
                    for _ in range(r.range(1, 5)):
                        c.add("prim cflip", r.below(256))
                    for _ in range(r.range(1, 4)):
                        c.add("prim", r.choice(["leg", "legf"]), r.below(256))
            out.append(c)
        return out
    return g

PROPS["C02"]["gen"] = gen_union(PROPS["C02"]["gen"], gen_prims(500, 5000))
PROPS["C02"]["model"] = True
PROPS["C02"]["tags"] = PROPS["C02"]["tags"] + ["corr"]

def gen_C06(r, tier):
    out = []
    tuple_styles = [('unimod', 22), ('bigcol', 12), ('ulp', 18), ('circle', 12), ('mag', 12), ('grid', 8), ('bigcircle', 16)]
    for i in range(n_cases(tier, 150, 2000)):
        scalar = "f32" if r.chance(0.25) else "f64"
        c = Case("t%d" % i, "dt", scalar, "last")
        c.meta = {"style": "tuples", "kind": "dt", "scalar": scalar, "hint": "last"}
        for _ in range(40):
            style = r.weighted(tuple_styles)
            pts = gen.point_cloud(r, 6, style, scalar == "f32")
            if r.chance(0.3):
                # exactly collinear / cocircular by construction, then one coordinate moved by a few ulps
                a, b = pts[0], pts[1]
                pts[2] = (2 * b[0] - a[0], 2 * b[1] - a[1])
                if r.chance(0.5):
                    pts[2] = (gen.ulp_step(pts[2][0] if pts[2][0] != 0 else 1.0, r.range(-2, 2), scalar == "f32"), pts[2][1])
            fl = []
            for (x, y) in pts[:4]:
                fl += [bits(x), bits(y)]
            if scalar == "f32" and not all(gen.is_f32(gen.from_bits(b)) for b in fl):
                continue
            if r.chance(0.5):
                c.add("msq", *fl[:6])
            else:
                c.add("mcic", *fl[:8])
        out.append(c)
    # through the public API: side_query on edge handles, locate on/near edges, the diagonal of four points
    for i in range(n_cases(tier, 400, 5000)):
        kind, scalar, hint = gen.pick_cfg(r, ("dt", "cdt"), 0.25)
        style = r.weighted(tuple_styles)
        c = Case("a%d" % i, kind, scalar, hint)
        c.meta = {"style": style, "kind": kind, "scalar": scalar, "hint": hint}
        pts = gen.point_cloud(r, r.choice([2, 3, 4, 4, 4, 5, 6]), style, scalar == "f32")
        for j, (x, y) in enumerate(pts):
            c.ins(x, y, j + 1)
        qs = gen.point_cloud(r, 6, style, scalar == "f32") + pts
        for _ in range(10):
            x, y = r.choice(qs)
            if r.chance(0.3) and len(pts) >= 2:
                a, b = r.choice(pts), r.choice(pts)
                x, y = (a[0] + b[0]) / 2.0, (a[1] + b[1]) / 2.0
                if r.chance(0.5):
                    x = gen.ulp_step(x if x != 0 else 1.0, r.range(-1, 1), scalar == "f32")
            if scalar == "f32" and not (gen.is_f32(x) and gen.is_f32(y)):
                continue
            if r.chance(0.6):
                c.add("sq", "d%d" % r.below(64), bits(x), bits(y))
            else:
                c.add("loc", bits(x), bits(y))
        out.append(c)
    return out

def gen_C07(r, tier):
    """every kind of operation after every kind of history; only panics and hangs are judged"""
    out = []
    q = 150 if tier != "thorough" else 1500
    out += gen_hist(kinds=("dt", "cdt"), quick=q, thorough=q, w_addc=8, w_rmc=3, w_tryc=4, w_adde=3, w_insmid=4)(r, "quick")
    out += gen_queries(("dt", "cdt"), ["loc", "loch", "locv", "nn", "hull", "vrect", "erect", "vcirc", "ecirc", "line", "lineh", "isc", "confp", "canc", "tryc"],
                       q * 2, q * 2, styles=gen.STYLES, with_constraints=True, nq=14)(r, "quick")
    out += gen_bulk(q, q)(r, "quick")
    out += gen_lattice_cdt(q, q, qops=("canc", "tryc", "confv"))(r, "quick")
    out += gen_wheel(q // 3, q // 3)(r, "quick")
    out += gen_C20(r, "quick")[:q]
    c13 = gen_C13(r, "quick")
    r.shuffle(c13)
    out += c13[:q * 3]
    out += PROPS["C05"]["gen"](r, "quick")[:q * 2]
    for k, c in enumerate(out):
        c.cid = "z%d" % k
    return out

PROPS.update({
 "C06": dict(gen=gen_C06, tags=["sidequery", "delaunay", "locate", "geo", "parse", "decode"], level="proof",
             rule="point tuples built to be exactly or almost degenerate: unimodular lattice chains (exact determinant +-1 at magnitude 2^20..2^30), large nearly collinear sets, "
                  "ulp-perturbed collinear / cocircular tuples, mixed magnitudes 2^-142..2^195, f32 values widened; decided through the predicate wrappers directly (cfg hook) and through "
                  "the public API (DirectedEdgeHandle::side_query, locate, the Delaunay diagonal of four points). Non-trivial: >= 3 operations.",
             theorems="Props/C06.v", assumptions=["robust::orient2d / robust::incircle return a correctly signed finite value (Shewchuk)"]),
 "C07": dict(gen=gen_C07, tags=["parse"], events=True, level="proof",
             rule="union of the generators of the other properties (histories, queries incl. line iterators and shape queries, bulk loads, lattice CDTs, wheels, refills); a case fails when an operation "
                  "panics outside the documented list or does not return within the watchdog time. Non-trivial: >= 3 operations.",
             theorems="Props/C07.v", assumptions=["termination of the geometric walks (locate, legalization, flood fill, refine) is observed, not proved"]),
})

def polygon_case(r, c, d0=1):
    """inserts a closed polygon (optionally with a hole / dangling edge / open polyline) via add_constraint_edges; returns its points"""
    shape = r.below(6)
    g = r.choice([4, 6, 10])
    def P(x, y): return (float(x), float(y))
    if shape == 0:      # square
        rings = [([P(-g, -g), P(g, -g), P(g, g), P(-g, g)], True)]
    elif shape == 1:    # square with a hole
        h = g // 2
        rings = [([P(-g, -g), P(g, -g), P(g, g), P(-g, g)], True), ([P(-h, -h), P(h, -h), P(h, h), P(-h, h)], True)]
    elif shape == 2:    # open polyline
        rings = [([P(-g, 0), P(0, r.range(1, g)), P(g, 0), P(g + 2, r.range(-g, g))], False)]
    elif shape == 3:    # closed square + dangling edge outside
        rings = [([P(-g, -g), P(g, -g), P(g, g), P(-g, g)], True), ([P(g + 2, 0), P(g + 5, r.range(-2, 2))], False)]
    elif shape == 4:    # triangle with a sharp angle
        rings = [([P(0, 0), P(4 * g, 0), P(4 * g, r.range(1, 3))], True)]
    else:               # collinear input
        rings = [([P(-g, 0), P(0, 0), P(g, 0)], False)]
    pts = []
    d = d0
    for ring, closed in rings:
        toks = []
        for (x, y) in ring:
            toks += [bits(x), bits(y), d]
            d += 1
            pts.append((x, y))
        c.add("addes", len(ring), 1 if closed else 0, *toks)
    return pts

def gen_C20(r, tier):
    out = []
    for i in range(n_cases(tier, 400, 4000)):
        kind, scalar, hint = gen.pick_cfg(r, ("cdt",), 0.2)
        c = Case("f%d" % i, "cdt", scalar, hint)
        c.meta = {"style": "refine", "kind": "cdt", "scalar": scalar, "hint": hint}
        pts = polygon_case(r, c) if r.chance(0.75) else []
        # extra free vertices
        for _ in range(r.range(0, 6)):
            x, y = float(r.range(-12, 12)), float(r.range(-12, 12))
            c.ins(x, y, 300 + len(c.ops))
        if r.chance(0.3):
            for _ in range(r.range(1, 3)):
                c.add("addc", "v%d" % r.below(64), "v%d" % r.below(64))
        ratio = r.choice(["-", bits(1.0), bits(0.7071067811865476), bits(2.0), bits(0.6), bits(1e9), bits(0.0)])   # 0.0 ~ angle limit removed? (ratio 0 => everything refined)
        if ratio == bits(0.0):
            ratio = bits(5.0)
        mina = r.choice(["-", "-", bits(0.5), bits(4.0)])
        maxa = r.choice(["-", "-", bits(8.0), bits(50.0), bits(1.0)])
        maxv = r.choice([0, 1, 3, 10, 30, 40]) if tier != "thorough" else r.choice(["-", 0, 1, 3, 10, 50, 120])
        if maxv == "-" and (maxa != "-" or len(c.ops) > 8):
            maxv = 120
        keep = 1 if r.chance(0.25) else 0
        excl = 1 if r.chance(0.5) else 0
        c.add("refine", ratio, mina, maxa, maxv, keep, excl)
        if r.chance(0.3):
            c.add("refine", "-", "-", "-", r.choice([0, 5, 50]), 0, 1 if r.chance(0.5) else 0)
        out.append(c)
    return out

def gen_C13(r, tier):
    out = gen_lattice_cdt(n_cases(tier, 1200, 10000), n_cases(tier, 1200, 10000), w_split=25)(r, "quick")
    for i in range(n_cases(tier, 300, 3000)):
        # many constraints crossed by one split segment
        kind, scalar, hint = gen.pick_cfg(r, ("cdt",), 0.25)
        c = Case("x%d" % i, "cdt", scalar, hint)
        c.meta = {"style": "split", "kind": "cdt", "scalar": scalar, "hint": hint}
        g = r.choice([3, 4, 6])
        d = 1
        n = r.range(2, 6)
        for k in range(n):
            x = float(-g + 2 * k)
            c.add("adde", bits(x), bits(float(-g - r.range(0, 2))), d, bits(x + r.choice([0.0, 1.0, -1.0])), bits(float(g + r.range(0, 2))), d + 1)
            d += 2
        c.ins(float(-g - 3), float(r.range(-1, 1)), d); d += 1
        c.ins(float(g + 9), float(r.range(-1, 1)), d); d += 1
        for _ in range(r.range(0, 4)):
            c.ins(float(r.range(-g, g)), float(r.range(-g, g)), d); d += 1
        for _ in range(r.range(1, 3)):
            c.add("split", "v%d" % r.below(64), "v%d" % r.below(64))
        out.append(c)
    for i in range(n_cases(tier, 300, 3000)):
        # coarse arithmetic: every coordinate lies in [2^23, 2^23 + 32) (f32) or [2^52, 2^52 + 32) (f64), where the scalar type only has integers;
        # the crossings of a long segment with a fan of constraints are rational, so their rounded positions fall onto lattice points,
        # many of which are existing vertices (unusable split positions followed by usable ones and vice versa)
        kind, scalar, hint = gen.pick_cfg(r, ("cdt",), 0.5)
        c = Case("o%d" % i, "cdt", scalar, hint)
        c.meta = {"style": "split-coarse", "kind": "cdt", "scalar": scalar, "hint": hint}
        off = float(2 ** 23) if scalar == "f32" else float(2 ** 52)
        g = r.choice([3, 4, 6])
        d = 1
        n = r.range(2, 5)
        P = lambda x, y: (bits(off + 16 + x), bits(off + 16 + y))
        for k in range(n):
            x = -g + 2 * k
            a = P(x + r.choice([0, 1]), -g - r.range(0, 2)); b = P(x + r.choice([0, 1, 2]), g + r.range(0, 2))
            c.add("adde", a[0], a[1], d, b[0], b[1], d + 1)
            d += 2
        a = P(-g - 3, r.range(-2, 2)); b = P(-g + 2 * n + 2, r.range(-2, 4))
        c.add("ins", a[0], a[1], d); d += 1
        c.add("ins", b[0], b[1], d); d += 1
        for _ in range(r.range(2, 10)):
            q = P(r.range(-g, -g + 2 * n), r.range(-3, 4))
            c.add("ins", q[0], q[1], d); d += 1
        c.add("split", "v%d" % (2 * n), "v%d" % (2 * n + 1))
        if r.chance(0.4):
            c.add("split", "v%d" % r.below(64), "v%d" % r.below(64))
        out.append(c)
    return out

PROPS.update({
 "C20": dict(gen=gen_C20, tags=["refine", "wf", "parse", "decode", "ncons"], events=True, level="proof",
             rule="CDTs built from closed polygons (with holes, with dangling edges), open polylines, sharp angles, collinear input and free points; refine with combinations of "
                  "angle limit, min/max area, vertex budget (incl. 0), keep_constraint_edges, exclude_outer_faces, f32/f64; possibly twice. Non-trivial: >= 2 operations.",
             theorems="Props/C20.v", assumptions=["the quality guarantee of a completed refinement is decided per call with a relative tolerance of 1e-9 (f32: 1e-3), not proved"]),
 "C13": dict(gen=gen_C13, tags=["split", "wf", "geo", "ncons", "noncross", "parse", "decode"], events=True, level="proof",
             rule="lattice CDTs and fans of constraints crossed by add_constraint_and_split between random vertex pairs (through vertices, across several constraints, near-parallel, f32), repeated. "
                  "Non-trivial: >= 3 operations.", theorems="Props/C13.v", assumptions=["the rounded position of a split vertex is not compared with the exact intersection"]),
})
for _p in ("C02",):
    PROPS[_p]["gen"] = gen_union(PROPS[_p]["gen"], lambda r, tier: gen_C20(r, tier)[:n_cases(tier, 250, 2500)])
PROPS["C03"]["gen"] = gen_union(PROPS["C03"]["gen"], lambda r, tier: gen_C13(r, tier)[:n_cases(tier, 600, 5000)])
PROPS["C04"]["gen"] = gen_union(PROPS["C04"]["gen"], lambda r, tier: gen_C13(r, tier)[:n_cases(tier, 1500, 8000)])

def gen_C17(r, tier):
    out = gen_queries(("dt", "cdt"), ["line", "line", "lineh"], n_cases(tier, 500, 5000), n_cases(tier, 500, 5000), styles=[('grid', 60), ('circle', 15), ('line', 15), ('cluster', 10)],
                      with_constraints=True, nq=20, f32_share=0.1)(r, "quick")
    # all segments between lattice points of a box one cell larger than a small point set; empty / single / collinear states
    for i in range(n_cases(tier, 250, 2500)):
        kind, scalar, hint = gen.pick_cfg(r, ("dt", "cdt"), 0.1)
        c = Case("g%d" % i, kind, scalar, hint)
        c.meta = {"style": "lattice-lines", "kind": kind, "scalar": scalar, "hint": hint}
        g = r.choice([1, 2, 2, 3])
        n = r.choice([0, 1, 2, 3, 4, 5, 7, 9])
        pts = [(float(r.range(-g, g)), float(r.range(-g, g))) for _ in range(n)]
        if r.chance(0.25):
            pts = [(float(t), 0.0) for t in range(-g, g + 1)][:max(n, 2)]
        for j, (x, y) in enumerate(pts):
            c.ins(x, y, j + 1)
        for _ in range(24):
            a = (float(r.range(-g - 1, g + 1)), float(r.range(-g - 1, g + 1)))
            b = (float(r.range(-g - 1, g + 1)), float(r.range(-g - 1, g + 1)))
            if r.chance(0.2):
                a = ((a[0] + b[0]) / 2.0, (a[1] + b[1]) / 2.0)
            c.add("line", bits(a[0]), bits(a[1]), bits(b[0]), bits(b[1]))
        out.append(c)
    for k, c in enumerate(out):
        c.cid = "n%d" % k
    # coordinates that are NOT small integers on a common scale (thirds, sevenths, 53-bit fractions): the iterator's floating-point projections
    # round; the model decides them exactly and is compared where the rounded comparisons provably take the same branch (Check/RunModel.v)
    for i in range(n_cases(tier, 150, 1500)):
        kind, _, hint = gen.pick_cfg(r, ("dt", "cdt"), 0.0)
        c = Case("x%d" % i, kind, "f64", hint)
        c.meta = {"style": "inexact-lines", "kind": kind, "scalar": "f64", "hint": hint}
        style = r.choice(["frac", "seventh", "chain"])
        n = r.choice([2, 3, 4, 5, 6, 8, 10])
        def rnd(lo, hi):
            return lo + (hi - lo) * (r.below(1 << 53) / float(1 << 53))
        pts = []
        for j in range(n):
            if style == "frac":
                q = (rnd(-3.0, 3.0), rnd(-3.0, 3.0))
            elif style == "seventh":
                q = (r.range(-7, 7) / 7.0, r.range(-7, 7) / 7.0)
            else:
                t = r.range(-5, 5)
                q = (t / 3.0, 2 * t / 3.0 + 0.1) if r.chance(0.8) else (rnd(-2.0, 2.0), rnd(-2.0, 2.0))
            pts.append(q)
            c.ins(q[0], q[1], j + 1)
        if kind == "cdt":
            c.add("tryc", "v%d" % r.below(64), "v%d" % r.below(64))
        def qp():
            u = r.below(100)
            if u < 35:
                return r.choice(pts)
            if u < 60:
                p0, p1 = r.choice(pts), r.choice(pts)
                return ((p0[0] + p1[0]) / 2, (p0[1] + p1[1]) / 2)
            if u < 75:
                p0, p1 = r.choice(pts), r.choice(pts)
                k = r.choice([2.0, -1.0, 3.0])
                return (p0[0] + k * (p1[0] - p0[0]), p0[1] + k * (p1[1] - p0[1]))
            return (rnd(-4.0, 4.0), rnd(-4.0, 4.0))
        for _ in range(14):
            if r.chance(0.3):
                c.add("lineh", "v%d" % r.below(64), "v%d" % r.below(64))
            else:
                a, b = qp(), qp()
                # line_to is not an extrapolated point: an extrapolation that lands within an ulp of a vertex makes `factor > length_2` round the wrong
                # way (the vertex, exactly on the supporting line and one ulp beyond line_to, is reported); witness kept, see the report of task M2
                while b not in pts and any(abs(b[0] - q[0]) + abs(b[1] - q[1]) < 1e-9 for q in pts):
                    b = qp()
                c.add("line", bits(a[0]), bits(a[1]), bits(b[0]), bits(b[1]))
        out.append(c)
    return out

PROPS["C17"] = dict(gen=gen_C17, tags=["lineiter", "parse"], events=True, level="proof",
    rule="segments between exactly representable points (vertices, midpoints, lattice points of a box one cell larger than the point set, segments leaving exactly through vertices, "
         "zero-length segments) on empty, single-vertex, collinear and two-dimensional DT/CDT states; in addition segments between vertices, computed midpoints and random points of "
         "point sets whose coordinates are thirds, sevenths or 53-bit fractions (f64); new() and new_from_handles(). Non-trivial: >= 3 operations.",
    theorems="Props/C17.v", assumptions=[])

def gen_C18(r, tier):
    out = []
    for i in range(n_cases(tier, 600, 6000)):
        c = gen.history(r, "o%d" % i, kinds=("dt",), max_ops=(14 if tier != "thorough" else 30), max_pts=(12 if tier != "thorough" else 30),
                        styles=exact_styles(), f32_share=0.2, w_rm=12)
        c.add("vor")
        if r.chance(0.3):
            c.add("rm", "v%d" % r.below(64))
            c.add("vor")
        out.append(c)
    return out

def gen_C19(r, tier):
    out = []
    for i in range(n_cases(tier, 500, 5000)):
        kind, scalar, hint = gen.pick_cfg(r, ("dt", "cdt"), 0.2)
        c = gen.history(r, "i%d" % i, kinds=(kind,), max_ops=12, max_pts=(12 if tier != "thorough" else 24), styles=[('grid', 60), ('circle', 20), ('cluster', 10), ('ray', 10)],
                        f32_share=0.2, w_rm=8, w_addc=(6 if kind == "cdt" else 0))
        pool = []
        for o in c.ops:
            t = o.split()
            if t[0] in ("ins", "insh"):
                pool.append((gen.from_bits(int(t[1])), gen.from_bits(int(t[2]))))
        for (x, y) in query_points(r, pool, 16):
            if c.scalar == "f32" and not (gen.is_f32(x) and gen.is_f32(y)):
                continue
            c.add("bary", bits(x), bits(y))
            if c.kind == "dt":
                c.add("nnw", bits(x), bits(y))
        out.append(c)
    return out

PROPS.update({
 "C18": dict(gen=gen_C18, tags=["voronoi", "delaunay", "wf", "parse", "decode"], events=True, level="proof",
             rule=STATE_RULE + " restricted to exactly representable coordinate differences; after each history every Voronoi accessor (from, to, direction_vector, face, next, prev, rev, per-face edge lists, circumcentres) is dumped and decided.",
             theorems="Props/C18.v", assumptions=["circumcentres are compared with the exact ones within a relative tolerance (1e-6 of the circumradius; 1e-3 for f32) on triangles whose circumradius is at most 100 shortest edges"]),
 "C19": dict(gen=gen_C19, tags=["interp", "parse"], events=True, level="proof",
             rule=STATE_RULE + " on well-conditioned inputs (small integer coordinates and midpoints); barycentric weights (DT and CDT) and natural-neighbour weights (DT) for query points on vertices, edge interiors, hull edges, inside faces, next to and outside the hull.",
             theorems="Props/C19.v", assumptions=["weights are decided within a relative tolerance of 1e-8 (f32: 5e-4): non-negativity, sum, reproduction of the query position"]),
})

def gen_hier_stress(quick, thorough, kinds=("dt", "cdt")):
    """hint-generator stress: grow / shrink to exactly 0, 1 or 2 vertices / regrow past multiples of the branch factor, re-insert
    removed positions, remove index 0, locate after every phase; hierarchy generators only"""
    def g(r, tier):
        out = []
        for i in range(n_cases(tier, quick, thorough)):
            kind = r.choice(list(kinds))
            hint = r.choice(["h2", "h3", "h16", "h2", "h3"])
            c = Case("y%d" % i, kind, "f64", hint)
            c.meta = {"style": "hier", "kind": kind, "scalar": "f64", "hint": hint}
            bf = {"h2": 2, "h3": 3, "h16": 16}[hint]
            used = set()
            live = []           # positions in index order (swap-remove semantics mirrored here)
            removed = []
            d = 1
            def fresh():
                while True:
                    p = (float(r.range(-9, 9)), float(r.range(-9, 9)))
                    if p not in used:
                        used.add(p)
                        return p
            def ins(p):
                nonlocal d
                c.ins(p[0], p[1], d); d += 1
                if p not in live:
                    live.append(p)
            def rm(idx):
                p = live[idx]
                c.add("rm", "V%d" % idx)
                live[idx] = live[-1]
                live.pop()
                removed.append(p)
            for _ in range(r.range(1, 4)):
                target = r.choice([bf, bf + 1, 2 * bf, 2 * bf + 1, bf * bf + 1, r.range(2, 3 * bf)])
                target = min(target, 40)
                while len(live) < target:
                    ins(r.choice(removed) if removed and r.chance(0.3) and r.choice(removed) not in live else fresh())
                c.add("loc", bits(float(r.range(-9, 9))), bits(float(r.range(-9, 9))))
                k = r.choice([0, 1, 1, 2, 3])
                while len(live) > k:
                    rm(0 if r.chance(0.5) else r.below(len(live)))
                c.add("loc", bits(float(r.range(-9, 9))), bits(float(r.range(-9, 9))))
            while len(live) < r.range(2, 2 * bf + 2):
                ins(r.choice(removed) if removed and r.chance(0.5) and r.choice(removed) not in live else fresh())
            if live:
                rm(0)
            for _ in range(4):
                c.add("loc", bits(float(r.range(-9, 9))), bits(float(r.range(-9, 9))))
                if live and r.chance(0.5):
                    rm(r.below(len(live)))
            out.append(c)
        return out
    return g

PROPS["C09"]["gen"] = gen_union(PROPS["C09"]["gen"], gen_hier_stress(1000, 6000))
PROPS["C05"]["gen"] = gen_union(PROPS["C05"]["gen"], gen_hier_stress(800, 5000))
PROPS["C07"]["gen"] = gen_union(PROPS["C07"]["gen"], gen_hier_stress(1000, 6000))
PROPS["C11"]["gen"] = gen_union(PROPS["C11"]["gen"], gen_hier_stress(800, 5000))
PROPS["C11"]["events"] = True
for _p in ("C13", "C20", "C17", "C18", "C19"):
    PROPS[_p]["events"] = True

PROPS["C09"]["model"] = True
PROPS["C09"]["tags"] = PROPS["C09"]["tags"] + ["corr"]

def scale_case(c, k):
    """multiplies every coordinate of the point-carrying operations by 2^k (exact)"""
    f = 2.0 ** k
    out = []
    for o in c.ops:
        t = o.split()
        if t[0] in ("ins", "insh", "lrm", "loc", "loch", "locv", "nn", "bary", "nnw"):
            t[1] = str(bits(gen.from_bits(int(t[1])) * f)); t[2] = str(bits(gen.from_bits(int(t[2])) * f))
        elif t[0] == "adde":
            for j in (1, 2, 4, 5):
                t[j] = str(bits(gen.from_bits(int(t[j])) * f))
        elif t[0] == "addes":
            n = int(t[1])
            for j in range(n):
                t[3 + 3 * j] = str(bits(gen.from_bits(int(t[3 + 3 * j])) * f)); t[4 + 3 * j] = str(bits(gen.from_bits(int(t[4 + 3 * j])) * f))
        elif t[0] in ("bulk", "bulks", "bulkc", "bulkcs"):
            n = int(t[1])
            for j in range(n):
                t[2 + 3 * j] = str(bits(gen.from_bits(int(t[2 + 3 * j])) * f)); t[3 + 3 * j] = str(bits(gen.from_bits(int(t[3 + 3 * j])) * f))
        out.append(" ".join(t))
    c.ops = out
    c.meta["scale"] = "2^%d" % k
    return c

_gen_C18_base = gen_C18
def gen_C18_scaled(r, tier):
    out = _gen_C18_base(r, tier)
    for c in out:
        if r.chance(0.5):
            k = r.choice([-20, -12, 10, 20]) if c.scalar == "f32" else r.choice([-60, -40, -30, -10, 10, 30, 60])
            scale_case(c, k)
    return out
PROPS["C18"]["gen"] = gen_C18_scaled
_gen_C19_base = gen_C19
def gen_C19_scaled(r, tier):
    out = _gen_C19_base(r, tier)
    for c in out:
        if r.chance(0.4):
            k = r.choice([-20, -12, 10, 20]) if c.scalar == "f32" else r.choice([-60, -40, -30, -10, 10, 30, 60])
            scale_case(c, k)
    return out
PROPS["C19"]["gen"] = gen_C19_scaled

def _incircle(a, b, c, q):
    ax, ay = a[0] - q[0], a[1] - q[1]; bx, by = b[0] - q[0], b[1] - q[1]; cx, cy = c[0] - q[0], c[1] - q[1]
    return ((ax * ax + ay * ay) * (bx * cy - by * cx) - (bx * bx + by * by) * (ax * cy - ay * cx) + (cx * cx + cy * cy) * (ax * by - ay * bx))
def _orient(a, b, c):
    return (b[0] - a[0]) * (c[1] - a[1]) - (b[1] - a[1]) * (c[0] - a[0])
def _lattice_circle(n):
    out = []
    k = int(math.isqrt(n))
    for x in range(-k, k + 1):
        y2 = n - x * x
        y = int(math.isqrt(y2))
        if y * y == y2:
            out.append((x, y))
            if y:
                out.append((x, -y))
    return out

def gen_C19_cocirc(r, tier):
    """natural-neighbour queries that are cocircular, or nearly so, with faces of the triangulation:
    (A) vertices on a lattice circle and queries a few representable steps inside / outside / on that circle,
    (B) a lattice triangle and the lattice points with the smallest non-zero in-circle determinants around its circumcircle."""
    out = []
    for i in range(n_cases(tier, 160, 1600)):
        f32 = r.chance(0.6)
        scalar = "f32" if f32 else "f64"
        c = Case("k%d" % i, "dt", scalar, r.choice(gen.HINTS))
        d = 1
        if r.chance(0.5):
            n = r.choice([25, 65, 85, 125, 325, 425, 1105])
            circ = _lattice_circle(n)
            r.shuffle(circ)
            k = r.range(3, min(7, len(circ) - 2))
            verts, others = circ[:k], circ[k:]
            if _orient(verts[0], verts[1], verts[2]) == 0:
                continue
            sh = (r.range(-5, 5), r.range(-5, 5)) if r.chance(0.5) else (0, 0)
            sc = 2.0 ** r.choice([0, 0, 0, 3, -3, 10, -10])
            rad = int(math.isqrt(n)) + 1
            box = [(4 * rad + r.range(0, 3), 4 * rad + r.range(0, 3)), (-4 * rad - r.range(0, 3), 4 * rad), (-4 * rad, -4 * rad - r.range(0, 3)), (4 * rad, -4 * rad)]
            pts = verts + box
            r.shuffle(pts)
            for (x, y) in pts:
                c.ins((x + sh[0]) * sc, (y + sh[1]) * sc, d); d += 1
            c.meta = {"style": "cocirc-ulp", "kind": "dt", "scalar": scalar, "hint": c.hint, "n": n}
            for (x, y) in others[:10]:
                fx, fy = (x + sh[0]) * sc, (y + sh[1]) * sc
                for _ in range(2):
                    j = r.choice([0, 1, 1, 2, 3, 5, -1, -2])      # steps towards the centre (negative: away)
                    qx, qy = fx, fy
                    if abs(x) >= abs(y):
                        qx = gen.ulp_step(fx, -j if x > 0 else j, f32)
                    else:
                        qy = gen.ulp_step(fy, -j if y > 0 else j, f32)
                    c.add("nnw", bits(qx), bits(qy))
                    if r.chance(0.3):
                        c.add("bary", bits(qx), bits(qy))
        else:
            R = r.choice([100, 200, 400, 800]) if f32 else r.choice([400, 3000, 20000])
            a = (r.range(0, R), r.range(0, R)); b = (r.range(0, R), r.range(0, R)); cc = (r.range(0, R), r.range(0, R))
            o = _orient(a, b, cc)
            if o == 0:
                continue
            if o < 0:
                b, cc = cc, b; o = -o
            # circumcentre = a + (ux, uy) / (2 o)
            bx, by, cx, cy = b[0] - a[0], b[1] - a[1], cc[0] - a[0], cc[1] - a[1]
            ux = (bx * bx + by * by) * cy - (cx * cx + cy * cy) * by
            uy = (cx * cx + cy * cy) * bx - (bx * bx + by * by) * cx
            ctr = (a[0] + ux / (2.0 * o), a[1] + uy / (2.0 * o))
            rad = math.hypot(ux, uy) / (2.0 * o)
            if rad > 1.5 * R:
                continue
            cands = []
            x0, x1 = int(math.ceil(ctr[0] - rad)), int(math.floor(ctr[0] + rad))
            xs = range(x0, x1 + 1) if x1 - x0 < 3000 else [r.range(x0, x1) for _ in range(3000)]
            for x in xs:
                h2 = rad * rad - (x - ctr[0]) ** 2
                if h2 < 0:
                    continue
                h = math.sqrt(h2)
                for y in {int(math.floor(ctr[1] + h)), int(math.ceil(ctr[1] + h)), int(math.floor(ctr[1] - h)), int(math.ceil(ctr[1] - h))}:
                    q = (x, y)
                    if q in (a, b, cc):
                        continue
                    if _orient(a, b, q) > 0 and _orient(b, cc, q) > 0 and _orient(cc, a, q) > 0:
                        continue
                    cands.append((_incircle(a, b, cc, q), q))
            pos = sorted([t for t in cands if t[0] > 0])[:8]
            zero = [t for t in cands if t[0] == 0][:2]
            neg = sorted([t for t in cands if t[0] < 0], reverse=True)[:2]
            m = int(4 * max(rad, R))
            ic = (int(ctr[0]), int(ctr[1]))
            box = [(ic[0] + m, ic[1] + m + r.range(0, 5)), (ic[0] - m - r.range(0, 5), ic[1] + m), (ic[0] - m, ic[1] - m), (ic[0] + m + r.range(0, 5), ic[1] - m)]
            pts = [a, b, cc] + box
            for _ in range(r.range(0, 3)):
                e = (r.range(ic[0] - m, ic[0] + m), r.range(ic[1] - m, ic[1] + m))
                if _incircle(a, b, cc, e) < 0:
                    pts.append(e)
            r.shuffle(pts)
            for (x, y) in pts:
                c.ins(float(x), float(y), d); d += 1
            c.meta = {"style": "cocirc-lattice", "kind": "dt", "scalar": scalar, "hint": c.hint, "R": R}
            for (_, q) in pos + zero + neg:
                c.add("nnw", bits(float(q[0])), bits(float(q[1])))
        out.append(c)
    return out
PROPS["C19"]["gen"] = gen_union(gen_C19_scaled, gen_C19_cocirc)

PROPS["C15"]["model"] = True
PROPS["C15"]["tags"] = PROPS["C15"]["tags"] + ["corr"]
PROPS["C01"]["model"] = True
PROPS["C01"]["tags"] = PROPS["C01"]["tags"] + ["corr"]
PROPS["C05"]["model"] = True
PROPS["C05"]["tags"] = PROPS["C05"]["tags"] + ["corr"]

def gen_line_rm(quick, thorough, kinds=("dt", "cdt"), query=("hull",)):
    """degenerate (all vertices on one line) triangulations that shrink and regrow: sorted and unsorted insertion orders,
    removal of end and inner vertices in every order down to 0 vertices, a query after every removal"""
    def g(r, tier):
        out = []
        for i in range(n_cases(tier, quick, thorough)):
            kind, scalar, hint = gen.pick_cfg(r, kinds, 0.15)
            c = Case("l%d" % i, kind, scalar, hint)
            c.meta = {"style": "line-rm", "kind": kind, "scalar": scalar, "hint": hint}
            dx, dy = r.choice([(1, 0), (0, 1), (1, 1), (2, -1), (3, 5), (-1, 2)])
            ox, oy = r.range(-4, 4), r.range(-4, 4)
            n = r.range(3, 7)
            ts = sorted(set(r.range(-6, 6) for _ in range(n + 2)))[:n]
            if r.chance(0.5):
                pass
            elif r.chance(0.5):
                ts.reverse()
            else:
                r.shuffle(ts)
            d = 1
            for t in ts:
                c.ins(float(ox + t * dx), float(oy + t * dy), d); d += 1
            live = len(ts)
            for _ in range(r.range(2, 8)):
                k = r.below(10)
                if k < 6 and live > 0:
                    sel = r.choice([0, live - 1, r.below(live), r.below(live)])
                    c.add("rm", "v%d" % sel); live -= 1     # modulo selector: live may over-estimate after duplicates
                elif k < 8:
                    t = r.range(-8, 8)
                    c.ins(float(ox + t * dx), float(oy + t * dy), d); d += 1; live += 1   # may be a duplicate: live is then an over-estimate
                else:
                    c.ins(float(ox + r.range(-3, 3)), float(oy + r.range(-3, 3)), d); d += 1; live += 1
                for q in query:
                    if q == "hull":
                        c.add("hull")
                    elif q in ("loc", "nn"):
                        t = r.range(-8, 8)
                        c.add(q, bits(float(ox + t * dx)), bits(float(oy + t * dy)))
            out.append(c)
        # exhaustive part: n sorted collinear vertices (both directions), every sequence of 3 removals by raw index, a query after each
        import itertools
        k = 0
        for n in ((4,) if tier == "quick" else (4, 5, 6)):
            for rev in (False, True):
                for seq in itertools.product(*[range(n - j) for j in range(3)]):
                    kind, scalar, hint = gen.pick_cfg(r, kinds, 0.1)
                    c = Case("x%d" % k, kind, scalar, hint); k += 1
                    c.meta = {"style": "line-rm-exhaustive", "kind": kind, "scalar": scalar, "hint": hint}
                    ts = list(range(n))
                    if rev:
                        ts.reverse()
                    for d, t in enumerate(ts):
                        c.ins(float(t), 0.0, d + 1)
                    for sel in seq:
                        c.add("rm", "V%d" % sel)
                        for q in query:
                            if q == "hull":
                                c.add("hull")
                            elif q in ("loc", "nn"):
                                c.add(q, bits(float(r.range(-1, n))), bits(0.0))
                    out.append(c)
        return out
    return g

PROPS["C14"]["gen"] = gen_union(PROPS["C14"]["gen"], gen_line_rm(150, 1500))
PROPS["C11"]["gen"] = gen_union(PROPS["C11"]["gen"], gen_line_rm(150, 1500, query=()))
PROPS["C02"]["gen"] = gen_union(PROPS["C02"]["gen"], gen_line_rm(100, 1000, query=("loc",)))

# an undocumented panic or hang of an operation on valid arguments leaves the property's observables undefined: every
# state-based property counts it (C07 is the property about panics as such; here it keeps a panic from hiding a broken state)
for _p in ("C01", "C02", "C03", "C04", "C10", "C14"):
    PROPS[_p]["events"] = True

def gen_bulk_rings(quick, thorough):
    """CDT bulk loads with constraint edges on point sets whose centre of mass (the sorting centre of the sweep) is far from the first few
    points (the centre of the hull structure): two or three clusters, L shapes, rings with near outliers. On these the insertion order is
    not monotone in the distance from the hull centre, the case in which the two hull walks of the sweep have real work to do.
    Constraints join points that are neighbours in the input list (crossing ones lead to the documented panic)."""
    import math
    def g(r, tier):
        out = []
        for i in range(n_cases(tier, quick, thorough)):
            kind, scalar, hint = gen.pick_cfg(r, ("cdt",), 0.1)
            c = Case("r%d" % i, "cdt", scalar, hint)
            st = r.choice(["clusters2", "clusters3", "lshape", "rings"])
            c.meta = {"style": st, "kind": "cdt", "scalar": scalar, "hint": hint}
            pts = []
            def add(p):
                p = (float(p[0]), float(p[1]))
                if p not in pts:
                    pts.append(p)
            if st in ("clusters2", "clusters3"):
                k = 2 if st == "clusters2" else 3
                spread, rad = r.choice([(20, 3), (40, 6), (40, 6)])
                cen = [(r.range(-spread, spread), r.range(-spread, spread)) for _ in range(k)]
                for _ in range(r.range(6, 20)):
                    cc = r.choice(cen)
                    add((cc[0] + r.range(-rad, rad), cc[1] + r.range(-rad, rad)))
            elif st == "lshape":
                for _ in range(r.range(6, 14)):
                    add((r.range(0, 30), r.range(0, 3)) if r.chance(0.5) else (r.range(0, 3), r.range(0, 30)))
            else:
                k = r.range(4, 9); R1 = r.range(5, 14)
                for j in range(k):
                    ang = 2 * math.pi * (j + r.range(-30, 30) / 100.0) / k
                    rad = R1 + r.range(-2, 2)
                    add((round(rad * math.cos(ang)), round(rad * math.sin(ang))))
                for _ in range(r.range(1, 5)):
                    ang = 2 * math.pi * r.range(0, 999) / 1000.0
                    rad = R1 + (r.range(3, 6) if r.chance(0.75) else r.range(2, 4 * R1))
                    add((round(rad * math.cos(ang)), round(rad * math.sin(ang))))
            if len(pts) < 4:
                continue
            toks = []
            for n, p in enumerate(pts):
                toks += [bits(p[0]), bits(p[1]), n + 1]
            es = []
            for _ in range(r.range(1, 2)):
                a = r.below(len(pts))
                es += [a, (a + 1) % len(pts)]
            c.add("bulkcs" if r.chance(0.5) else "bulkc", len(pts), *toks, len(es) // 2, *es)
            c.add("hull")
            out.append(c)
        return out
    return g

for _p, _q in (("C10", 1500), ("C14", 1500), ("C04", 800), ("C02", 800)):
    PROPS[_p]["gen"] = gen_union(PROPS[_p]["gen"], gen_bulk_rings(_q, 10 * _q))


# "exactly what the caller asked for" includes the chain that add_constraint_and_split must create from a to b
PROPS["C04"]["tags"] = PROPS["C04"]["tags"] + ["split"]

def gen_split_overlap(quick, thorough):
    """add_constraint_and_split along existing edges and through vertices, with constraints crossed directly behind such a vertex, in both
    directions, under the eight lattice symmetries; small integer coordinates (crossing points are half-integers or integers)"""
    def g(r, tier):
        out = []
        for i in range(n_cases(tier, quick, thorough)):
            kind, scalar, hint = gen.pick_cfg(r, ("cdt",), 0.1)
            c = Case("s%d" % i, "cdt", scalar, hint)
            c.meta = {"style": "split-overlap", "kind": "cdt", "scalar": scalar, "hint": hint}
            sx, sy, sw = r.choice([1, -1]), r.choice([1, -1]), r.chance(0.5)
            def T(x, y):
                x, y = sx * x, sy * y
                return (float(y), float(x)) if sw else (float(x), float(y))
            d = [1]
            def ins(x, y):
                p = T(x, y); c.ins(p[0], p[1], d[0]); d[0] += 1
            def adde(x1, y1, x2, y2):
                p, q = T(x1, y1), T(x2, y2)
                c.add("adde", bits(p[0]), bits(p[1]), d[0], bits(q[0]), bits(q[1]), d[0] + 1); d[0] += 2
            L = r.range(6, 12)
            ins(0, 0); ins(2 * L, 0)                                  # V0 = a, V1 = b
            xs = sorted(set(2 * r.range(1, L - 1) for _ in range(r.range(1, 4))))
            for x in xs:                                              # vertices on the segment
                ins(x, 0)
            if r.chance(0.5) and xs:
                adde(0, 0, xs[0], 0)                                  # an existing constraint along the first piece
            for x in xs + [0]:
                if r.chance(0.7):                                     # a constraint crossed directly behind (or before) a vertex on the segment
                    off = r.choice([1, 1, 3, -1])
                    if 0 < x + off < 2 * L and (x + off) not in xs:
                        adde(x + off, -r.range(1, 3) * 2, x + off + r.choice([0, 0, 2, -2]), r.range(1, 3) * 2)
            for _ in range(r.range(0, 4)):
                ins(r.range(0, 2 * L), r.choice([-5, -4, 4, 5]))
            a, b = ("V0", "V1") if r.chance(0.5) else ("V1", "V0")
            c.add("split", a, b)
            if r.chance(0.3):
                c.add("split", "v%d" % r.below(64), "v%d" % r.below(64))
            out.append(c)
        return out
    return g

for _p in ("C13", "C04", "C03"):
    PROPS[_p]["gen"] = gen_union(PROPS[_p]["gen"], gen_split_overlap(400, 4000))

def gen_near_edge(quick, thorough, qops=("loc", "loch")):
    """full-mantissa coordinates of mixed magnitude (1 .. 2^20) and queries that are the rounded images of points on edges (and of edge
    prolongations): the exact answer is decided by the last bits, and any inexact shortcut in front of the robust orientation predicate
    answers with the wrong face / side"""
    def g(r, tier):
        out = []
        for i in range(n_cases(tier, quick, thorough)):
            kind, scalar, hint = gen.pick_cfg(r, ("dt", "cdt"), 0.0)
            c = Case("n%d" % i, kind, "f64", hint)
            c.meta = {"style": "near-edge", "kind": kind, "scalar": "f64", "hint": hint}
            def rnd(scale):
                return (r.next() >> 11) / float(1 << 53) * scale * r.choice([1.0, 1.0, -1.0])
            pts = []
            for _ in range(r.range(3, 7)):
                s = r.choice([1.0, 1.0, 2.0 ** 10, 2.0 ** 20, 2.0 ** 20])
                pts.append((rnd(s), rnd(s)))
            for j, (x, y) in enumerate(pts):
                c.ins(x, y, j + 1)
            for _ in range(14):
                a, b = r.choice(pts), r.choice(pts)
                if a == b:
                    continue
                t = (r.next() >> 11) / float(1 << 53)
                if r.chance(0.15):
                    t = r.choice([-0.25, 1.25, 1.0, 0.0])
                q = (a[0] + t * (b[0] - a[0]), a[1] + t * (b[1] - a[1]))
                if r.chance(0.3):
                    q = (gen.ulp_step(q[0], r.range(-2, 2)), gen.ulp_step(q[1], r.range(-2, 2)))
                op = r.choice(list(qops))
                if op == "loch":
                    c.add("loch", bits(q[0]), bits(q[1]), "v%d" % r.below(16))
                elif op == "sq":
                    c.add("sq", "d%d" % r.below(64), bits(q[0]), bits(q[1]))
                else:
                    c.add(op, bits(q[0]), bits(q[1]))
            out.append(c)
        return out
    return g

PROPS["C09"]["gen"] = gen_union(PROPS["C09"]["gen"], gen_near_edge(300, 3000))
PROPS["C06"]["gen"] = gen_union(PROPS["C06"]["gen"], gen_near_edge(300, 3000, qops=("loc", "sq", "sq")))

# line iterator model (Tri/LineIter.v): index-exact item lists
PROPS["C17"]["model"] = True
PROPS["C17"]["tags"] = PROPS["C17"]["tags"] + ["corr"]
# get_conflicting_edges_between_points / _vertices and intersects_constraint run the same iterator: compared through Tri/LineIter.v
PROPS["C12"]["model"] = True
PROPS["C12"]["tags"] = PROPS["C12"]["tags"] + ["corr"]

# M1: executable model of vertex removal (Tri/Remove.v) compared index-exactly on every rm / trm / lrm
PROPS["C11"]["model"] = True
PROPS["C11"]["tags"] = PROPS["C11"]["tags"] + ["corr"]

def gen_rm_all(quick, thorough, kinds=("dt", "cdt")):
    """M1: tear-down histories for the removal model: a triangulation of 4..18 points (dense lattice, exactly cocircular sets, collinear runs,
    ulp-perturbed, wide magnitudes; incremental or bulk-loaded; CDTs with constraints through the vertices) is emptied vertex by vertex in
    random order -- every removal kind occurs in every history: interior / hull vertices of all degrees with cocircular neighbours,
    the transition to a collinear triangulation, end and inner chain vertices, the last 3 / 2 / 1 vertices; sometimes regrown and emptied again"""
    def g(r, tier):
        out = []
        for i in range(n_cases(tier, quick, thorough)):
            kind, scalar, hint = gen.pick_cfg(r, kinds, 0.15)
            style = r.weighted([('grid', 40), ('circle', 25), ('line', 8), ('ulp', 8), ('mag', 6), ('unimod', 6), ('bigcircle', 7)])
            c = Case("t%d" % i, kind, scalar, hint)
            c.meta = {"style": "rm-all-" + style, "kind": kind, "scalar": scalar, "hint": hint}
            n = r.range(4, 18 if tier != "thorough" else 40)
            pool = gen.point_cloud(r, n, style, scalar == "f32")
            if style == 'grid' and r.chance(0.5):
                g_ = r.range(1, 3)      # very dense lattice: squares and rectangles everywhere
                pool = [(float(r.range(-g_, g_)), float(r.range(-g_, g_))) for _ in range(n)]
            d = 1
            if r.chance(0.25):
                toks = []
                for (x, y) in pool:
                    toks += [bits(x), bits(y), d]; d += 1
                c.add(r.choice(["bulk", "bulks"]), len(pool), *toks)
            else:
                for (x, y) in pool:
                    c.ins(x, y, d); d += 1
            rounds = 2 if r.chance(0.2) else 1
            for rnd in range(rounds):
                if kind == "cdt":
                    for _ in range(r.range(0, 5)):
                        c.add(r.choice(["addc", "tryc", "tryc"]), "v%d" % r.below(64), "v%d" % r.below(64))
                live = len(set(pool))
                stop = 0 if rnd == rounds - 1 else r.range(0, 3)
                while live > stop:
                    sel = r.choice([0, live - 1, r.below(live), r.below(live), r.below(live)])
                    c.add(r.choice(["rm", "rm", "rm", "trm"]), "v%d" % sel)
                    live -= 1
                if rnd < rounds - 1:
                    for (x, y) in pool[:r.range(3, len(pool))]:
                        c.ins(x, y, d); d += 1
            out.append(c)
        return out
    return g

PROPS["C11"]["gen"] = gen_union(PROPS["C11"]["gen"], gen_rm_all(500, 5000))

def _circle_lattice(N):
    import math
    out = []
    m = int(math.isqrt(N))
    for x in range(-m, m + 1):
        y2 = N - x * x
        y = int(math.isqrt(y2))
        if y * y == y2:
            out.append((x, y))
            if y != 0:
                out.append((x, -y))
    return out

def gen_star_rm(quick, thorough, kinds=("dt", "cdt")):
    """M1: removals with long flip cascades.  (a) star: a hub inside a star-shaped, strongly non-convex ring of 6..40 vertices (the fan that
    remesh_edge_ring creates needs many and nested flips); (b) exact: ring = lattice points of one circle x^2+y^2 = 5*13*17*29 (all cocircular: no flip
    is allowed to happen) plus a few points just inside; (c) hullfan: a hull vertex far below a wide cloud (isolate_convex_hull_vertex flips a long
    chain of reflex neighbours).  The hub is removed first, then further vertices."""
    import math
    def g(r, tier):
        out = []
        for i in range(n_cases(tier, quick, thorough)):
            kind, scalar, hint = gen.pick_cfg(r, kinds, 0.0)
            mode = r.weighted([("star", 50), ("exact", 20), ("hullfan", 30)])
            c = Case("s%d" % i, kind, scalar, hint)
            c.meta = {"style": "rm-" + mode, "kind": kind, "scalar": scalar, "hint": hint}
            n = r.range(6, 28 if tier != "thorough" else 60)
            if mode == "star":
                R = r.choice([40, 100, 1000, 100000])
                hub = (0, 0)
                others = []
                offs = sorted(r.range(0, 3599) for _ in range(n))
                for o in offs:
                    ang = math.radians(o / 10.0)
                    rad = r.range(R // 3, R)
                    others.append((round(rad * math.cos(ang)), round(rad * math.sin(ang))))
            elif mode == "exact":
                pool = _circle_lattice(5 * 13 * 17 * 29)
                r.shuffle(pool)
                others = pool[:n]
                hub = (r.range(-40, 40), r.range(-40, 40))
                for _ in range(r.range(0, 4)):
                    x, y = r.choice(pool)
                    others.append((x - (1 if x > 0 else -1) * r.range(1, 3), y - (1 if y > 0 else -1) * r.range(1, 3)))
            else:
                W = r.choice([20, 100, 1000])
                hub = (r.range(-W, W), -r.choice([2, 5, 50]) * W)
                others = [(r.range(-W, W), r.range(0, max(2, W // r.choice([1, 4, 20])))) for _ in range(n)]
            pts = [hub] + others
            order = list(range(len(pts)))
            if r.chance(0.6):
                r.shuffle(order)
            distinct = []
            d = 1
            for j in order:
                c.ins(float(pts[j][0]), float(pts[j][1]), d); d += 1
                if pts[j] not in distinct:
                    distinct.append(pts[j])
            if kind == "cdt":
                for _ in range(r.range(0, 3)):
                    c.add("tryc", "v%d" % r.below(64), "v%d" % r.below(64))
            c.add("rm", "V%d" % distinct.index(hub))
            for _ in range(r.range(0, 6)):
                c.add("rm", "v%d" % r.below(64))
            out.append(c)
        return out
    return g

PROPS["C11"]["gen"] = gen_union(PROPS["C11"]["gen"], gen_star_rm(500, 5000))

def gen_locv_cdt(quick, thorough):
    """CDTs with long non-Delaunay constraint edges between close vertices (a greedy nearest-neighbour walk gets stuck at such an edge);
    locate / locate_vertex queries at vertex positions alternate across the constraint, so that the hint of one query is on the wrong side for the next"""
    def g(r, tier):
        out = []
        for i in range(n_cases(tier, quick, thorough)):
            kind, scalar, hint = gen.pick_cfg(r, ("cdt",), 0.1)
            c = Case("q%d" % i, "cdt", scalar, hint)
            c.meta = {"style": "locv-cdt", "kind": "cdt", "scalar": scalar, "hint": hint}
            L = r.choice([6, 10, 20])
            sw = r.chance(0.5)
            T = (lambda x, y: (float(y), float(x))) if sw else (lambda x, y: (float(x), float(y)))
            d = 1
            a, b = T(-L, 0), T(L, 0)
            c.add("adde", bits(a[0]), bits(a[1]), d, bits(b[0]), bits(b[1]), d + 1); d += 2
            up, dn = [], []
            for _ in range(r.range(1, 4)):
                p = T(r.range(-L // 2, L // 2), r.choice([1, 1, 2])); up.append(p)
            for _ in range(r.range(1, 4)):
                p = T(r.range(-L // 2, L // 2), -r.choice([1, 1, 2])); dn.append(p)
            for p in up + dn:
                c.ins(p[0], p[1], d); d += 1
            if r.chance(0.3):
                e, f = T(r.range(-L, L), 2 * L), T(r.range(-L, L), -2 * L)
                c.ins(e[0], e[1], d); d += 1; c.ins(f[0], f[1], d); d += 1
            for _ in range(10):
                p, q = r.choice(up), r.choice(dn)
                if r.chance(0.5):
                    p, q = q, p
                c.add(r.choice(["loc", "locv", "nn"]) if kind == "dt" else r.choice(["loc", "locv"]), bits(p[0]), bits(p[1]))
                c.add("locv", bits(q[0]), bits(q[1]))
            out.append(c)
        return out
    return g

PROPS["C09"]["gen"] = gen_union(PROPS["C09"]["gen"], gen_locv_cdt(200, 2000))

def gen_C20_quality(quick, thorough):
    """inputs on which the quality guarantee of a completed refinement applies: hull = rectangle (all fixed edges meet at 90 degrees), optional
    axis-parallel constraints (inner rectangle / cross), free points incl. exactly isosceles obtuse triples (ties in the shortest-edge selection)
    under the eight lattice symmetries, angle limit 20 degrees or less strict, max area sometimes, a vertex budget large enough to finish"""
    def g(r, tier):
        out = []
        for i in range(n_cases(tier, quick, thorough)):
            kind, scalar, hint = gen.pick_cfg(r, ("cdt",), 0.1)
            c = Case("u%d" % i, "cdt", scalar, hint)
            c.meta = {"style": "refine-quality", "kind": "cdt", "scalar": scalar, "hint": hint}
            W, H = r.range(8, 30), r.range(8, 30)
            sx, sy, sw = r.choice([1, -1]), r.choice([1, -1]), r.chance(0.5)
            def T(x, y):
                x, y = sx * x, sy * y
                return (float(y), float(x)) if sw else (float(x), float(y))
            pts = [(0, 0), (W, 0), (W, H), (0, H)]
            sparse = r.chance(0.6)                             # most cases: one triple and nothing else, so that the skinny face survives until it is examined
            for _ in range(1 if sparse else r.range(0, 3)):    # isosceles obtuse triples: base angles atan(b/a) between 10 and 20 degrees
                a, b = r.choice([(3, 1), (4, 1), (5, 1), (6, 2), (7, 2), (8, 2)])
                if 2 * a + 2 > W or b + 2 > H:
                    continue
                for _try in range(20):
                    x = r.range(a + 1, W - a - 1); y = r.range(1, H - b - 1)
                    up = r.choice([1, -1])
                    tri = [(x - a, y if up == 1 else y + b), (x + a, y if up == 1 else y + b), (x, y + b if up == 1 else y)]
                    o = _orient(tri[0], tri[1], tri[2])
                    t3 = tri if o > 0 else [tri[0], tri[2], tri[1]]
                    # the triple is a Delaunay face only if no other point is inside its circumcircle
                    if all(_incircle(t3[0], t3[1], t3[2], q) <= 0 for q in pts if q not in tri):
                        pts += tri
                        break
            for _ in range(0 if sparse else r.range(0, 4)):
                pts.append((r.range(1, W - 1), r.range(1, H - 1)))
            seen = []
            for p in pts:
                if p not in seen:
                    seen.append(p)
            order = list(range(len(seen)))
            if r.chance(0.7):
                r.shuffle(order)
            for n_, j in enumerate(order):
                q = T(*seen[j]); c.ins(q[0], q[1], n_ + 1)
            if not sparse and r.chance(0.3):                   # an axis-parallel constraint from hull to hull (meets the hull at 90 degrees)
                y = r.range(2, H - 2)
                a, b = T(0, y), T(W, y)
                c.add("adde", bits(a[0]), bits(a[1]), 500, bits(b[0]), bits(b[1]), 501)
            ratio = r.choice([bits(1.4619022000815436), bits(1.4619022000815436), bits(1.5), bits(2.0), bits(3.0)])
            maxa = r.choice(["-", "-", "-", bits(8.0), bits(20.0)])
            c.add("refine", ratio, "-", maxa, r.choice([150, 300]), 0, r.below(2))
            out.append(c)
        # a configuration in which the exactly isosceles skinny face is known to survive the refinement of its surroundings (found by search
        # for seeded change C20-4): rectangle 14 x 12, triple (4,2) (10,2) (7,1); all symmetries, random insertion orders, power-of-two scales
        base = [(0, 0), (14, 0), (14, 12), (0, 12), (4, 2), (10, 2), (7, 1)]
        k = 0
        for sym in range(8):
            for rep in range(4 if tier != "thorough" else 20):
                kind, scalar, hint = gen.pick_cfg(r, ("cdt",), 0.1)
                c = Case("w%d" % k, "cdt", scalar, hint); k += 1
                c.meta = {"style": "refine-quality-isosceles", "kind": "cdt", "scalar": scalar, "hint": hint}
                sc = 2.0 ** r.choice([0, 0, 1, -1, 3])
                pts = []
                for (x, y) in base:
                    if sym & 1: x = 14 - x
                    if sym & 2: y = 12 - y
                    if sym & 4: x, y = y, x
                    pts.append((x * sc, y * sc))
                r.shuffle(pts)
                for n_, q in enumerate(pts):
                    c.ins(q[0], q[1], n_ + 1)
                c.add("refine", bits(1.4619022000815436), "-", "-", 300, 0, r.below(2))
                out.append(c)
        return out
    return g

PROPS["C20"]["gen"] = gen_union(PROPS["C20"]["gen"], gen_C20_quality(250, 2500))

def translate_case(c, dx, dy):
    """adds (dx, dy) to every coordinate of the point-carrying operations; returns False (case unchanged) unless every sum is exact"""
    def coords(t):
        if t[0] in ("ins", "insh", "lrm", "loc", "loch", "locv", "nn", "bary", "nnw"):
            return [(1, 2)]
        if t[0] == "adde":
            return [(1, 2), (4, 5)]
        if t[0] == "addes":
            return [(2 + 3 * j, 3 + 3 * j) for j in range(int(t[1]))]
        if t[0] in ("bulk", "bulks", "bulkc", "bulkcs"):
            return [(2 + 3 * j, 3 + 3 * j) for j in range(int(t[1]))]
        return []
    from fractions import Fraction
    out = []
    for o in c.ops:
        t = o.split()
        for (i, j) in coords(t):
            for (k, dd) in ((i, dx), (j, dy)):
                x = gen.from_bits(int(t[k]))
                if x != x or abs(x) == float("inf"):
                    return False
                y = x + dd
                if Fraction(y) != Fraction(x) + Fraction(dd) or (c.scalar == "f32" and not gen.is_f32(y)):
                    return False
                t[k] = str(bits(y))
        out.append(" ".join(t))
    c.ops = out
    c.meta["translate"] = "%g,%g" % (dx, dy)
    return True

_gen_C18_scaled = PROPS["C18"]["gen"]
def gen_C18_translated(r, tier):
    out = _gen_C18_scaled(r, tier)
    for c in out:
        if "scale" not in c.meta and r.chance(0.35):
            k = r.choice([7, 8]) if c.scalar == "f32" else r.choice([20, 26, 27, 27])   # the circumcentre is only representable to ulp(offset): stay below the tolerance
            translate_case(c, 2.0 ** k * r.choice([1, -1, 3]), 2.0 ** k * r.choice([1, -1, 0]))
    return out
PROPS["C18"]["gen"] = gen_C18_translated
_gen_C19_prev = PROPS["C19"]["gen"]
def gen_C19_translated(r, tier):
    out = _gen_C19_prev(r, tier)
    for c in out:
        if "scale" not in c.meta and c.meta.get("style") not in ("cocirc-ulp", "cocirc-lattice") and r.chance(0.25):
            k = r.choice([7, 8]) if c.scalar == "f32" else r.choice([20, 26, 27, 27])
            translate_case(c, 2.0 ** k * r.choice([1, -1, 3]), 2.0 ** k * r.choice([1, -1, 0]))
    return out
PROPS["C19"]["gen"] = gen_C19_translated

# M7: executable model of natural-neighbour identification and of the vertex selection / order of the two interpolation front ends
# (Query/NatNeighbor.v): the sequence of vertex handles of every nnw / bary result must be the model's, element for element
PROPS["C19"]["model"] = True
PROPS["C19"]["tags"] = PROPS["C19"]["tags"] + ["corr"]

def gen_C19_m7(r, tier):
    """M7: location classes of the interpolation front ends, for the order-exact model tie:
    (A) empty, single-vertex, two-vertex and collinear states (sorted / shuffled insertion, optional removals): queries on every vertex,
        on every edge interior, beyond both ends, off the line;
    (B) full lattices of spacing 10 (optionally thinned by removals): queries on every kind of position -- vertices, inner-edge and
        hull-edge midpoints and quarter points, cell centres (on a diagonal or exactly cocircular with both faces of the cell), points
        exactly on the circumcircle of a cell inside a neighbouring cell or outside the hull, the same points one to three ulps
        inside / outside, points outside the hull."""
    out = []
    for i in range(n_cases(tier, 240, 2400)):
        kind, scalar, hint = gen.pick_cfg(r, ("dt", "dt", "cdt"), 0.3)
        f32 = scalar == "f32"
        c = Case("m%d" % i, kind, scalar, hint)
        d = 1
        qs = []
        if r.chance(0.45):
            n = r.choice([0, 1, 1, 2, 2, 3, 4, 5, 6])
            dx, dy = r.choice([(1, 0), (0, 1), (1, 1), (2, 1), (1, -3), (-2, 5), (3, 0), (0, -2)])
            ox, oy = r.range(-4, 4), r.range(-4, 4)
            sc = 2.0 ** r.choice([0, 0, 0, 1, -1, 7, -7, 20, -20])
            ts = list(range(0, 2 * n, 2))
            if r.chance(0.4):
                ts = sorted(set(r.range(-6, 6) * 2 for _ in range(n)))
            order = list(ts)
            if r.chance(0.6):
                r.shuffle(order)
            P = lambda t: ((ox + dx * t) * sc, (oy + dy * t) * sc)
            for t in order:
                x, y = P(t); c.ins(x, y, d); d += 1
            if order and r.chance(0.3):
                c.add("rm", "v%d" % r.below(64))
            c.meta = {"style": "m7-degenerate", "kind": kind, "scalar": scalar, "hint": hint, "n": len(order)}
            lo, hi = (min(ts), max(ts)) if ts else (0, 0)
            for t in ts:
                qs.append(P(t))
            for t in range(lo - 3, hi + 4):
                qs.append(P(t))                                                   # odd t: edge interiors; beyond the ends: extending
            for _ in range(6):
                t = r.range(lo - 2, hi + 2)
                x, y = P(t)
                qs.append((x - dy * sc * r.choice([1, -1, 2]), y + dx * sc * r.choice([1, -1, 2])))   # off the line
            qs.append((0.0, 0.0))
        else:
            m, n = r.range(2, 4), r.range(2, 4)
            ox, oy = 10 * r.range(-2, 2), 10 * r.range(-2, 2)
            sc = 2.0 ** r.choice([0, 0, 0, 2, -2, 9, -9])
            pts = [(ox + 10 * a, oy + 10 * b) for a in range(m) for b in range(n)]
            r.shuffle(pts)
            for (x, y) in pts:
                c.ins(x * sc, y * sc, d); d += 1
            for _ in range(r.choice([0, 0, 1, 2])):
                c.add("rm", "v%d" % r.below(64))
            c.meta = {"style": "m7-lattice", "kind": kind, "scalar": scalar, "hint": hint, "m": m, "n": n}
            cand = []
            for (x, y) in pts:
                cand.append((x, y))
            for a in range(m):
                for b in range(n):
                    x, y = ox + 10 * a, oy + 10 * b
                    cand += [(x + 5, y), (x, y + 5), (x + 2.5, y), (x, y + 7.5)]              # edge mid / quarter points (inner and hull)
                    cand += [(x + 5, y + 5)]                                                   # cell centre
                    cand += [(x + 5 + u, y + 5 + v) for (u, v) in [(7, 1), (7, -1), (-7, 1), (-7, -1), (1, 7), (-1, 7), (1, -7), (-1, -7)]]   # on the cell's circumcircle
                    cand += [(x + 3, y + 4), (x + 1, y + 2), (x + 5, y + 2.5)]
            cand += [(ox - 3, oy + 5), (ox + 10 * m, oy + 5), (ox + 5, oy - 10), (ox - 10, oy - 10), (ox + 10 * (m - 1) + 0.5, oy + 5)]
            r.shuffle(cand)
            for (x, y) in cand[:22]:
                fx, fy = x * sc, y * sc
                if r.chance(0.25):
                    j = r.choice([1, -1, 2, -2, 3])
                    if r.chance(0.5) and fx != 0.0:
                        fx = gen.ulp_step(fx, j, f32)
                    elif fy != 0.0:
                        fy = gen.ulp_step(fy, j, f32)
                qs.append((fx, fy))
        for (x, y) in qs:
            if f32 and not (gen.is_f32(x) and gen.is_f32(y)):
                continue
            if kind == "dt":
                c.add("nnw", bits(x), bits(y))
            c.add("bary", bits(x), bits(y))
        out.append(c)
    return out
PROPS["C19"]["gen"] = gen_union(PROPS["C19"]["gen"], gen_C19_m7)
PROPS["C19"]["rule"] = PROPS["C19"]["rule"] + (" In addition (M7) empty, single-vertex, two-vertex and collinear states with queries on vertices, edge interiors, "
    "beyond the ends and off the line, and full lattices of spacing 10 with queries on vertices, inner / hull edge points, cell centres, points exactly on and a few "
    "ulps off the circumcircle of a cell, points outside; the sequence of vertex handles of every nnw / bary result is compared with the model "
    "Query/NatNeighbor.v (tag corr).")

_gen_C13_prev = PROPS["C13"]["gen"]
def gen_C13_scaled(r, tier):
    """the C13 cases, a quarter of them scaled by a power of two (exact): intersection formulas must not depend on absolute thresholds"""
    out = _gen_C13_prev(r, tier)
    for c in out:
        if c.meta.get("style") != "split-coarse" and r.chance(0.25) and not any(o.split()[0].startswith("bulk") for o in c.ops):
            k = r.choice([-10, -20]) if c.scalar == "f32" else r.choice([-20, -30, -40, -60, 30, 60])
            scale_case(c, k)
    return out
PROPS["C13"]["gen"] = gen_C13_scaled

def gen_near_vertex_cdt(quick, thorough, qops=("canc", "tryc", "confv", "lineh")):
    """full-mantissa coordinates: a constraint c-d whose end point c is the ROUNDED image of a point of segment a-b (so c misses a-b by less
    than an ulp and c-d properly crosses a-b right next to c); admission / conflict queries between the vertices a and b, both directions.
    Any inexact orientation test takes c to be on a-b and misses the crossing."""
    def g(r, tier):
        out = []
        for i in range(n_cases(tier, quick, thorough)):
            kind, scalar, hint = gen.pick_cfg(r, ("cdt",), 0.0)
            c = Case("j%d" % i, "cdt", "f64", hint)
            c.meta = {"style": "near-vertex", "kind": "cdt", "scalar": "f64", "hint": hint}
            from fractions import Fraction as Fr
            def rnd(scale):
                return (r.next() >> 11) / float(1 << 53) * scale * r.choice([1.0, -1.0])
            s = r.choice([1.0, 2.0 ** 10, 2.0 ** 20, 2.0 ** 30])
            a = (rnd(s), rnd(s)); b = (rnd(s), rnd(s))
            t = 0.2 + 0.6 * (r.next() >> 11) / float(1 << 53)
            cpt = (a[0] + t * (b[0] - a[0]), a[1] + t * (b[1] - a[1]))
            def orient(p, q, w):
                return (Fr(q[0]) - Fr(p[0])) * (Fr(w[1]) - Fr(p[1])) - (Fr(q[1]) - Fr(p[1])) * (Fr(w[0]) - Fr(p[0]))
            oc = orient(a, b, cpt)
            if oc == 0:
                cpt = (gen.ulp_step(cpt[0], 1), cpt[1]); oc = orient(a, b, cpt)
                if oc == 0:
                    continue
            # d on the other side of a-b, roughly perpendicular from c
            nx, ny = -(b[1] - a[1]), (b[0] - a[0])
            sgn = -1.0 if oc > 0 else 1.0
            k = 0.1 + 0.3 * (r.next() >> 11) / float(1 << 53)
            dpt = (cpt[0] + sgn * k * nx, cpt[1] + sgn * k * ny)
            if orient(a, b, dpt) * oc >= 0:
                continue
            c.ins(a[0], a[1], 1); c.ins(b[0], b[1], 2)
            c.add("adde", bits(cpt[0]), bits(cpt[1]), 3, bits(dpt[0]), bits(dpt[1]), 4)
            for _ in range(r.range(0, 3)):
                c.ins(rnd(s), rnd(s), 10 + len(c.ops))
            for _ in range(4):
                op = r.choice(list(qops))
                u, v = ("V0", "V1") if r.chance(0.5) else ("V1", "V0")
                c.add(op, u, v)
            out.append(c)
        return out
    return g

PROPS["C12"]["gen"] = gen_union(PROPS["C12"]["gen"], gen_near_vertex_cdt(300, 3000, qops=("canc", "tryc", "confv")))
PROPS["C17"]["gen"] = gen_union(PROPS["C17"]["gen"], gen_near_vertex_cdt(150, 1500, qops=("lineh",)))
PROPS["C04"]["gen"] = gen_union(PROPS["C04"]["gen"], gen_near_vertex_cdt(150, 1500, qops=("tryc", "addc")))

def gen_near_corner_cdt(quick, thorough, qops=("confp", "isc", "line")):
    """full-mantissa coordinates: point-pair queries that start strictly inside a face and leave it within an ulp of one of its corners
    (the end point is the rounded image of start + k (corner - start)); the face's edges are constraint edges"""
    def g(r, tier):
        out = []
        for i in range(n_cases(tier, quick, thorough)):
            kind, scalar, hint = gen.pick_cfg(r, ("cdt",), 0.0)
            c = Case("c%d" % i, "cdt", "f64", hint)
            c.meta = {"style": "near-corner", "kind": "cdt", "scalar": "f64", "hint": hint}
            def rnd(scale):
                return (r.next() >> 11) / float(1 << 53) * scale * r.choice([1.0, -1.0])
            s = r.choice([1.0, 2.0 ** 10, 2.0 ** 20, 2.0 ** 30])
            P = [(rnd(s), rnd(s)) for _ in range(3)]
            d = 1
            for j in range(3):
                p, q = P[j], P[(j + 1) % 3]
                c.add("adde", bits(p[0]), bits(p[1]), d, bits(q[0]), bits(q[1]), d + 1); d += 2
            for _ in range(r.range(1, 4)):
                c.ins(rnd(2 * s), rnd(2 * s), d); d += 1
            for _ in range(8):
                w = [0.2 + (r.next() >> 11) / float(1 << 53) for _ in range(3)]
                W = sum(w)
                st = (sum(w[j] * P[j][0] for j in range(3)) / W, sum(w[j] * P[j][1] for j in range(3)) / W)
                v = r.choice(P)
                k = r.choice([1.5, 2.0, 3.0, 1.0, 0.5])
                e = (st[0] + k * (v[0] - st[0]), st[1] + k * (v[1] - st[1]))
                if r.chance(0.3):
                    e = (gen.ulp_step(e[0], r.range(-2, 2)), gen.ulp_step(e[1], r.range(-2, 2)))
                c.add(r.choice(list(qops)), bits(st[0]), bits(st[1]), bits(e[0]), bits(e[1]))
            out.append(c)
        return out
    return g

PROPS["C12"]["gen"] = gen_union(PROPS["C12"]["gen"], gen_near_corner_cdt(300, 3000, qops=("confp", "isc")))
PROPS["C17"]["gen"] = gen_union(PROPS["C17"]["gen"], gen_near_corner_cdt(150, 1500, qops=("line",)))

def gen_rm_cdt_dense(quick, thorough):
    """CDT tear-down with many long constraints: on a dense lattice most constraint edges are not Delaunay edges, so the faces outside the hole of a
    removed vertex are often non-Delaunay with respect to the hole's border vertices (hidden behind a constraint); every vertex is removed in turn"""
    def g(r, tier):
        out = []
        for i in range(n_cases(tier, quick, thorough)):
            kind, scalar, hint = gen.pick_cfg(r, ("cdt",), 0.1)
            c = Case("k%d" % i, "cdt", scalar, hint)
            c.meta = {"style": "rm-cdt-dense", "kind": "cdt", "scalar": scalar, "hint": hint}
            gx, gy = r.range(2, 5), r.range(2, 4)
            pts = list({(r.range(0, 2 * gx), r.range(0, 2 * gy)) for _ in range(r.range(8, 16))})
            r.shuffle(pts)
            d = 1
            for (x, y) in pts:
                c.ins(float(x), float(y), d); d += 1
            for _ in range(r.range(5, 12)):
                c.add("tryc", "v%d" % r.below(64), "v%d" % r.below(64))
            live = len(pts)
            for _ in range(r.range(3, live)):
                c.add(r.choice(["rm", "rm", "trm"]), "v%d" % r.below(live)); live -= 1
                if r.chance(0.3):
                    c.add("tryc", "v%d" % r.below(64), "v%d" % r.below(64))
            out.append(c)
        return out
    return g

PROPS["C11"]["gen"] = gen_union(PROPS["C11"]["gen"], gen_rm_cdt_dense(600, 6000))
PROPS["C03"]["gen"] = gen_union(PROPS["C03"]["gen"], gen_rm_cdt_dense(300, 3000))

def gen_rm_cdt_hidden(quick, thorough):
    """removal of an interior CDT vertex whose hole has a border vertex hidden behind a constraint from a face adjacent to the hole (the face is
    constrained Delaunay but has that border vertex inside its circumcircle): a configuration found by search for seeded change C11-4, under the
    eight lattice symmetries, exact scalings / translations, the original and shuffled insertion orders"""
    base = [(5, 7), (5, 4), (8, 2), (5, 5), (2, 6), (6, 1), (9, 1), (4, 4)]
    cons = [((8, 2), (2, 6)), ((4, 4), (9, 1))]
    def g(r, tier):
        out = []
        k = 0
        for sym in range(8):
            for rep in range(quick // 8 if tier != "thorough" else thorough // 8):
                kind, scalar, hint = gen.pick_cfg(r, ("cdt",), 0.1)
                c = Case("g%d" % k, "cdt", scalar, hint); k += 1
                c.meta = {"style": "rm-cdt-hidden", "kind": "cdt", "scalar": scalar, "hint": hint}
                sc = 2.0 ** r.choice([0, 0, 1, -2, 5])
                tx, ty = (r.range(-8, 8), r.range(-8, 8)) if r.chance(0.5) else (0, 0)
                def T(p):
                    x, y = p
                    if sym & 1: x = 10 - x
                    if sym & 2: y = 10 - y
                    if sym & 4: x, y = y, x
                    return ((x + tx) * sc, (y + ty) * sc)
                order = list(range(len(base)))
                if rep > 0 and r.chance(0.7):
                    r.shuffle(order)
                for n_, j in enumerate(order):
                    q = T(base[j]); c.ins(q[0], q[1], n_ + 1)
                idx = {base[j]: n_ for n_, j in enumerate(order)}
                for (p, q) in cons:
                    c.add("addc", "V%d" % idx[p], "V%d" % idx[q])
                c.add(r.choice(["rm", "rm", "trm"]), "V%d" % idx[(8, 2)])
                for _ in range(r.range(0, 3)):
                    c.add("rm", "v%d" % r.below(64))
                out.append(c)
        return out
    return g

PROPS["C11"]["gen"] = gen_union(PROPS["C11"]["gen"], gen_rm_cdt_hidden(48, 480))
PROPS["C03"]["gen"] = gen_union(PROPS["C03"]["gen"], gen_rm_cdt_hidden(48, 480))

def gen_bulk_nn(quick, thorough):
    """nearest_neighbor on bulk-loaded triangulations of small integer point sets (squared distances exact): many queries per case, all over
    the bounding box enlarged by a margin"""
    def g(r, tier):
        out = []
        for i in range(n_cases(tier, quick, thorough)):
            kind, scalar, hint = gen.pick_cfg(r, ("dt",), 0.1)
            c = Case("a%d" % i, "dt", scalar, hint)
            c.meta = {"style": "bulk-nn", "kind": "dt", "scalar": scalar, "hint": hint}
            G = r.choice([6, 6, 10, 20])
            pts = list({(r.range(-G, G), r.range(-G, G)) for _ in range(r.range(5, 18))})
            toks = []
            for j, (x, y) in enumerate(pts):
                toks += [bits(float(x)), bits(float(y)), j + 1]
            c.add(r.choice(["bulk", "bulks"]), len(pts), *toks)
            if G == 6:
                for x in range(-G - 3, G + 4):                 # every lattice point of the enlarged bounding box
                    for y in range(-G - 3, G + 4):
                        c.add("nn", bits(float(x)), bits(float(y)))
            else:
                for _ in range(60):
                    c.add("nn", bits(float(r.range(-G - 6, G + 6))), bits(float(r.range(-G - 6, G + 6))))
            out.append(c)
        return out
    return g

PROPS["C15"]["gen"] = gen_union(PROPS["C15"]["gen"], gen_bulk_nn(1600, 8000))

# M4: executable model of constraint insertion without splitting (Tri/AddConstraint.v) compared index-exactly on every addc / tryc / canc
for _p in ("C04", "C03"):
    PROPS[_p]["model"] = True
    PROPS[_p]["tags"] = PROPS[_p]["tags"] + ["corr"]

def gen_addc_model(quick, thorough):
    """M4: histories for the constraint-insertion model.  Distinct points (vertex index = insertion order), then can_add_constraint /
    add_constraint / try_add_constraint between chosen vertex pairs, in both directions, repeated (duplicates), a == b, with
    remove_constraint_edge / removals / insertions in between.  Modes: long (a cloud of 12..50 points and pairs that are far apart: the
    segment crosses many free edges; later ones are refused), strip (two or three rows: a horizontal constraint crosses every rung, with
    vertices exactly on the segment), lattice (dense lattice: collinear chains, pieces along existing edges, partly constrained), hull
    (points in convex position incl. collinear runs on the hull: constraints along and across the hull), cocirc (lattice points of one
    circle: every legalization test after the rotation is a tie), line (all vertices on one line: degenerate states), fan (a vertex
    seeing a long chain of points: the conflict region is a fan that must be re-triangulated from both sides)."""
    import math
    def g(r, tier):
        out = []
        for i in range(n_cases(tier, quick, thorough)):
            kind, scalar, hint = gen.pick_cfg(r, ("cdt",), 0.08)
            mode = r.weighted([("long", 30), ("strip", 16), ("lattice", 16), ("hull", 10), ("cocirc", 8), ("line", 6), ("fan", 14)])
            c = Case("ac%d" % i, "cdt", scalar, hint)
            c.meta = {"style": "addc-" + mode, "kind": "cdt", "scalar": scalar, "hint": hint}
            big = tier == "thorough"
            pts, pairs = [], []
            if mode == "long":
                n = r.range(12, 50 if big else 36)
                W = r.choice([6, 12, 40, 300, 5000]) if scalar == "f64" else r.choice([6, 12, 40, 300])
                pts = [(r.range(-W, W), r.range(-W, W)) for _ in range(n)]
            elif mode == "strip":
                m = r.range(3, 16 if big else 11)
                H = r.choice([1, 1, 2, 5])
                rows = r.choice([2, 3])
                for x in range(m):
                    pts.append((2 * x + r.choice([0, 0, 1]), H))
                    pts.append((2 * x + r.choice([0, 0, 1]), -H * r.choice([1, 1, 3])))
                    if rows == 3 and r.chance(0.3):
                        pts.append((2 * x, 0))              # exactly on the segment
                pts += [(-2, 0), (2 * m + 1, 0)]
                if r.chance(0.4):
                    pts += [(-3, r.choice([-1, 1]) * H), (2 * m + 3, 0)]
            elif mode == "lattice":
                gx, gy = r.range(1, 4), r.range(1, 3)
                pts = [(x, y) for x in range(-gx, gx + 1) for y in range(-gy, gy + 1) if r.chance(0.85)]
            elif mode == "hull":
                n = r.range(5, 16)
                R = r.choice([10, 100, 1000])
                for k in range(n):
                    ang = 2 * math.pi * k / n
                    pts.append((round(R * math.cos(ang)), round(R * math.sin(ang))))
                if r.chance(0.5):                           # collinear runs on the hull: a square frame
                    s = r.range(2, 5)
                    pts = [(x, y) for x in range(-s, s + 1) for y in range(-s, s + 1) if (abs(x) == s or abs(y) == s) and r.chance(0.8)]
                for _ in range(r.range(0, 4)):
                    pts.append((r.range(-2, 2), r.range(-2, 2)))
            elif mode == "cocirc":
                pool = _circle_lattice(r.choice([25, 65, 325, 1105, 5 * 13 * 17 * 29]))
                r.shuffle(pool)
                pts = pool[:r.range(5, 24)]
                for _ in range(r.range(0, 3)):
                    pts.append((r.range(-3, 3), r.range(-3, 3)))
            elif mode == "line":
                dx, dy = r.choice([(1, 0), (0, 1), (1, 1), (2, -1)])
                pts = [(dx * t, dy * t) for t in range(-r.range(1, 5), r.range(1, 6))]
                if r.chance(0.25):
                    pts.append((dx - dy * 3, dy + dx * 3))  # leaves the line: a fan of triangles over a collinear chain
            else:  # fan
                m = r.range(4, 22 if big else 14)
                pts = [(0, -r.choice([3, 10, 40]))]
                prof = r.choice(["flat", "dent", "bump", "rand"])
                for x in range(-m // 2, m // 2 + 1):
                    y = {"flat": 0, "dent": abs(x), "bump": -((x * x) // 3), "rand": r.range(0, 4)}[prof]
                    pts.append((2 * x, 4 + y))
                pts.append((r.range(-m, m), 60))
                pts += [(-m - 3, 1), (m + 3, 1)]
            if mode != "strip" or r.chance(0.5):
                r.shuffle(pts)
            seen, P_ = set(), []
            for q in pts:
                if q not in seen:
                    seen.add(q); P_.append(q)
            pts = P_
            sc = 1.0
            if r.chance(0.1):
                sc = 2.0 ** (r.choice([-20, -3, 7, 40]) if scalar == "f64" else r.choice([-3, 2]))
            d = 1
            if r.chance(0.12) and len(pts) >= 3:
                toks = []
                for (x, y) in pts:
                    toks += [bits(x * sc), bits(y * sc), d]; d += 1
                c.add("bulks", len(pts), *toks)              # stable bulk load keeps the indices
            else:
                for (x, y) in pts:
                    c.ins(x * sc, y * sc, d); d += 1
            n = len(pts)
            idx = {q: k for k, q in enumerate(pts)}
            def far_pair():
                a = r.below(n)
                best = max(range(n), key=lambda k: (pts[k][0] - pts[a][0]) ** 2 + (pts[k][1] - pts[a][1]) ** 2 + r.below(3))
                return a, (best if r.chance(0.6) else r.below(n))
            nq = r.range(4, 14)
            last = None
            for _ in range(nq):
                w = r.below(100)
                if last is not None and w < 12:
                    a, b = last if r.chance(0.5) else (last[1], last[0])       # duplicate / reversed duplicate
                elif w < 18:
                    a = r.below(n); b = a                                       # a == b
                elif mode == "strip" and w < 60:
                    a, b = idx[(-2, 0)], idx[(2 * m + 1, 0)]
                    if r.chance(0.3):
                        a, b = b, a
                elif mode == "fan" and w < 60:
                    a, b = idx[(-m - 3, 1)], idx[(m + 3, 1)]
                    if r.chance(0.3):
                        a, b = b, a
                elif mode in ("long", "cocirc", "hull") and w < 70:
                    a, b = far_pair()
                else:
                    a, b = r.below(n), r.below(n)
                last = (a, b)
                if r.chance(0.35):
                    c.add("canc", "v%d" % a, "v%d" % b)
                c.add(r.choice(["addc", "tryc", "tryc"]), "v%d" % a, "v%d" % b)
                if r.chance(0.08):
                    c.add("rmc", "e%d" % r.below(64))
                if r.chance(0.05):
                    c.add("rm", "v%d" % r.below(n))
                    n = max(1, n - 1)
                    idx = {}
                    mode = "free"
                if r.chance(0.05):
                    c.ins(float(r.range(-5, 5)) * sc, float(r.range(-5, 5)) * sc, d); d += 1
            out.append(c)
        return out
    return g

PROPS["C12"]["gen"] = gen_union(PROPS["C12"]["gen"], gen_addc_model(1200, 12000))
PROPS["C04"]["gen"] = gen_union(PROPS["C04"]["gen"], gen_addc_model(600, 6000))
PROPS["C03"]["gen"] = gen_union(PROPS["C03"]["gen"], gen_addc_model(600, 6000))



# M5: executable model of the flood-fill iterator (Query/FloodFill.v): result lists of vrect / erect / vcirc / ecirc compared in order
PROPS["C16"]["model"] = True
PROPS["C16"]["tags"] = PROPS["C16"]["tags"] + ["corr"]

def gen_flood(quick, thorough, kinds=("dt", "cdt"), f32_share=0.1):
    """M5: rectangle / circle queries for the flood-fill model (Query/FloodFill.v) on triangulations of 0..45 lattice / cocircular / collinear /
    clustered integer points (bulk-loaded or inserted): shapes containing the whole hull, outside the hull (beside the bounding box, and inside
    the bounding box beyond a slanted hull edge), degenerate shapes (a point on a vertex / an edge / in a face / outside, axis-parallel segments through
    vertices and along edges, inverted rectangles, radius 0), rectangles with corners on vertices and sides along lattice edges, circles through
    vertices and tangent to edges, thin slivers across the whole triangulation and medium shapes (the loop runs into itself)"""
    def g(r, tier):
        out = []
        for i in range(n_cases(tier, quick, thorough)):
            kind, scalar, hint = gen.pick_cfg(r, kinds, f32_share)
            c = Case("ff%d" % i, kind, scalar, hint)
            style = r.weighted([('grid', 40), ('dense', 25), ('circle', 10), ('line', 8), ('cluster', 7), ('tiny', 10)])
            nmax = 45 if tier != "thorough" else 70
            if style == 'tiny':
                n = r.range(0, 3)
                pts = [gen.grid_point(r, 2) for _ in range(n)]
            elif style == 'dense':
                w, h = r.range(2, 7), r.range(2, 6)
                ox, oy = r.range(-4, 2), r.range(-4, 2)
                pts = [(float(ox + x), float(oy + y)) for x in range(w) for y in range(h) if not r.chance(0.15)]
                r.shuffle(pts)
            else:
                n = r.range(3, nmax)
                pts = gen.point_cloud(r, n, style, scalar == "f32")
            c.meta = {"style": "flood-" + style, "kind": kind, "scalar": scalar, "hint": hint}
            if r.chance(0.7) and pts:
                toks = []
                for j, (x, y) in enumerate(pts):
                    toks += [bits(x), bits(y), j + 1]
                c.add("bulks" if r.chance(0.5) else "bulk", len(pts), *toks)
            else:
                for j, (x, y) in enumerate(pts[:25]):
                    c.ins(x, y, j + 1)
                pts = pts[:25]
            pool = pts if pts else [(0.0, 0.0)]
            xs = [p[0] for p in pool]; ys = [p[1] for p in pool]
            x0, x1, y0, y1 = min(xs), max(xs), min(ys), max(ys)
            def vertex():
                return r.choice(pool)
            def anyp():
                k = r.below(5)
                if k == 0:
                    return vertex()
                if k == 1:
                    a, b = vertex(), vertex()
                    return ((a[0] + b[0]) / 2.0, (a[1] + b[1]) / 2.0)
                if k == 2:
                    a, b, cc = vertex(), vertex(), vertex()
                    return ((a[0] + b[0] + 2 * cc[0]) / 4.0, (a[1] + b[1] + 2 * cc[1]) / 4.0)
                if k == 3:
                    return (float(r.range(int(x0) - 3, int(x1) + 3)), float(r.range(int(y0) - 3, int(y1) + 3)))
                return (r.range(2 * int(x0) - 4, 2 * int(x1) + 4) / 2.0, r.range(2 * int(y0) - 4, 2 * int(y1) + 4) / 2.0)
            def rect(lo, hi):
                c.add(r.choice(["vrect", "erect"]), bits(lo[0]), bits(lo[1]), bits(hi[0]), bits(hi[1]))
            def circ(cc, r2):
                c.add(r.choice(["vcirc", "ecirc"]), bits(cc[0]), bits(cc[1]), bits(float(r2)))
            for _ in range(r.range(10, 24)):
                k = r.below(17)
                if k == 16:     # an axis-parallel segment strictly inside the span of two vertices on one lattice line (no end point on a vertex)
                    a = vertex()
                    same = [b for b in pool if b != a and (b[0] == a[0] or b[1] == a[1])]
                    if same:
                        b = r.choice(same)
                        p1 = (a[0] + (b[0] - a[0]) / 4.0, a[1] + (b[1] - a[1]) / 4.0); p2 = (a[0] + 3 * (b[0] - a[0]) / 4.0, a[1] + 3 * (b[1] - a[1]) / 4.0)
                        if r.chance(0.3): p2 = p1
                        rect((min(p1[0], p2[0]), min(p1[1], p2[1])), (max(p1[0], p2[0]), max(p1[1], p2[1])))
                    else:
                        rect(a, a)
                elif k == 0:      # contains the whole hull (exactly the bounding box, or with a margin)
                    m = r.choice([0.0, 0.0, 0.5, 1.0, 100.0])
                    rect((x0 - m, y0 - m), (x1 + m, y1 + m))
                elif k == 1:    # beside the bounding box (touching it or not)
                    m = r.choice([0.0, 0.5, 1.0, 7.0])
                    side = r.below(4)
                    w = float(r.range(0, 5))
                    if side == 0: rect((x1 + m, y0 - 1), (x1 + m + w, y1 + 1))
                    elif side == 1: rect((x0 - m - w, y0), (x0 - m, y1))
                    elif side == 2: rect((x0 - 2, y1 + m), (x1 + 2, y1 + m + w))
                    else: rect((x0, y0 - m - w), (x1, y0 - m))
                elif k == 2:    # a corner region of the bounding box (often beyond a slanted hull edge)
                    w = r.choice([0.5, 1.0, 1.5, 2.0])
                    cx = r.choice([x0, x1]); cy = r.choice([y0, y1])
                    rect((min(cx, cx + (w if cx == x0 else -w)), min(cy, cy + (w if cy == y0 else -w))),
                         (max(cx, cx + (w if cx == x0 else -w)), max(cy, cy + (w if cy == y0 else -w))))
                elif k == 3:    # a point
                    p = anyp(); rect(p, p)
                elif k == 4:    # an axis-parallel segment through a vertex / along lattice edges
                    p = vertex(); l = float(r.range(0, 8)); l2 = float(r.range(0, 8))
                    if r.chance(0.5): rect((p[0] - l, p[1]), (p[0] + l2, p[1]))
                    else: rect((p[0], p[1] - l), (p[0], p[1] + l2))
                elif k == 5:    # inverted
                    a, b = anyp(), anyp()
                    lo = (max(a[0], b[0]) + r.choice([0.0, 1.0]), max(a[1], b[1])); hi = (min(a[0], b[0]), min(a[1], b[1]) - r.choice([0.0, 1.0]))
                    if r.chance(0.3): lo, hi = (hi[0], lo[1]), (lo[0], hi[1])           # inverted in y only
                    rect(lo, hi)
                elif k == 6:    # corners on vertices
                    a, b = vertex(), vertex()
                    rect((min(a[0], b[0]), min(a[1], b[1])), (max(a[0], b[0]), max(a[1], b[1])))
                elif k == 7:    # thin sliver across the triangulation
                    if r.chance(0.5):
                        y = r.range(2 * int(y0), 2 * int(y1)) / 2.0; t = r.choice([0.0, 0.25, 0.5, 1.0])
                        rect((x0 - r.choice([0.0, 1.0, -1.0]), y), (x1 + r.choice([0.0, 1.0, -1.0]), y + t))
                    else:
                        x = r.range(2 * int(x0), 2 * int(x1)) / 2.0; t = r.choice([0.0, 0.25, 0.5, 1.0])
                        rect((x, y0 - r.choice([0.0, 1.0, -1.0])), (x + t, y1 + r.choice([0.0, 1.0, -1.0])))
                elif k in (8, 9):   # general rectangle
                    a, b = anyp(), anyp()
                    rect((min(a[0], b[0]), min(a[1], b[1])), (max(a[0], b[0]), max(a[1], b[1])))
                elif k == 10:   # circle through a vertex (centre anywhere)
                    cc, v = anyp(), vertex()
                    circ(cc, (cc[0] - v[0]) ** 2 + (cc[1] - v[1]) ** 2)
                elif k == 11:   # radius 0
                    circ(anyp(), 0.0)
                elif k == 12:   # containing everything / far away
                    if r.chance(0.5): circ(anyp(), 4.0 * ((x1 - x0) ** 2 + (y1 - y0) ** 2) + 100.0)
                    else: circ((x1 + float(r.range(2, 9)), y1 + float(r.range(0, 9))), float(r.choice([0, 1, 2, 4])))
                elif k == 13:   # tangent to an axis-parallel line through a vertex
                    cc, v = anyp(), vertex()
                    dd = cc[0] - v[0] if r.chance(0.5) else cc[1] - v[1]
                    circ(cc, dd * dd)
                else:           # general circle
                    circ(anyp(), r.choice([0.25, 0.5, 1.0, 2.0, 4.0, 5.0, 6.25, 9.0, 13.0, 25.0, float(r.range(0, 60))]))
            out.append(c)
        return out
    return g

PROPS["C16"]["gen"] = gen_union(PROPS["C16"]["gen"], gen_flood(300, 4000))

def gen_flood_inexact(quick, thorough, kinds=("dt", "cdt"), f32_share=0.25):
    """M5: the same queries on inputs whose floating-point evaluation ROUNDS (compared through the IEEE metrics of Query/FloodFillFloat.v):
    ulp-perturbed lattices, decimal fractions, extreme magnitudes, nearly collinear big coordinates, f32; shape parameters that are decimal
    fractions, one ulp beside vertex coordinates, radii equal to rounded distances"""
    def g(r, tier):
        out = []
        for i in range(n_cases(tier, quick, thorough)):
            kind, scalar, hint = gen.pick_cfg(r, kinds, f32_share)
            f32 = scalar == "f32"
            c = Case("fx%d" % i, kind, scalar, hint)
            style = r.weighted([('ulp', 30), ('decimal', 30), ('mag', 10), ('bigcol', 8), ('unimod', 6), ('bigcircle', 6), ('grid', 10)])
            n = r.range(1, 35 if tier != "thorough" else 60)
            if style == 'decimal':
                g_ = r.choice([1, 2, 3, 5])
                pts = [(r.range(-10 * g_, 10 * g_) / 10.0, r.range(-10 * g_, 10 * g_) / 10.0) for _ in range(n)]
            elif style == 'mag':
                # coordinates m * 2^e at extreme exponents; mixed exponents in one triangulation (coarse rounding relative to the features: the class
                # of the known finding C16-flood-fill-rounding-hang; every hang costs a watchdog period and is shrunk) only in the thorough tier, and rarely
                lo_e, hi_e = (-120, 100) if f32 else (-142, 195)
                e0 = r.choice([lo_e, hi_e - 6, r.range(lo_e, hi_e - 6)])
                mixed = tier == "thorough" and r.chance(0.03)
                pts = []
                for _ in range(n):
                    e = e0 if not mixed else r.choice([lo_e, hi_e - 6, 0])
                    pts.append((r.range(-9, 9) * 2.0 ** e, r.range(-9, 9) * 2.0 ** e))
            else:
                pts = gen.point_cloud(r, n, style, f32)
            def rnd(x):
                if not f32: return x
                try: return struct.unpack('<f', struct.pack('<f', x))[0]
                except OverflowError: return 3.0e38 if x > 0 else -3.0e38
            pts = [(rnd(x), rnd(y)) for (x, y) in pts]
            # the exact specification (tag shape) is not demanded here: the documented answer is not computable in floating point on these inputs
            # (rounded squared distances / quotients); what is compared is the model with IEEE arithmetic against the implementation
            c.meta = {"style": "floodx-" + style, "kind": kind, "scalar": scalar, "hint": hint, "only_tags": ["corr", "parse"]}
            toks = []
            for j, (x, y) in enumerate(pts):
                toks += [bits(x), bits(y), j + 1]
            c.add("bulks" if r.chance(0.5) else "bulk", len(pts), *toks)
            pool = pts
            xs = [p[0] for p in pool]; ys = [p[1] for p in pool]
            x0, x1, y0, y1 = min(xs), max(xs), min(ys), max(ys)
            span = max(x1 - x0, y1 - y0, abs(x0), abs(y0), 1e-300)
            def vertex():
                return r.choice(pool)
            def jitter(x):
                k = r.below(4)
                if k == 0: return x
                if k == 1: return gen.ulp_step(x if x != 0 else span * 1e-3, r.choice([-2, -1, 1, 2]), f32)
                if k == 2: return rnd(x + span * r.choice([0.1, -0.1, 0.3, 1e-9, -1e-9, 0.7]))
                return rnd(x * r.choice([1.0000001, 0.9999999, 1.5, 0.5]))
            def anyp():
                k = r.below(4)
                if k == 0:
                    v = vertex(); return (jitter(v[0]), jitter(v[1]))
                if k == 1:
                    a, b = vertex(), vertex(); t = r.choice([0.5, 0.1, 0.3, 1.0 / 3.0, 0.9])
                    return (rnd(a[0] + t * (b[0] - a[0])), rnd(a[1] + t * (b[1] - a[1])))
                if k == 2:
                    a, b, cc = vertex(), vertex(), vertex()
                    return (rnd((a[0] + b[0] + cc[0]) / 3.0), rnd((a[1] + b[1] + cc[1]) / 3.0))
                return (rnd(x0 + (x1 - x0) * r.range(-3, 13) / 10.0), rnd(y0 + (y1 - y0) * r.range(-3, 13) / 10.0))
            def rect(lo, hi):
                c.add(r.choice(["vrect", "erect"]), bits(lo[0]), bits(lo[1]), bits(hi[0]), bits(hi[1]))
            def circ(cc, r2):
                r2 = rnd(float(r2))
                if r2 != r2 or r2 in (float('inf'),) or r2 < 0: r2 = 0.0
                c.add(r.choice(["vcirc", "ecirc"]), bits(cc[0]), bits(cc[1]), bits(r2))
            for _ in range(r.range(10, 24)):
                k = r.below(10)
                if k == 0:
                    rect((jitter(x0), jitter(y0)), (jitter(x1), jitter(y1)))
                elif k == 1:
                    p = anyp(); rect(p, p)
                elif k == 2:
                    p = anyp(); q = anyp()
                    if r.chance(0.5): rect((min(p[0], q[0]), p[1]), (max(p[0], q[0]), p[1]))
                    else: rect((p[0], min(p[1], q[1])), (p[0], max(p[1], q[1])))
                elif k in (3, 4, 5):
                    a, b = anyp(), anyp()
                    lo, hi = (min(a[0], b[0]), min(a[1], b[1])), (max(a[0], b[0]), max(a[1], b[1]))
                    if r.chance(0.08): lo, hi = hi, lo
                    rect(lo, hi)
                elif k == 6:      # circle through (the rounded distance to) a vertex
                    cc, v = anyp(), vertex()
                    d2 = (cc[0] - v[0]) ** 2 + (cc[1] - v[1]) ** 2
                    circ(cc, gen.ulp_step(rnd(d2), r.choice([0, 0, -1, 1]), f32) if d2 == d2 and d2 != float('inf') and d2 > 0 else 0.0)
                elif k == 7:      # circle tangent (up to rounding) to the line through two vertices
                    cc, a, b = anyp(), vertex(), vertex()
                    l2 = (b[0] - a[0]) ** 2 + (b[1] - a[1]) ** 2
                    if l2 > 0 and l2 != float('inf'):
                        o = (b[0] - a[0]) * (cc[1] - a[1]) - (b[1] - a[1]) * (cc[0] - a[0])
                        circ(cc, o * o / l2)
                    else:
                        circ(cc, 0.0)
                elif k == 8:
                    circ(anyp(), 0.0)
                else:
                    circ(anyp(), span * span * r.choice([0.01, 0.1, 0.3, 1.0, 4.0]))
            out.append(c)
        return out
    return g

PROPS["C16"]["gen"] = gen_union(PROPS["C16"]["gen"], gen_flood_inexact(200, 3000))


def gen_shape_extreme(quick, thorough):
    """rectangle / circle queries with extreme parameters on small integer triangulations: "select everything" rectangles and half planes with
    corners at +-1e308, +-f64::MAX (f32: +-f32::MAX, +-1e38), quadrants, circles with huge radii; f32 lattices scaled by 2^20 .. 2^60 with circle
    queries (intermediate products must not overflow). The documented answer is decided exactly."""
    FMAX, F32MAX = 1.7976931348623157e308, 3.4028234663852886e38
    def g(r, tier):
        out = []
        for i in range(n_cases(tier, quick, thorough)):
            kind, scalar, hint = gen.pick_cfg(r, ("dt", "cdt"), 0.4)
            f32 = scalar == "f32"
            c = Case("e%d" % i, kind, scalar, hint)
            c.meta = {"style": "shape-extreme", "kind": kind, "scalar": scalar, "hint": hint, "only_tags": ["shape", "parse", "decode"]}
            sc = 1.0
            if r.chance(0.4):
                sc = 2.0 ** (r.choice([20, 44, 60, 100]) if f32 else r.choice([100, 400, 600]))
            w, h = r.range(2, 5), r.range(2, 5)
            pts = [(float(x) * sc, float(y) * sc) for x in range(w) for y in range(h) if not r.chance(0.2)]
            r.shuffle(pts)
            for j, (x, y) in enumerate(pts):
                c.ins(x, y, j + 1)
            big = [F32MAX, 1e38, 2.0 ** 100] if f32 else [FMAX, 1e308, 2.0 ** 600, 2.0 ** 1000]
            for _ in range(8):
                k = r.below(5)
                B = r.choice(big)
                if k == 0:      # everything
                    c.add(r.choice(["vrect", "erect"]), bits(-B), bits(-B), bits(B), bits(B))
                elif k == 1:    # half plane
                    x = float(r.range(0, w)) * sc
                    c.add(r.choice(["vrect", "erect"]), bits(x), bits(-B), bits(B), bits(B))
                elif k == 2:    # quadrant
                    x, y = float(r.range(0, w)) * sc, float(r.range(0, h)) * sc
                    c.add(r.choice(["vrect", "erect"]), bits(x), bits(y), bits(B), bits(B))
                elif k == 3:    # ordinary circle on the (scaled) lattice
                    x, y = float(r.range(0, w)) * sc + 0.5 * sc, float(r.range(0, h)) * sc
                    c.add(r.choice(["vcirc", "ecirc"]), bits(x), bits(y), bits(r.choice([0.5, 1.0, 1.5, 2.0]) * sc))
                else:           # huge circle
                    c.add(r.choice(["vcirc", "ecirc"]), bits(0.0), bits(0.0), bits(r.choice(big[-2:])))
            out.append(c)
        return out
    return g

# M12: hull iterator model (Query/Hull.v hull_iter / hull_iter_rev) compared order-exactly with convex_hull() / .rev(); clear / clone hooks
PROPS["C14"]["model"] = True
PROPS["C14"]["tags"] = PROPS["C14"]["tags"] + ["corr"]

# every `split` operation that returns normally (all four tables, positions and payloads of the new vertices, returned edges, num_constraints)
PROPS["C13"]["model"] = True
PROPS["C13"]["tags"] = PROPS["C13"]["tags"] + ["corr"]

def gen_split_m8(quick, thorough):
    """M8 (found by mutation-testing the model Tri/AddSplit.v): two kinds of add_constraint_and_split inputs that the other generators do not reach.
    tiny: fans of constraints crossed by one segment, all coordinates integer multiples of 2^-141 / 2^-142 (valid; f64 only: the line iterator
      does not terminate on such f32 input, a known finding): coordinates of the crossings fall below 2^-142 and mitigate_underflow_for_coordinate
      rounds them to zero.
    coarse-mixed: coordinates in [2^52, 2^52 + 64) (f32: 2^23): a horizontal / vertical segment crossing axis-parallel constraints (exactly
      representable crossings: the split vertex lies on the crossed edge) mixed with slanted ones (crossings at half-integers: the rounded
      position is off the edge, often outside the neighbouring faces or on an existing vertex): the fallback routine then inserts vertices ON
      crossed constraint edges, which `insert` itself splits before the routine looks at the edge's end points."""
    def g(r, tier):
        out = []
        for i in range(n_cases(tier, quick, thorough)):
            tiny = r.chance(0.4)
            kind, scalar, hint = gen.pick_cfg(r, ("cdt",), 0.0 if tiny else 0.4)
            c = Case("m8s%d" % i, "cdt", scalar, hint)
            d = 1
            if tiny:
                c.meta = {"style": "split-tiny", "kind": "cdt", "scalar": scalar, "hint": hint}
                gg = r.choice([3, 4, 6])
                n = r.range(2, 6)
                for k in range(n):
                    x = float(-gg + 2 * k + r.choice([0, 0, 1]))
                    c.add("adde", bits(x), bits(float(-gg - r.range(0, 2))), d, bits(x + r.choice([0.0, 1.0, -1.0, 2.0])), bits(float(gg + r.range(0, 2))), d + 1)
                    d += 2
                c.ins(float(-gg - 3), float(r.range(-1, 1)), d); d += 1
                c.ins(float(gg + 9), float(r.range(-1, 1)), d); d += 1
                for _ in range(r.range(0, 4)):
                    c.ins(float(r.range(-gg, gg)), float(r.range(-gg, gg)), d); d += 1
                c.add("split", "v%d" % (2 * n), "v%d" % (2 * n + 1))
                if r.chance(0.4):
                    c.add("split", "v%d" % r.below(64), "v%d" % r.below(64))
                scale_case(c, r.choice([-141, -142, -142, -140]))
            else:
                c.meta = {"style": "split-coarse-mixed", "kind": "cdt", "scalar": scalar, "hint": hint}
                off = float(2 ** 23) if scalar == "f32" else float(2 ** 52)
                sw = r.chance(0.5)
                def P(x, y):
                    if sw: x, y = y, x
                    return (bits(off + 16 + x), bits(off + 16 + y))
                gg = r.choice([3, 4, 6])
                n = r.range(2, 5)
                y0 = r.range(-2, 2)
                for k in range(n):
                    x = -gg + 2 * k
                    if r.chance(0.5):
                        a = P(x, -gg - r.range(0, 2)); b = P(x, gg + r.range(0, 2))                 # axis-parallel: exact crossing
                    else:
                        a = P(x, -gg - r.range(0, 2)); b = P(x + r.choice([1, 1, -1, 3]), gg + r.range(0, 2))
                    c.add("adde", a[0], a[1], d, b[0], b[1], d + 1)
                    d += 2
                a = P(-gg - 3, y0); b = P(-gg + 2 * n + 2, y0 + r.choice([0, 0, 0, 1]))
                c.add("ins", a[0], a[1], d); d += 1
                c.add("ins", b[0], b[1], d); d += 1
                for _ in range(r.range(2, 10)):
                    q = P(r.range(-gg, -gg + 2 * n), r.range(-3, 4))
                    c.add("ins", q[0], q[1], d); d += 1
                if r.chance(0.5):
                    c.add("split", "v%d" % (2 * n), "v%d" % (2 * n + 1))
                else:
                    c.add("split", "v%d" % (2 * n + 1), "v%d" % (2 * n))
            out.append(c)
        return out
    return g

PROPS["C13"]["gen"] = gen_union(PROPS["C13"]["gen"], gen_split_m8(300, 3000))


PROPS["C16"]["gen"] = gen_union(PROPS["C16"]["gen"], gen_shape_extreme(200, 2000))


# M9: executable model of refine (Refine/OuterModel.v: calculate_outer_faces; Refine/RefineModel.v: the whole loop) compared on every refine op
PROPS["C20"]["model"] = True
PROPS["C20"]["tags"] = PROPS["C20"]["tags"] + ["corr"]

def gen_C20_outer(quick, thorough):
    """stage-1 tie of the refine model (Refine/OuterModel.v): CDTs with nested closed rings (depth up to 4), rings touching / sharing vertices,
    dangling constraint edges inside and outside, open polylines, random try_add_constraint between vertices, random free points; after every few
    building steps `refine - - - 0 <keep> 1`: the vertex budget 0 stops refine before the first iteration, so the excluded list is exactly
    calculate_outer_faces of the state (compared as a set with the model's outer_faces)"""
    def g(r, tier):
        out = []
        for i in range(n_cases(tier, quick, thorough)):
            kind, scalar, hint = gen.pick_cfg(r, ("cdt",), 0.15)
            c = Case("q%d" % i, "cdt", scalar, hint)
            c.meta = {"style": "refine-outer", "kind": "cdt", "scalar": scalar, "hint": hint}
            d = 1
            def ring(pts, closed):
                nonlocal d
                toks = []
                for (x, y) in pts:
                    toks += [bits(float(x)), bits(float(y)), d]
                    d += 1
                c.add("addes", len(pts), 1 if closed else 0, *toks)
            def probe():
                c.add("refine", "-", "-", "-", 0, 1 if r.chance(0.2) else 0, 1)
            style = r.below(5)
            cx, cy = r.range(-3, 3), r.range(-3, 3)
            if style <= 2:
                # concentric rings: squares and diamonds of decreasing size
                n = r.range(1, 4)
                sz = 4 * n + r.range(0, 2)
                for k in range(n):
                    s = sz - 4 * k
                    if r.chance(0.5):
                        ring([(cx - s, cy - s), (cx + s, cy - s), (cx + s, cy + s), (cx - s, cy + s)], not r.chance(0.1))
                    else:
                        ring([(cx - s, cy), (cx, cy - s), (cx + s, cy), (cx, cy + s)], not r.chance(0.1))
                    if r.chance(0.3):
                        probe()
            elif style == 3:
                # two rings side by side, possibly sharing a vertex, inside a big one
                s = r.range(2, 4)
                if r.chance(0.6):
                    ring([(-3 * s - 2, -2 * s - 2), (3 * s + 2, -2 * s - 2), (3 * s + 2, 2 * s + 2), (-3 * s - 2, 2 * s + 2)], True)
                ring([(-2 * s, -s), (0, -s), (0, s), (-2 * s, s)], True)
                off = r.choice([0, 0, 1])
                ring([(off, -s) if off else (0, -s), (2 * s, -s), (2 * s, s + off)], True)
            else:
                # random polygon through grid points (may be refused by crossing: add_constraint_edges panics are documented) -> use points + tryc only
                pass
            # dangling edges and free points
            for _ in range(r.range(0, 4)):
                a = (r.range(-14, 14), r.range(-14, 14))
                b = (a[0] + r.range(-3, 3), a[1] + r.range(-3, 3))
                if a != b:
                    c.ins(float(a[0]), float(a[1]), d); d += 1
                    c.ins(float(b[0]), float(b[1]), d); d += 1
                    c.add("tryc", "v%d" % (r.below(64)), "v%d" % (r.below(64)))
                if r.chance(0.3):
                    probe()
            for _ in range(r.range(0, 8)):
                c.ins(float(r.range(-14, 14)), float(r.range(-14, 14)), d); d += 1
            for _ in range(r.range(0, 10)):
                c.add("tryc", "v%d" % r.below(64), "v%d" % r.below(64))
                if r.chance(0.3):
                    probe()
            probe()
            out.append(c)
        return out
    return g

PROPS["C20"]["gen"] = gen_union(PROPS["C20"]["gen"], gen_C20_outer(300, 1200))

def gen_C20_model(quick, thorough):
    """stage-2 tie of the refine model (Refine/RefineModel.v): planar straight line graphs with integer, dyadic and full-mantissa coordinates at scales
    2^-60 .. 2^40 (f32: 2^-20 .. 2^20): star-shaped polygons (closed / open), fans of constraints meeting at small angles (the constraint_edge_map
    exemption and the power-of-two split rule), random constraints between vertices, free points close to constraint edges (encroachment), thin
    triangles; refine with all parameter combinations and budgets 1..40, often a second and third time on the refined mesh"""
    import math
    def g(r, tier):
        out = []
        for i in range(n_cases(tier, quick, thorough)):
            kind, scalar, hint = gen.pick_cfg(r, ("cdt",), 0.35)
            f32 = scalar == "f32"
            c = Case("m%d" % i, "cdt", scalar, hint)
            c.meta = {"style": "refine-model", "kind": "cdt", "scalar": scalar, "hint": hint}
            cstyle = r.choice(["int", "int", "dyadic", "real", "real"])
            sc = 2.0 ** (r.choice([0, 0, 0, 7, -20, 20] if f32 else [0, 0, 0, 7, -20, 40, -60]))
            def co(x):
                if cstyle == "int":
                    v = float(round(x))
                elif cstyle == "dyadic":
                    v = round(x * 16) / 16.0
                else:
                    v = x
                v *= sc
                if f32:
                    v = gen.f32_from_bits(gen.f32_bits(v)) if hasattr(gen, "f32_from_bits") else v
                return v
            def rnd():
                return ((r.next() >> 11) / float(1 << 53)) * 24.0 - 12.0
            d = 1
            def ring(pts, closed):
                nonlocal d
                toks = []
                for (x, y) in pts:
                    toks += [bits(co(x)), bits(co(y)), d]
                    d += 1
                c.add("addes", len(pts), 1 if closed else 0, *toks)
            shape = r.choice([0, 1, 2, 3, 4, 4, 5])
            if shape <= 1:
                # star-shaped polygon around a centre (no self intersection), possibly with an inner one
                n = r.range(3, 9)
                cx, cy = rnd() / 4, rnd() / 4
                angs = sorted(((r.next() >> 11) / float(1 << 53)) * 2 * math.pi for _ in range(n))
                rad = [4.0 + ((r.next() >> 11) / float(1 << 53)) * 7.0 for _ in range(n)]
                ring([(cx + rad[k] * math.cos(angs[k]), cy + rad[k] * math.sin(angs[k])) for k in range(n)], not r.chance(0.15))
                if r.chance(0.4):
                    m = r.range(3, 5)
                    angs2 = sorted(((r.next() >> 11) / float(1 << 53)) * 2 * math.pi for _ in range(m))
                    ring([(cx + 1.5 * math.cos(a), cy + 1.5 * math.sin(a)) for a in angs2], True)
            elif shape == 2:
                # fan of constraints from one apex at small angles
                ax, ay = rnd() / 2, rnd() / 2
                base = ((r.next() >> 11) / float(1 << 53)) * 2 * math.pi
                n = r.range(2, 5)
                a = base
                for k in range(n):
                    L = 6.0 + ((r.next() >> 11) / float(1 << 53)) * 6.0
                    c.add("adde", bits(co(ax)), bits(co(ay)), d, bits(co(ax + L * math.cos(a))), bits(co(ay + L * math.sin(a))), d + 1)
                    d += 2
                    a += r.choice([0.05, 0.1, 0.2, 0.35, 0.5, 0.7])
            elif shape == 3:
                # rectangle with a thin sliver and points close to its sides
                W, H = r.range(6, 12), r.range(4, 10)
                ring([(-W, -H), (W, -H), (W, H), (-W, H)], True)
                for _ in range(r.range(1, 4)):
                    side = r.below(4)
                    t = rnd() / 12.0
                    eps = r.choice([0.25, 0.5, 1.0, 0.125])
                    p = [(t * W, -H + eps), (W - eps, t * H), (t * W, H - eps), (-W + eps, t * H)][side]
                    c.ins(co(p[0]), co(p[1]), d); d += 1
            elif shape == 4:
                if r.chance(0.5):
                    # long thin triangle / polyline
                    n = r.range(2, 5)
                    ring([(-11 + 22.0 * k / n + rnd() / 12, rnd() / 6) for k in range(n + 1)], False)
                else:
                    # narrow channel between two long parallel constraints (inside a frame or not) with a few points in it: one circumcentre
                    # encroaches upon both walls, found in the order of the simulated flips (the order of the forcibly split segments)
                    w = r.choice([0.5, 1.0, 1.5, 2.0])
                    L = r.range(6, 11)
                    tilt = r.choice([0.0, 0.0, 0.25, -0.5])
                    if r.chance(0.5):
                        ring([(-L - 2, -5), (L + 2, -5), (L + 2, 5 + w), (-L - 2, 5 + w)], True)
                    ring([(-L, 0), (L, tilt)], False)
                    ring([(-L + r.range(0, 2), w), (L - r.range(0, 2), w + tilt)], False)
                    for _ in range(r.choice([1, 2, 3, 4, 8, 12])):
                        x = rnd() * L / 14.0
                        c.ins(co(x), co(tilt * (x + L) / (2 * L) + w * r.choice([0.25, 0.5, 0.5, 0.5, 0.625, 0.375, 0.75, 0.125])), d); d += 1
            # free points
            for _ in range(r.range(0, 7)):
                c.ins(co(rnd()), co(rnd()), d); d += 1
            for _ in range(r.range(0, 4)):
                c.add("tryc", "v%d" % r.below(64), "v%d" % r.below(64))
            nref = r.choice([1, 1, 2, 2, 3])
            for k in range(nref):
                ratio = r.choice(["-", "-", bits(1.0), bits(0.8), bits(0.7071067811865476), bits(1.2), bits(1.5), bits(2.0), bits(0.6), bits(0.58)])
                mina = r.choice(["-", "-", "-", bits(0.5 * sc * sc), bits(3.0 * sc * sc)])
                maxa = r.choice(["-", "-", bits(8.0 * sc * sc), bits(40.0 * sc * sc), bits(2.0 * sc * sc)])
                maxv = r.choice([1, 2, 3, 5, 10, 20, 40]) if tier != "thorough" else r.choice([1, 3, 10, 30, 60])
                keep = 1 if r.chance(0.25) else 0
                excl = 1 if r.chance(0.5) else 0
                c.add("refine", ratio, mina, maxa, maxv, keep, excl)
            out.append(c)
        return out
    return g

PROPS["C20"]["gen"] = gen_union(PROPS["C20"]["gen"], gen_C20_model(500, 1500))


def representable_precision_ok(c):
    """circumcentres / interpolation weights are numbers the scalar type can only hold to ulp(coordinate): the numeric clauses of C18 / C19
    (tolerances relative to the size of a face: 1e-7 / 1e-6, f32 1e-3) are only demanded when the largest coordinate magnitude is at most 2^28 (f32: 2^9) times the
    smallest non-zero difference of two VERTEX coordinates of the case"""
    verts, allv = set(), set()
    for o in c.ops:
        t = o.split()
        vertex_op = t[0] in ("ins", "insh", "adde", "addes") or t[0].startswith("bulk")
        for tok in t[1:]:
            if tok.isdigit() and len(tok) > 12:
                x = gen.from_bits(int(tok))
                if x == x and abs(x) != float("inf"):
                    allv.add(x)
                    if vertex_op:
                        verts.add(x)
    verts = sorted(verts)
    diffs = [b - a for a, b in zip(verts, verts[1:]) if b > a]
    if not diffs or not allv:
        return True
    lim = 2.0 ** 9 if c.scalar == "f32" else 2.0 ** 28
    return max(abs(v) for v in allv) <= min(diffs) * lim

for _p in ("C18", "C19"):
    def _mk(gprev):
        def g(r, tier):
            return [c for c in gprev(r, tier) if representable_precision_ok(c)]
        return g
    PROPS[_p]["gen"] = _mk(PROPS[_p]["gen"])
    PROPS[_p]["assumptions"] = PROPS[_p].get("assumptions", []) + ["numeric clauses are demanded only of cases whose largest coordinate magnitude is at most 2^28 (f32: 2^9) times the smallest non-zero coordinate difference (results are only representable to ulp(coordinate))"]
