"""Per-property configuration: which generator feeds it, which verdict tags decide it."""
import os, json, re, glob
import gen
from gen import Case, bits

def n_cases(tier, quick, thorough):
    return thorough if tier == "thorough" else quick

# ------------------------------------------------------------------ generators
def gen_C08(r, tier):
    cases = []
    # scalar stream: all special values through validate_coordinate / validate_vertex / mitigate_underflow
    vals = gen.special_values()
    if tier == "thorough":
        vals = vals + [r.next() for _ in range(60000)]
    else:
        vals = vals + [r.next() for _ in range(1500)]
    chunk = 400
    for i in range(0, len(vals), chunk):
        c = Case("v%d" % (i // chunk), "dt", "f64", "last")
        c.meta = {"style": "bits", "kind": "dt", "scalar": "f64", "hint": "last"}
        for b in vals[i:i + chunk]:
            c.add("valc", b)
            if r.chance(0.2):
                c.add("valv", b, r.choice(vals))
            if r.chance(0.2):
                c.add("mit", b, r.choice(vals))
        cases.append(c)
    # the same through f32 (only f32-representable values are sent)
    f32vals = [b for b in vals[:14000] if gen.is_f32(gen.from_bits(b))]
    for i in range(0, len(f32vals), chunk):
        c = Case("w%d" % (i // chunk), "dt", "f32", "last")
        c.meta = {"style": "bits", "kind": "dt", "scalar": "f32", "hint": "last"}
        for b in f32vals[i:i + chunk]:
            c.add("valc", b)
        cases.append(c)
    # histories with invalid insertions at random points, and bulk loads with an invalid element at position k
    for i in range(n_cases(tier, 300, 4000)):
        c = gen.history(r, "h%d" % i, w_invalid=25, max_ops=12)
        if r.chance(0.5):
            n = r.range(1, 8)
            pts = gen.point_cloud(r, n, "grid", c.scalar == "f32")
            toks = []
            kbad = r.below(n + 2)
            for j, (x, y) in enumerate(pts):
                bx, by = bits(x), bits(y)
                if j == kbad or (j > kbad and r.chance(0.2)):
                    bad = gen.invalid_value(r)
                    if c.scalar == "f32" and not gen.is_f32(gen.from_bits(bad)):
                        bad = 0x7ff8000000000000
                    if r.chance(0.5):
                        bx = bad
                    else:
                        by = bad
                toks += [bx, by, j]
            c.add(r.choice(["bulk", "bulks"]), n, *toks)
        if c.scalar == "f32":
            c.ops = [fix_f32(o) for o in c.ops]
        cases.append(c)
    return cases

def fix_f32(op):
    """replace invalid f64 patterns that are not f32-representable by representable ones of the same class"""
    t = op.split()
    if t[0] not in ("ins", "insh"):
        return op
    for k in (1, 2):
        b = int(t[k])
        x = gen.from_bits(b)
        if not gen.is_f32(x):
            if abs(x) < 1e-30:
                t[k] = str(bits(gen.f32_from_bits(1)))        # least f32 subnormal: too small
            else:
                t[k] = str(0x7ff0000000000000)                # inf: too large
    return " ".join(t)

def gen_hist(kinds=("dt",), quick=400, thorough=6000, **kw):
    def g(r, tier):
        mp = 12 if tier != "thorough" else 40
        mo = 14 if tier != "thorough" else 40
        return [gen.history(r, "h%d" % i, kinds=kinds, max_ops=mo, max_pts=mp, **kw) for i in range(n_cases(tier, quick, thorough))]
    return g

# ------------------------------------------------------------------ classification helpers
def nontrivial(c):
    """non-trivial: at least three operations and either a non-insert operation, a duplicate position,
    or a degenerate style; distinctness is by hash of the full op list + configuration"""
    if len(c.ops) < 3:
        return False
    names = [o.split()[0] for o in c.ops]
    if any(n not in ("ins",) for n in names):
        return True
    return c.meta.get("style") in ("circle", "line", "ulp", "mag", "cluster", "ray", "grid", "bits")

DOCUMENTED = [
    (("addc", "adde", "addes"), re.compile(r"intersect|conflict|Conflicting", re.I)),
    (("bulkc", "bulkcs"), re.compile(r"intersect|overlap|out_of_range|index|bounds", re.I)),
    (("vcirc", "ecirc"), re.compile(r"radius", re.I)),
]
def undocumented_events(events):
    out = []
    for cid, op, ev in events:
        name = op.split()[2] if len(op.split()) > 2 else ""
        if ev.startswith("R hang"):
            out.append((cid, op, ev))
            continue
        msg = ev[len("R panic "):]
        doc = False
        for names, rx in DOCUMENTED:
            if name in names and rx.search(msg):
                doc = True
        if name in ("loc", "loch", "locv", "lrm") and "nan" in msg.lower():
            doc = True
        if not doc:
            out.append((cid, op, ev))
    return out

def match_known(known, pid, tag, case, event):
    from known import KNOWN_CLASSES
    for k in known:
        if k.get("status") == "fixed":
            continue
        if pid not in k["properties"]:
            continue
        fn = KNOWN_CLASSES.get(k["class"])
        if fn and fn(case, tag, event):
            return k
    return None

def corpus_cases(pid, root):
    out = []
    for p in sorted(glob.glob(os.path.join(root, "corpus", pid, "*.json"))):
        j = json.load(open(p))
        c = Case("corpus-" + os.path.basename(p)[:-5], j["kind"], j["scalar"], j["hint"])
        c.ops = j["ops"]
        c.meta = {"style": "corpus", "kind": j["kind"], "scalar": j["scalar"], "hint": j["hint"]}
        out.append(c)
    return out

STATE_RULE = ("histories from one splitmix64 stream (VERIF_SEED): point pools on integer grids (dense in duplicate, collinear and "
              "cocircular configurations), exactly cocircular Pythagorean sets, ulp-perturbed, extreme-magnitude (2^-142..2^195), "
              "collinear, clustered and same-angle sets; operations insert / insert_with_hint (incl. stale hints) / remove / "
              "locate_and_remove / duplicates / clear / clone; f32 and f64, four hint generators. A case is non-trivial when it has "
              ">= 3 operations and a non-insert operation or a degenerate point style; distinct by hash of configuration + op list.")

PROPS = {
 "C08": dict(gen=gen_C08, tags=["validate", "atomic_fail", "mitigate", "parse", "decode"], level="proof",
             rule="all 2048 binary64 exponents x {0,1,all-ones mantissa} x both signs, both limits +-2 ulp, subnormals, infinities, "
                  "NaN payloads, every f32 exponent widened, random bit patterns; the same values inserted into non-empty DT/CDT "
                  "histories (full observable snapshot before/after) and at position k of bulk-load vectors. Non-trivial: >= 3 operations.",
             theorems="Props/C08.v: C08_accept_iff, C08_nan_iff, C08_too_small_iff, C08_too_large_iff, C08_vertex_order, "
                      "C08_mitigate_never_too_small, C08_min_limit, C08_max_limit, C08_oracle_is_code (over the GENERATED validate_coordinate)",
             assumptions=["f32 -> f64 conversion is exact (IEEE widening)", "insert's atomicity is observed on the implementation, not proved"]),
}
