#!/usr/bin/env python3
"""refdebug.py <case-id> [extra Coq commands file] -- re-runs one case of the last C20 run through the harness and writes /verif/.cache/refdebug.v
defining for the LAST refine op: p_raw / n_raw (state dumps before / after), r_args, r_res, and evaluates the model hook inside coqc."""
import sys, os, glob, subprocess
ROOT = os.path.dirname(os.path.dirname(os.path.abspath(__file__)))
sys.path.insert(0, os.path.join(ROOT, "tools"))
import xval, codes
cid = sys.argv[1]
text = None
for f in glob.glob(os.path.join(ROOT, ".cache", "run", "C20", "shard*.case")) + glob.glob(os.path.join(ROOT, ".cache", "run", "C20", "search", "shard*.case")):
    lines = open(f).read().splitlines()
    for i, l in enumerate(lines):
        if l.startswith("C %s " % cid):
            j = i + 1
            while j < len(lines) and not lines[j].startswith("C "):
                j += 1
            text = "\n".join(lines[i:j]) + "\n"
if text is None and os.path.exists(cid):
    text = open(cid).read()
cf = os.path.join(ROOT, ".cache", "refdebug.case")
open(cf, "w").write(text)
out = subprocess.run([os.path.join(ROOT, ".cache", "target", "debug", "spade-verif-harness"), cf, "8000"], stdout=subprocess.PIPE, text=True).stdout
of = os.path.join(ROOT, ".cache", "refdebug.out")
open(of, "w").write(out)
c = xval.parse(of, 1)[0]
which = int(sys.argv[3]) if len(sys.argv) > 3 else -1
idx = [i for i, s in enumerate(c["steps"]) if s["op"] == codes.op_code("refine")][which]
prev = [s for s in c["steps"][:idx] if s["obs"] is not None][-1]
s = c["steps"][idx]
v = ["From Coq Require Import ZArith List Bool Arith.", "From SpadeV Require Import Num.F64 Obs.State Dcel.Raw Check.Codes Check.Run Check.RunModel Refine.OuterModel Refine.RefineFloat Refine.RefineModel Query.FloodFillFloat.",
     "Import ListNotations.",
     "Definition p_obs : obs := match parse_obs %s with Some o => o | None => empty_obs end." % xval.zl(prev["obs"]),
     "Definition n_obs : obs := match parse_obs %s with Some o => o | None => empty_obs end." % xval.zl(s["obs"] or prev["obs"]),
     "Definition r_args : list Z := %s." % xval.zl(s["args"]),
     "Definition r_res : list Z := %s." % xval.zl(s["res"]),
     "Eval vm_compute in (check_refine_model %s p_obs n_obs r_args r_res)." % str(c["f32"]).lower()]
if len(sys.argv) > 2 and os.path.exists(sys.argv[2]):
    v.append(open(sys.argv[2]).read())
vf = os.path.join(ROOT, ".cache", "refdebug.v")
open(vf, "w").write("\n".join(v) + "\n")
p = subprocess.run(["coqc", "-noglob", "-Q", os.path.join(ROOT, "coq", "theories"), "SpadeV", vf], capture_output=True, text=True, cwd=os.path.join(ROOT, ".cache"))
print(p.stdout[-6000:], p.stderr[-3000:])
