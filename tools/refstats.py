#!/usr/bin/env python3
"""refstats.py [rundir] -- counts the refine operations of the last ./verify C20 run (harness outputs in .cache/run/C20) by configuration:
how many were executed, how many with exclude / keep / budgets / f32, how many Steiner points were inserted, depth of the excluded sets."""
import sys, glob, os
root = sys.argv[1] if len(sys.argv) > 1 else os.path.join(os.path.dirname(os.path.abspath(__file__)), "..", ".cache", "run", "C20")
st = dict(refines=0, stage1=0, stage1_nonempty=0, excl=0, keep=0, budget0=0, budget=0, nobudget=0, f32=0, steiner=0, inserted_refines=0,
          complete=0, panic=0, minarea=0, maxarea=0, ratio=0)
for f in glob.glob(os.path.join(root, "shard*.out")):
    lines = open(f, errors="replace").read().splitlines()
    scalar, prev_nv = "f64", 0
    for i, l in enumerate(lines):
        t = l.split()
        if not t:
            continue
        if t[0] == "C":
            scalar, prev_nv = t[3], 0
        elif t[0] == "S" and t[1] != "broken":
            nv_before = prev_nv
            prev_nv = int(t[1])
        elif t[0] == "O" and len(t) > 2 and t[2] == "refine":
            r = lines[i + 1].split() if i + 1 < len(lines) else []
            if len(r) < 3 or r[1] not in ("0", "1"):
                st["panic"] += 1
                continue
            st["refines"] += 1
            ratio, mina, maxa, maxv, keep, excl = t[3:9]
            st["excl"] += excl == "1"; st["keep"] += keep == "1"; st["f32"] += scalar == "f32"
            st["minarea"] += mina != "-"; st["maxarea"] += maxa != "-"; st["ratio"] += ratio != "-"
            st["budget0"] += maxv == "0"; st["budget"] += maxv not in ("0", "-"); st["nobudget"] += maxv == "-"
            st["complete"] += r[1] == "1"
            if maxv == "0" and excl == "1":
                st["stage1"] += 1
                st["stage1_nonempty"] += int(r[2]) > 0
            s = lines[i + 2].split() if i + 2 < len(lines) else []
            if s and s[0] == "S":
                k = int(s[1]) - prev_nv
                st["steiner"] += k
                st["inserted_refines"] += k > 0
# attribute the corr verdicts of the model checker to the refine operations (CHK_PASSES=1 prints one line per passing verdict)
import subprocess
chkm = os.path.join(os.path.dirname(os.path.abspath(__file__)), "..", ".cache", "chkm")
st.update(model_pass=0, model_fail=0, model_skipped=0, steiner_compared=0)
if os.path.exists(chkm):
    for f in glob.glob(os.path.join(root, "shard*.out")):
        out = subprocess.run([chkm], stdin=open(f), stdout=subprocess.PIPE, env=dict(os.environ, CHK_PASSES="1"), text=True).stdout
        verd = {}
        for l in out.splitlines():
            t = l.split()
            if len(t) == 4 and t[0] in "PF" and t[3] == "corr":
                verd.setdefault((t[1], int(t[2])), []).append(t[0])
        lines = open(f, errors="replace").read().splitlines()
        cid, prev_nv = None, 0
        for i, l in enumerate(lines):
            t = l.split()
            if not t:
                continue
            if t[0] == "C":
                cid, prev_nv = t[1], 0
            elif t[0] == "S" and t[1] != "broken":
                prev_nv = int(t[1])
            elif t[0] == "O" and len(t) > 2 and t[2] == "refine":
                r = lines[i + 1].split() if i + 1 < len(lines) else []
                if len(r) < 3 or r[1] not in ("0", "1"):
                    continue
                v = verd.get((cid, int(t[1])), [])
                expect_stage1 = 1 if (t[6] == "0" and t[8] == "1") else 0
                n2 = len(v) - expect_stage1
                if "F" in v:
                    st["model_fail"] += 1
                elif n2 >= 1:
                    st["model_pass"] += 1
                    s = lines[i + 2].split() if i + 2 < len(lines) else []
                    if s and s[0] == "S":
                        st["steiner_compared"] += int(s[1]) - prev_nv
                else:
                    st["model_skipped"] += 1
                    print("skipped:", cid, l[:120])
print(" ".join("%s=%d" % kv for kv in st.items()))
