#!/usr/bin/env python3
"""rmstats.py -- attribute the `corr` verdicts of the model checker (.cache/chkm) to vertex removals and classify them.

  python3 tools/rmstats.py .cache/run/C11 [more run dirs]

Reads the harness outputs (shard*.out) of a ./verify run, re-runs chkm with CHK_PASSES=1 and reports, per kind of removal
(decided from the state BEFORE the removal), how many removals the executable model (Tri/Remove.v) reproduced index-exactly.
Only reporting: the judgement is the checker's."""
import sys, os, glob, subprocess, struct, collections
from fractions import Fraction
from concurrent.futures import ThreadPoolExecutor

ROOT = os.path.dirname(os.path.dirname(os.path.abspath(__file__)))
CHKM = os.path.join(ROOT, ".cache", "chkm")

def f64(b):
    return struct.unpack('<d', struct.pack('<Q', int(b)))[0]

def parse_state(t):
    nv, ne, nf = int(t[1]), int(t[2]), int(t[3])
    i = t.index("V") + 1
    V = [(Fraction(f64(t[i + 4 * k])), Fraction(f64(t[i + 4 * k + 1])), int(t[i + 4 * k + 3])) for k in range(nv)]
    i = t.index("E", i + 4 * nv) + 1
    E = [tuple(int(x) for x in t[i + 4 * k:i + 4 * k + 4]) for k in range(2 * ne)]     # next prev face org
    i = i + 8 * ne
    assert t[i] == "F"
    i = i + 1 + nf
    assert t[i] == "G"
    G = [int(x) for x in t[i + 1:i + 1 + ne]]
    return dict(nv=nv, ne=ne, nf=nf, V=V, E=E, G=G)

def incircle(a, b, c, d):
    adx, ady = a[0] - d[0], a[1] - d[1]
    bdx, bdy = b[0] - d[0], b[1] - d[1]
    cdx, cdy = c[0] - d[0], c[1] - d[1]
    al, bl, cl = adx * adx + ady * ady, bdx * bdx + bdy * bdy, cdx * cdx + cdy * cdy
    return adx * (bdy * cl - cdy * bl) - ady * (bdx * cl - cdx * bl) + al * (bdx * cdy - cdx * bdy)

def edge_set(s):
    out = set()
    for k in range(s["ne"]):
        a, b = s["E"][2 * k][3], s["E"][2 * k + 1][3]
        pa, pb = s["V"][a][:2], s["V"][b][:2]
        out.add(frozenset((pa, pb)))
    return out

def classify(p, n, v, kind):
    """p: state before, n: state after, v: removed vertex index"""
    tags = []
    tags.append(kind)
    outs = [e for e in range(2 * p["ne"]) if p["E"][e][3] == v]
    deg = len(outs)
    flagged = sum(1 for e in outs if p["G"][e // 2])
    if p["nf"] <= 1:
        if p["nv"] == 1:
            return tags + ["degenerate:last-vertex"]
        if p["nv"] == 2:
            return tags + ["degenerate:two-vertices-left"]
        c = "degenerate:line-end" if deg == 1 else "degenerate:line-inner"
        tags.append(c)
        tags.append("swap:%s" % ("last-vertex" if v == p["nv"] - 1 else "moved"))
        if flagged:
            tags.append("with-constraints")
        return tags
    hull = any(p["E"][e][2] == 0 or p["E"][e ^ 1][2] == 0 for e in outs)
    where = "hull" if hull else "interior"
    if p["nv"] == 3:
        tags.append("2d:last-three(triangle->line)")
    elif n["nf"] <= 1:
        tags.append("2d:%s->degenerate-result" % where)
    d = "deg%d" % deg if deg <= 6 else ("deg7-9" if deg <= 9 else "deg10+")
    tags.append("2d:%s:%s" % (where, d))
    tags.append("2d:%s" % where)
    ring = [p["V"][p["E"][e ^ 1][3]][:2] for e in outs]
    newe = [e for e in edge_set(n) - edge_set(p) if all(q in ring for q in e)]
    if not hull:
        a = p["V"][v][2]
        fo = p["V"][p["E"][a ^ 1][3]][:2]      # fan origin = destination of the vertex' out edge
        flips = any(fo not in e for e in newe)
        tags.append("2d:interior:%s" % ("flips-after-fan" if flips else "fan-kept"))
    else:
        tags.append("2d:hull:%s" % ("flips(reflex-neighbours)" if newe else "no-flip"))
    # cocircular quadruple among the neighbours
    coc = False
    m = len(ring)
    if m <= 12:
        for i in range(m):
            for j in range(i + 1, m):
                for k in range(j + 1, m):
                    for l in range(k + 1, m):
                        if incircle(ring[i], ring[j], ring[k], ring[l]) == 0:
                            coc = True
    else:
        for i in range(m):
            if incircle(ring[i], ring[(i + 1) % m], ring[(i + 2) % m], ring[(i + 3) % m]) == 0:
                coc = True
    if coc:
        tags.append("2d:%s:cocircular-neighbours" % where)
    if flagged:
        tags.append("with-constraints(cdt)")
    tags.append("swap:%s" % ("last-vertex" if v == p["nv"] - 1 else "moved"))
    return tags

def one(of):
    res = subprocess.run(CHKM, stdin=open(of), stdout=subprocess.PIPE, env=dict(os.environ, CHK_PASSES="1"), text=True).stdout
    verd = {}
    for line in res.splitlines():
        t = line.split()
        if len(t) == 4 and t[0] in ("P", "F") and t[3] == "corr":
            verd.setdefault((t[1], int(t[2])), []).append(t[0] == "P")
    stats = collections.Counter()
    cid, k, prev, cur_op, kind = None, -1, None, None, None
    pending = None
    for line in open(of, errors="replace"):
        t = line.split()
        if not t:
            continue
        if t[0] == "C":
            cid, k, prev, pending = t[1], -1, None, None
            kind = t[2]
        elif t[0] == "O":
            k += 1
            pending = None
            if t[2] in ("rm", "trm", "lrm"):
                pending = [t[2], t[3:], None]
        elif t[0] == "R" and pending is not None:
            pending[2] = t[1:]
        elif t[0] == "S":
            cur = parse_state(t)
            if pending is not None and pending[2] and pending[2][0] not in ("skip", "panic", "hang", "none"):
                name, args, r = pending
                if name == "lrm":
                    x, y = Fraction(f64(args[0])), Fraction(f64(args[1]))
                    vs = [i for i, q in enumerate(prev["V"]) if q[0] == x and q[1] == y] if prev else []
                    v = vs[0] if vs else None
                else:
                    v = int(args[0][1:])
                vl = verd.get((cid, k), [])
                if v is not None and prev is not None:
                    ok = "pass" if (vl and all(vl)) else ("FAIL" if vl else "no-verdict")
                    for tg in classify(prev, cur, v, kind) + ["op:" + name, "ALL-REMOVALS"]:
                        stats[(tg, ok)] += 1
            prev = cur
            pending = None
    return stats

def main():
    files = []
    for d in sys.argv[1:]:
        files += sorted(glob.glob(os.path.join(d, "shard*.out")))
    tot = collections.Counter()
    with ThreadPoolExecutor(max_workers=16) as ex:
        for st in ex.map(one, files):
            tot.update(st)
    keys = sorted(set(k for k, _ in tot))
    print("%-48s %8s %6s %10s" % ("kind of removal (state before)", "pass", "FAIL", "no-verdict"))
    for k in keys:
        print("%-48s %8d %6d %10d" % (k, tot[(k, "pass")], tot[(k, "FAIL")], tot[(k, "no-verdict")]))

if __name__ == "__main__":
    main()
