#!/usr/bin/env python3
"""rs2v -- translate a closed subset of Rust function bodies from /repo into Gallina.

Every function named in SPEC below is located in its source file, its body is tokenised
and parsed by a small recursive-descent parser for a *closed* subset of Rust, and emitted as
a Gallina definition over the vocabulary of SpadeV.Num.F64 / SpadeV.Gen.Prelude.
Anything outside the subset is a hard error naming the construct; there is no fallback.

usage: rs2v.py <repo-root> <out-dir>      (writes <out-dir>/<Name>.v, only when changed)
"""
import re, sys, os, struct

class TransError(Exception):
    pass

# ----------------------------------------------------------------------------- tokenizer
TOK = re.compile(r"""
    (?P<ws>\s+|//[^\n]*|/\*.*?\*/)
  | (?P<float>\d+\.\d+(?:[eE][+-]?\d+)?(?:_?f(?:32|64))?|\d+[eE][+-]?\d+)
  | (?P<int>\d+(?:_?(?:usize|u32|u64|i32|i64))?)
  | (?P<str>"(?:[^"\\]|\\.)*")
  | (?P<life>'[a-z_]+\b(?!'))
  | (?P<id>[A-Za-z_][A-Za-z0-9_]*!?)
  | (?P<op>::|->|=>|==|!=|<=|>=|&&|\|\||<<|>>|\.\.|[-+*/%^&|!<>=.,;:(){}\[\]?#])
""", re.X | re.S)

def tokenize(src):
    out = []
    pos = 0
    while pos < len(src):
        m = TOK.match(src, pos)
        if not m:
            raise TransError("cannot tokenise at: %r" % src[pos:pos + 30])
        pos = m.end()
        k = m.lastgroup
        if k == 'ws':
            continue
        out.append((k, m.group(k)))
    out.append(('eof', ''))
    return out

# ----------------------------------------------------------------------------- locating functions
def find_fn(src, name, impl=None):
    """Return (signature text, body text) of `fn name` (inside `impl ... impl-name ...{` if given)."""
    start = 0
    if impl is not None:
        m = re.search(r"^impl[^\n{]*\b%s\b[^{]*\{" % re.escape(impl), src, re.M)
        if not m:
            raise TransError("impl block for %s not found" % impl)
        # choose the impl block that contains the function
        cands = [mm for mm in re.finditer(r"^impl[^\n{]*\b%s\b[^{]*\{" % re.escape(impl), src, re.M)]
        for mm in cands:
            end = match_brace(src, mm.end() - 1)
            block = src[mm.end():end]
            if re.search(r"\bfn\s+%s\b" % re.escape(name), block):
                start = mm.end()
                src_end = end
                break
        else:
            raise TransError("fn %s not found in impl %s" % (name, impl))
        region = src[:src_end]
    else:
        region = src
    m = re.compile(r"\bfn\s+%s\b" % re.escape(name)).search(region, start)
    if not m:
        raise TransError("fn %s not found" % name)
    # signature up to the opening brace of the body (skip where-clauses)
    i = m.end()
    depth = 0
    while True:
        c = region[i]
        if c in '(<[':
            depth += 1
        elif c in ')>]':
            if not (c == '>' and region[i - 1] == '-'):
                depth -= 1
        elif c == '{' and depth == 0:
            break
        elif c == ';' and depth == 0:
            raise TransError("fn %s has no body" % name)
        i += 1
    end = match_brace(region, i)
    return region[m.start():i], region[i + 1:end]

def match_brace(src, i):
    assert src[i] == '{'
    depth = 0
    j = i
    in_str = False
    while j < len(src):
        c = src[j]
        if in_str:
            if c == '\\':
                j += 1
            elif c == '"':
                in_str = False
        elif c == '"':
            in_str = True
        elif c == '/' and src[j:j + 2] == '//':
            j = src.index('\n', j)
        elif c == '{':
            depth += 1
        elif c == '}':
            depth -= 1
            if depth == 0:
                return j
        j += 1
    raise TransError("unbalanced braces")

def find_const(src, name):
    m = re.search(r"\bconst\s+%s\s*:\s*(\w+)\s*=\s*([^;]+);" % re.escape(name), src)
    if not m:
        raise TransError("const %s not found" % name)
    return m.group(1), m.group(2).strip()

# ----------------------------------------------------------------------------- parser
class P:
    def __init__(self, toks):
        self.t = toks
        self.i = 0

    def peek(self, k=0):
        return self.t[self.i + k]

    def next(self):
        x = self.t[self.i]
        self.i += 1
        return x

    def at(self, v):
        return self.t[self.i][1] == v and self.t[self.i][0] in ('op', 'id')

    def eat(self, v):
        if not self.at(v):
            raise TransError("expected %r, found %r" % (v, self.t[self.i][1]))
        self.i += 1

    def opt(self, v):
        if self.at(v):
            self.i += 1
            return True
        return False

    # block := stmt* expr?     (after the opening brace, up to the closing one / eof)
    def block(self, closer):
        stmts = []
        while True:
            if self.at(closer) or self.peek()[0] == 'eof':
                return ('block', stmts, None)
            if self.at('let'):
                self.next()
                if self.opt('mut'):
                    raise TransError("`let mut` is outside the translated subset")
                pat = self.pattern()
                if self.opt(':'):
                    self.type_()
                self.eat('=')
                e = self.expr()
                self.eat(';')
                stmts.append(('let', pat, e))
                continue
            if self.at('return'):
                self.next()
                e = self.expr()
                self.opt(';')
                return ('block', stmts, e)
            if self.peek()[1] in ('assert!', 'debug_assert!'):
                self.next()
                self.eat('(')
                c = self.expr()
                while self.opt(','):
                    if self.peek()[0] == 'str':
                        self.next()
                    else:
                        self.expr()
                self.eat(')')
                self.eat(';')
                stmts.append(('assert', c))
                continue
            e = self.expr()
            if self.opt(';'):
                stmts.append(('expr', e))
                continue
            if e[0] == 'if' and not (self.at(closer) or self.peek()[0] == 'eof'):
                stmts.append(('expr', e))
                continue
            return ('block', stmts, e)

    def pattern(self):
        if self.opt('['):
            names = []
            while not self.at(']'):
                names.append(self.next()[1])
                self.opt(',')
            self.eat(']')
            return ('arr', names)
        if self.opt('('):
            names = []
            while not self.at(')'):
                names.append(self.next()[1])
                self.opt(',')
            self.eat(')')
            return ('tup', names)
        k, v = self.next()
        if k != 'id':
            raise TransError("unsupported pattern %r" % v)
        return ('var', v)

    def type_(self):
        depth = 0
        while True:
            k, v = self.peek()
            if v in ('<', '(', '['):
                depth += 1
            elif v in ('>', ')', ']'):
                if depth == 0:
                    return
                depth -= 1
            elif v in ('=', ',', ';', '{') and depth == 0:
                return
            elif k == 'eof':
                return
            self.next()

    BIN = [['||'], ['&&'], ['==', '!=', '<', '>', '<=', '>='], ['|'], ['^'], ['&'], ['<<', '>>'],
           ['+', '-'], ['*', '/', '%']]

    def expr(self, lvl=0, nostruct=False):
        if lvl == len(self.BIN):
            return self.unary(nostruct)
        lhs = self.expr(lvl + 1, nostruct)
        while self.peek()[0] == 'op' and self.peek()[1] in self.BIN[lvl]:
            op = self.next()[1]
            rhs = self.expr(lvl + 1, nostruct)
            lhs = ('bin', op, lhs, rhs)
        return lhs

    def unary(self, nostruct):
        if self.opt('!'):
            return ('not', self.unary(nostruct))
        if self.opt('-'):
            return ('neg', self.unary(nostruct))
        if self.opt('&'):
            self.opt('mut')
            return self.unary(nostruct)
        if self.opt('*'):
            return self.unary(nostruct)
        return self.postfix(self.primary(nostruct), nostruct)

    def args(self):
        a = []
        while not self.at(')'):
            a.append(self.expr())
            if not self.opt(','):
                break
        self.eat(')')
        return a

    def postfix(self, e, nostruct):
        while True:
            if self.opt('.'):
                k, name = self.next()
                if k == 'int':
                    e = ('field', e, name)
                    continue
                if k != 'id':
                    raise TransError("bad member %r" % name)
                if self.at('::'):
                    self.next()
                    self.eat('<')
                    self.type_()
                    self.eat('>')
                if self.opt('('):
                    e = ('mcall', e, name, self.args())
                else:
                    e = ('field', e, name)
            elif self.opt('?'):
                e = ('try', e)
            elif self.at('['):
                self.next()
                ix = self.expr()
                self.eat(']')
                e = ('index', e, ix)
            elif self.at('as'):
                self.next()
                self.type_()
            else:
                return e

    def primary(self, nostruct):
        k, v = self.next()
        if k == 'float':
            return ('float', v)
        if k == 'int':
            return ('int', re.sub(r"_?(usize|u32|u64|i32|i64)$", "", v))
        if v == '(':
            if self.opt(')'):
                return ('unit',)
            e = self.expr()
            if self.opt(','):
                items = [e]
                while not self.at(')'):
                    items.append(self.expr())
                    if not self.opt(','):
                        break
                self.eat(')')
                return ('tuple', items)
            self.eat(')')
            return e
        if v == '[':
            items = []
            while not self.at(']'):
                items.append(self.expr())
                if not self.opt(','):
                    break
            self.eat(']')
            return ('array', items)
        if v == 'if':
            c = self.expr(nostruct=True)
            self.eat('{')
            t = self.block('}')
            self.eat('}')
            if self.opt('else'):
                if self.at('if'):
                    f = self.primary(nostruct)
                    f = ('block', [], f)
                else:
                    self.eat('{')
                    f = self.block('}')
                    self.eat('}')
            else:
                f = None
            return ('if', c, t, f)
        if v == '{':
            b = self.block('}')
            self.eat('}')
            return b
        if k == 'id':
            path = [v]
            while self.at('::'):
                self.next()
                if self.opt('<'):
                    self.type_()
                    self.eat('>')
                    continue
                path.append(self.next()[1])
            if self.opt('('):
                return ('call', path, self.args())
            if self.at('{') and not nostruct and path[-1][0].isupper():
                self.next()
                fields = []
                while not self.at('}'):
                    fname = self.next()[1]
                    if self.opt(':'):
                        fe = self.expr()
                    else:
                        fe = ('path', [fname])
                    fields.append((fname, fe))
                    if not self.opt(','):
                        break
                self.eat('}')
                return ('struct', path, fields)
            return ('path', path)
        raise TransError("unsupported token %r" % v)

def parse_body(text):
    p = P(tokenize(text))
    b = p.block('}')
    if p.peek()[0] != 'eof':
        raise TransError("trailing tokens after body: %r" % p.peek()[1])
    return b

# ----------------------------------------------------------------------------- emitter
def f64_bits(lit):
    lit = re.sub(r"_?f(32|64)$", "", lit)
    return struct.unpack('<Q', struct.pack('<d', float(lit)))[0]

class Emit:
    """dom: 'float' or 'nat' decides how arithmetic/comparison operators are rendered.
    voc: per-file vocabulary (method names, function names, paths, struct constructors)."""
    def __init__(self, dom, voc, ret=None):
        self.dom = dom
        self.voc = voc
        self.ret = ret

    def e(self, x):
        k = x[0]
        if k == 'float':
            return "(f_of_bits %d)" % f64_bits(x[1])
        if k == 'int':
            return x[1] if self.dom == 'nat' else "(%s)%%Z" % x[1]
        if k == 'unit':
            return "tt"
        if k == 'path':
            name = '::'.join(x[1])
            if name in self.voc['paths']:
                return self.voc['paths'][name]
            if len(x[1]) == 1 and re.match(r"^[a-z_][a-z0-9_]*$", name):
                return self.var(name)
            raise TransError("unknown path %s" % name)
        if k == 'not':
            return "(negb %s)" % self.e(x[1])
        if k == 'neg':
            if self.dom == 'float':
                return "(f_neg %s)" % self.e(x[1])
            raise TransError("unary minus in nat domain")
        if k == 'bin':
            op, a, b = x[1], self.e(x[2]), self.e(x[3])
            if op == '&&':
                return "(andb %s %s)" % (a, b)
            if op == '||':
                return "(orb %s %s)" % (a, b)
            tbl = self.voc['binops_' + self.dom]
            if op not in tbl:
                raise TransError("operator %s not in the %s vocabulary" % (op, self.dom))
            return "(%s %s %s)" % (tbl[op], a, b)
        if k == 'field':
            key = '.' + x[2]
            if key not in self.voc['fields']:
                raise TransError("unknown field %s" % x[2])
            return "(%s %s)" % (self.voc['fields'][key], self.e(x[1]))
        if k == 'mcall':
            name = x[2]
            if name not in self.voc['methods']:
                raise TransError("method .%s() not in vocabulary" % name)
            tgt = self.voc['methods'][name]
            if tgt is None:          # identity (into, clone, ...)
                if x[3]:
                    raise TransError(".%s with arguments" % name)
                return self.e(x[1])
            return "(%s)" % ' '.join([tgt, self.e(x[1])] + [self.e(a) for a in x[3]])
        if k == 'call':
            name = '::'.join(x[1])
            if name not in self.voc['calls']:
                raise TransError("call to %s not in vocabulary" % name)
            tgt = self.voc['calls'][name]
            if not x[2]:
                return tgt
            return "(%s)" % ' '.join([tgt] + [self.e(a) for a in x[2]])
        if k == 'struct':
            name = '::'.join(x[1])
            if name not in self.voc['structs']:
                raise TransError("struct literal %s not in vocabulary" % name)
            ctor, order = self.voc['structs'][name]
            d = dict(x[2])
            if sorted(d) != sorted(order):
                raise TransError("struct %s: fields %s" % (name, sorted(d)))
            return "(%s)" % ' '.join([ctor] + [self.e(d[f]) for f in order])
        if k == 'if':
            if x[3] is None:
                raise TransError("`if` without else used as a value")
            return "(if %s then %s else %s)" % (self.e(x[1]), self.blk(x[2]), self.blk(x[3]))
        if k == 'block':
            return self.blk(x)
        if k == 'tuple':
            return "(%s)" % ', '.join(self.e(a) for a in x[1])
        if k == 'array':
            return "[%s]" % '; '.join(self.e(a) for a in x[1])
        if k == 'try':
            raise TransError("`?` outside statement position")
        raise TransError("unsupported expression kind %s" % k)

    def var(self, n):
        return {'type': 'type_', 'end': 'end_', 'in': 'in_', 'at': 'at_', 'from': 'from_', 'to': 'to_'}.get(n, n)

    def blk(self, b):
        assert b[0] == 'block'
        stmts, fin = b[1], b[2]
        if fin is None:
            raise TransError("block without value")
        out = self.e(fin)
        for st in reversed(stmts):
            if st[0] == 'let':
                pat, ex = st[1], st[2]
                if ex[0] == 'try':
                    out = "(match %s with Err e_ => Err e_ | Ok %s => %s end)" % (self.e(ex[1]), self.pat(pat), out)
                else:
                    out = "(let %s := %s in %s)" % (self.pat(pat), self.e(ex), out)
            elif st[0] == 'expr':
                ex = st[1]
                if ex[0] == 'try':
                    out = "(match %s with Err e_ => Err e_ | Ok _ => %s end)" % (self.e(ex[1]), out)
                elif ex[0] == 'if' and ex[3] is None:
                    # early return: if c { return v; }  rest
                    tb = ex[2]
                    out = "(if %s then %s else %s)" % (self.e(ex[1]), self.blk(tb), out)
                else:
                    raise TransError("expression statement without effect in the subset")
            elif st[0] == 'assert':
                out = "(if %s then %s else %s)" % (self.e(st[1]), out, self.voc['panic'])
        return out

    def pat(self, p):
        if p[0] == 'var':
            return self.var(p[1])
        if p[0] == 'tup':
            return "'(%s)" % ', '.join(self.var(n) for n in p[1])
        if p[0] == 'arr':
            raise TransError("array pattern")
        raise TransError("pattern")

# ----------------------------------------------------------------------------- vocabularies / SPEC
FLOAT_BIN = {'<': 'f_lt', '>': 'f_gt', '<=': 'f_le', '>=': 'f_ge', '==': 'f_eq', '!=': 'f_ne',
             '-': 'f_sub', '+': 'f_add', '*': 'f_mul'}
NAT_BIN = {'<': 'Nat.ltb', '<=': 'Nat.leb', '==': 'Nat.eqb', '-': 'Nat.sub', '+': 'Nat.add', '*': 'Nat.mul',
           '^': 'Nat.lxor', '&': 'Nat.land', '|': 'Nat.lor', '<<': 'Nat.shiftl', '>>': 'Nat.shiftr',
           '!=': 'nat_neb', '>': 'nat_gtb', '>=': 'nat_geb'}

MATH_VOC = {
    'binops_float': FLOAT_BIN, 'binops_nat': NAT_BIN, 'panic': 'panic_value',
    'paths': {'MIN_ALLOWED_VALUE': 'MIN_ALLOWED_VALUE', 'MAX_ALLOWED_VALUE': 'MAX_ALLOWED_VALUE',
              'InsertionError::NAN': 'NAN', 'InsertionError::TooSmall': 'TooSmall',
              'InsertionError::TooLarge': 'TooLarge'},
    'fields': {'.x': 'px', '.y': 'py', '.factor': 'pp_factor', '.length_2': 'pp_length_2',
               '.signed_side': 'signed_side'},
    'methods': {'into': None, 'is_nan': 'f_is_nan', 'abs': 'f_abs', 'position': 'position',
                'is_on_left_side_or_on_line': 'is_on_left_side_or_on_line',
                'is_on_right_side_or_on_line': 'is_on_right_side_or_on_line',
                'is_on_left_side': 'is_on_left_side', 'is_on_right_side': 'is_on_right_side',
                'is_on_line': 'is_on_line', 'is_before_edge': 'is_before_edge',
                'is_behind_edge': 'is_behind_edge', 'sub': 'pt_sub', 'dot': 'pt_dot', 'length2': 'pt_length2'},
    'calls': {'Err': 'Err', 'Ok': 'Ok', 'S::zero': 'f_zero', 'zero': 'f_zero',
              'validate_coordinate': 'validate_coordinate',
              'mitigate_underflow_for_coordinate': 'mitigate_underflow_for_coordinate',
              'Point2::new': 'mkpt', 'to_robust_coord': 'to_robust_coord',
              'robust::orient2d': 'robust_orient2d', 'robust::incircle': 'robust_incircle',
              'LineSideInfo::from_determinant': 'from_determinant', 'side_query': 'side_query',
              'PointProjection::new': 'mkpp'},
    'structs': {'robust::Coord': ('mkpt', ['x', 'y']), 'LineSideInfo': ('mklsi', ['signed_side']),
                'Self': None},
}

def voc_with(base, **over):
    v = dict(base)
    for k, val in over.items():
        d = dict(base.get(k, {}))
        d.update(val)
        v[k] = d
    return v

LSI_VOC = voc_with(MATH_VOC, structs={'LineSideInfo': ('mklsi', ['signed_side']), 'Self': ('mklsi', ['signed_side'])})
PP_VOC = voc_with(MATH_VOC, structs={'Self': ('mkpp', ['factor', 'length_2'])})
SIZE_VOC = voc_with(MATH_VOC, methods={
    's': None, 'num_faces': 'num_faces', 'num_undirected_edges': 'num_undirected_edges',
    'num_directed_edges': 'num_directed_edges', 'num_inner_faces': 'num_inner_faces',
    'num_all_faces': 'num_all_faces', 'all_vertices_on_line': 'all_vertices_on_line'})

# (output name, prelude, [items])   item = (kind, source file, rust name, impl, coq name, params, ret type, domain, voc)
SPEC = [
 ('Math', """From Coq Require Import ZArith Bool List.
From SpadeV Require Import Num.F64 Gen.Prelude.
Import ListNotations.
""", [
   ('const', 'src/delaunay_core/math.rs', 'MIN_ALLOWED_VALUE', None, 'MIN_ALLOWED_VALUE', None, 'F', 'float', MATH_VOC),
   ('const', 'src/delaunay_core/math.rs', 'MAX_ALLOWED_VALUE', None, 'MAX_ALLOWED_VALUE', None, 'F', 'float', MATH_VOC),
   ('fn', 'src/delaunay_core/math.rs', 'validate_coordinate', None, 'validate_coordinate', '(value : F)', 'result unit InsertionError', 'float', MATH_VOC),
   ('fn', 'src/delaunay_core/math.rs', 'validate_vertex', None, 'validate_vertex', '(vertex : pt)', 'result unit InsertionError', 'float', MATH_VOC),
   ('fn', 'src/delaunay_core/math.rs', 'mitigate_underflow_for_coordinate', None, 'mitigate_underflow_for_coordinate', '(coordinate : F)', 'F', 'float', MATH_VOC),
   ('fn', 'src/delaunay_core/math.rs', 'mitigate_underflow', None, 'mitigate_underflow', '(position : pt)', 'pt', 'float', MATH_VOC),
   ('fn', 'src/delaunay_core/math.rs', 'to_robust_coord', None, 'to_robust_coord', '(point : pt)', 'pt', 'float', MATH_VOC),
   ('fn', 'src/delaunay_core/line_side_info.rs', 'from_determinant', 'LineSideInfo', 'from_determinant', '(s : F)', 'LineSideInfo', 'float', LSI_VOC),
   ('fn', 'src/delaunay_core/line_side_info.rs', 'is_on_left_side', 'LineSideInfo', 'is_on_left_side', '(self : LineSideInfo)', 'bool', 'float', LSI_VOC),
   ('fn', 'src/delaunay_core/line_side_info.rs', 'is_on_right_side', 'LineSideInfo', 'is_on_right_side', '(self : LineSideInfo)', 'bool', 'float', LSI_VOC),
   ('fn', 'src/delaunay_core/line_side_info.rs', 'is_on_left_side_or_on_line', 'LineSideInfo', 'is_on_left_side_or_on_line', '(self : LineSideInfo)', 'bool', 'float', LSI_VOC),
   ('fn', 'src/delaunay_core/line_side_info.rs', 'is_on_right_side_or_on_line', 'LineSideInfo', 'is_on_right_side_or_on_line', '(self : LineSideInfo)', 'bool', 'float', LSI_VOC),
   ('fn', 'src/delaunay_core/line_side_info.rs', 'is_on_line', 'LineSideInfo', 'is_on_line', '(self : LineSideInfo)', 'bool', 'float', LSI_VOC),
   ('fn', 'src/delaunay_core/line_side_info.rs', 'reversed', 'LineSideInfo', 'lsi_reversed', '(self : LineSideInfo)', 'LineSideInfo', 'float', LSI_VOC),
   ('fn', 'src/delaunay_core/line_side_info.rs', 'eq', 'PartialEq for LineSideInfo', 'lsi_eq', '(self other : LineSideInfo)', 'bool', 'float',
        voc_with(LSI_VOC, binops_float={'==': 'Bool.eqb'})),
   ('section', None, 'Oracle', None, None, None, None, None, None),
   ('fn', 'src/delaunay_core/math.rs', 'side_query', None, 'side_query', '(p1 p2 query_point : pt)', 'LineSideInfo', 'float', MATH_VOC),
   ('fn', 'src/delaunay_core/math.rs', 'is_ordered_ccw', None, 'is_ordered_ccw', '(p1 p2 query_point : pt)', 'bool', 'float', MATH_VOC),
   ('fn', 'src/delaunay_core/math.rs', 'contained_in_circumference', None, 'contained_in_circumference', '(v1 v2 v3 p : pt)', 'bool', 'float', MATH_VOC),
   ('endsection', None, 'Oracle', None, None, None, None, None, None),
   ('fn', 'src/delaunay_core/math.rs', 'is_before_edge', 'PointProjection', 'is_before_edge', '(self : PointProjection)', 'bool', 'float', PP_VOC),
   ('fn', 'src/delaunay_core/math.rs', 'is_behind_edge', 'PointProjection', 'is_behind_edge', '(self : PointProjection)', 'bool', 'float', PP_VOC),
   ('fn', 'src/delaunay_core/math.rs', 'is_on_edge', 'PointProjection', 'is_on_edge', '(self : PointProjection)', 'bool', 'float', PP_VOC),
   ('fn', 'src/delaunay_core/math.rs', 'reversed', 'PointProjection', 'pp_reversed', '(self : PointProjection)', 'PointProjection', 'float', PP_VOC),
   ('fn', 'src/delaunay_core/math.rs', 'project_point', None, 'project_point', '(p1 p2 query_point : pt)', 'PointProjection', 'float', PP_VOC),
 ]),
 ('Sizes', """From Coq Require Import Arith Bool.
From SpadeV Require Import Gen.Prelude.
""", [
   ('fn', 'src/triangulation.rs', 'num_all_faces', None, 'num_all_faces', '(self : dcel_sizes)', 'nat', 'nat', SIZE_VOC),
   ('fn', 'src/triangulation.rs', 'num_inner_faces', None, 'num_inner_faces', '(self : dcel_sizes)', 'nat', 'nat', SIZE_VOC),
   ('fn', 'src/triangulation.rs', 'all_vertices_on_line', None, 'all_vertices_on_line', '(self : dcel_sizes)', 'bool', 'nat', SIZE_VOC),
   ('fn', 'src/triangulation.rs', 'convex_hull_size', None, 'convex_hull_size', '(self : dcel_sizes)', 'nat', 'nat', SIZE_VOC),
 ]),
]

SECTION_ORACLE = """Section Oracle.
(* `robust::orient2d` and `robust::incircle` live outside the repository: section variables. *)
Variable robust_orient2d : pt -> pt -> pt -> F.
Variable robust_incircle : pt -> pt -> pt -> pt -> F.
"""

def translate(repo, outdir):
    os.makedirs(outdir, exist_ok=True)
    report = []
    for name, prelude, items in SPEC:
        out = ["(* GENERATED by tools/rs2v.py from the sources under /repo -- do not edit. *)", prelude]
        for kind, path, rname, impl, cname, params, ret, dom, voc in items:
            if kind == 'section':
                out.append(SECTION_ORACLE)
                continue
            if kind == 'endsection':
                out.append("End Oracle.\n")
                continue
            src = open(os.path.join(repo, path)).read()
            # drop the test module so test helpers never shadow real functions
            src = re.split(r"\n#\[cfg\(test\)\]\s*\nmod test", src)[0]
            try:
                if kind == 'const':
                    ty, val = find_const(src, rname)
                    if ty != 'f64':
                        raise TransError("const %s: type %s" % (rname, ty))
                    toks = tokenize(val)
                    if toks[0][0] != 'float' or toks[1][0] != 'eof':
                        raise TransError("const %s is not a float literal" % rname)
                    out.append("Definition %s : F := f_of_bits %d. (* %s *)\n" % (cname, f64_bits(val), val))
                    report.append((path, rname, 'const'))
                    continue
                sig, body = find_fn(src, rname, impl)
                ast = parse_body(body)
                em = Emit(dom, voc)
                text = em.blk(ast)
                out.append("(* %s :: %s *)\nDefinition %s %s : %s :=\n  %s.\n" % (path, rname, cname, params, ret, text))
                report.append((path, rname, 'fn'))
            except TransError as ex:
                raise TransError("%s::%s: %s" % (path, rname, ex))
        content = '\n'.join(out)
        target = os.path.join(outdir, name + '.v')
        old = open(target).read() if os.path.exists(target) else None
        if old != content:
            with open(target, 'w') as f:
                f.write(content)
    return report

if __name__ == '__main__':
    try:
        rep = translate(sys.argv[1], sys.argv[2])
    except TransError as ex:
        print("RS2V-ERROR: %s" % ex)
        sys.exit(2)
    print("rs2v: translated %d items" % len(rep))
