#!/usr/bin/env python3
"""rs2v -- translate a closed subset of Rust function bodies from /repo into Gallina.

Every function named in SPEC below is located in its source file, its body is tokenised
and parsed by a small recursive-descent parser for a *closed* subset of Rust, and emitted as
a Gallina definition over the vocabulary of SpadeV.Num.F64 / SpadeV.Gen.Prelude.
Anything outside the subset is a hard error naming the construct; there is no fallback.

Stage 2 (kind 'dcelfn' in SPEC, class DcelEmit): the loop-free DCEL primitives of dcel_operations.rs are
translated statement by statement, in state-passing style, against the API of Dcel/Raw.v into Gen/DcelOps.v;
parameters and result type are derived from the Rust signature.

Constructs of the subset beyond let / if-else / early return / `?` / asserts / vocabulary calls, each with the rule
that makes the translation exact (see the comments at the implementing method):
  stage 1 (pure functions, class Emit)
    * `let Path { f, g: n } = e;`            binds the named fields of the value of e, read once (Emit.let_struct)
    * `let [n1, .., nk] = [e1, .., ek];`     element-wise binding of an array literal of pure expressions (Emit.let_array)
    * `[e1, .., ek].map(f)`                  is `[f(e1), .., f(ek)]` for a pure vocabulary function f (Emit.array_items)
    * `match b { true => x, false => y }`    is `if b { x } else { y }`;  `match r { Ok(p) => x, Err(q) => y }` is the
                                             Gallina match on `result` (Emit.match)
    * `Struct { f }` shorthand, `let x: T = e` (the annotation does not change the value), `Self::new` inside
      `impl PointProjection`, comparisons with swapped operands (`a < b` -> f_lt a b, `b > a` -> f_gt b a = f_lt a b by
      the definitions of Num/F64.v)
    * a local binder that would capture a vocabulary (global Gallina) name used in its scope is a hard error
  stage 2 (DCEL primitives, class DcelEmit)
    * `let x = &mut dcel.vertices[i];` / `let x = &mut dcel.faces[i];` then `x.out_edge = o` / `x.adjacent_edge = o`
      (and reads of these fields): the write goes to entry i, i evaluated once at the borrow (exclusive borrow)

usage: rs2v.py <repo-root> <out-dir>      (writes <out-dir>/<Name>.v, only when changed)
"""
import re, sys, os, struct

class TransError(Exception):
    pass

# ----------------------------------------------------------------------------- tokenizer
TOK = re.compile(r"""
    (?P<ws>\s+|//[^\n]*|/\*.*?\*/)
  | (?P<float>\d+\.\d+(?:[eE][+-]?\d+)?(?:_?f(?:32|64))?|\d+[eE][+-]?\d+)
  | (?P<int>\d+(?:_?(?:usize|u32|u64|i32|i64))?)
  | (?P<str>"(?:[^"\\]|\\.)*")
  | (?P<life>'[a-z_]+\b(?!'))
  | (?P<id>[A-Za-z_][A-Za-z0-9_]*!?)
  | (?P<op>::|->|=>|==|!=|<=|>=|&&|\|\||<<|>>|\.\.|[-+*/%^&|!<>=.,;:(){}\[\]?#])
""", re.X | re.S)

def tokenize(src):
    out = []
    pos = 0
    while pos < len(src):
        m = TOK.match(src, pos)
        if not m:
            raise TransError("cannot tokenise at: %r" % src[pos:pos + 30])
        pos = m.end()
        k = m.lastgroup
        if k == 'ws':
            continue
        out.append((k, m.group(k)))
    out.append(('eof', ''))
    return out

# ----------------------------------------------------------------------------- locating functions
def find_fn(src, name, impl=None):
    """Return (signature text, body text) of `fn name` (inside `impl ... impl-name ...{` if given)."""
    start = 0
    if impl is not None:
        m = re.search(r"^impl[^\n{]*\b%s\b[^{]*\{" % re.escape(impl), src, re.M)
        if not m:
            raise TransError("impl block for %s not found" % impl)
        # choose the impl block that contains the function
        cands = [mm for mm in re.finditer(r"^impl[^\n{]*\b%s\b[^{]*\{" % re.escape(impl), src, re.M)]
        for mm in cands:
            end = match_brace(src, mm.end() - 1)
            block = src[mm.end():end]
            if re.search(r"\bfn\s+%s\b" % re.escape(name), block):
                start = mm.end()
                src_end = end
                break
        else:
            raise TransError("fn %s not found in impl %s" % (name, impl))
        region = src[:src_end]
    else:
        region = src
    m = re.compile(r"\bfn\s+%s\b" % re.escape(name)).search(region, start)
    if not m:
        raise TransError("fn %s not found" % name)
    # signature up to the opening brace of the body (skip where-clauses)
    i = m.end()
    depth = 0
    while True:
        c = region[i]
        if c in '(<[':
            depth += 1
        elif c in ')>]':
            if not (c == '>' and region[i - 1] == '-'):
                depth -= 1
        elif c == '{' and depth == 0:
            break
        elif c == ';' and depth == 0:
            raise TransError("fn %s has no body" % name)
        i += 1
    end = match_brace(region, i)
    return region[m.start():i], region[i + 1:end]

def match_brace(src, i):
    assert src[i] == '{'
    depth = 0
    j = i
    in_str = False
    while j < len(src):
        c = src[j]
        if in_str:
            if c == '\\':
                j += 1
            elif c == '"':
                in_str = False
        elif c == '"':
            in_str = True
        elif c == '/' and src[j:j + 2] == '//':
            j = src.index('\n', j)
        elif c == '{':
            depth += 1
        elif c == '}':
            depth -= 1
            if depth == 0:
                return j
        j += 1
    raise TransError("unbalanced braces")

def find_const(src, name):
    m = re.search(r"\bconst\s+%s\s*:\s*(\w+)\s*=\s*([^;]+);" % re.escape(name), src)
    if not m:
        raise TransError("const %s not found" % name)
    return m.group(1), m.group(2).strip()

# ----------------------------------------------------------------------------- parser
class P:
    def __init__(self, toks):
        self.t = toks
        self.i = 0

    def peek(self, k=0):
        return self.t[self.i + k]

    def next(self):
        x = self.t[self.i]
        self.i += 1
        return x

    def at(self, v):
        return self.t[self.i][1] == v and self.t[self.i][0] in ('op', 'id')

    def eat(self, v):
        if not self.at(v):
            raise TransError("expected %r, found %r" % (v, self.t[self.i][1]))
        self.i += 1

    def opt(self, v):
        if self.at(v):
            self.i += 1
            return True
        return False

    # block := stmt* expr?     (after the opening brace, up to the closing one / eof)
    def block(self, closer):
        stmts = []
        while True:
            if self.at(closer) or self.peek()[0] == 'eof':
                return ('block', stmts, None)
            if self.at('let'):
                self.next()
                if self.opt('mut'):
                    raise TransError("`let mut` is outside the translated subset")
                pat = self.pattern()
                if self.opt(':'):
                    self.type_()
                self.eat('=')
                e = self.expr()
                self.eat(';')
                stmts.append(('let', pat, e))
                continue
            if self.at('return'):
                self.next()
                e = self.expr()
                self.opt(';')
                return ('block', stmts, e)
            if self.peek()[1] in ('assert!', 'debug_assert!'):
                self.next()
                self.eat('(')
                c = self.expr()
                while self.opt(','):
                    if self.peek()[0] == 'str':
                        self.next()
                    else:
                        self.expr()
                self.eat(')')
                self.eat(';')
                stmts.append(('assert', c))
                continue
            if self.peek()[1] in ('assert_eq!', 'debug_assert_eq!', 'assert_ne!', 'debug_assert_ne!'):
                op = '==' if self.next()[1].endswith('eq!') else '!='
                self.eat('(')
                a = self.expr()
                self.eat(',')
                b = self.expr()
                while self.opt(','):
                    if self.at(')'):
                        break
                    if self.peek()[0] == 'str':
                        self.next()
                    else:
                        self.expr()
                self.eat(')')
                self.eat(';')
                stmts.append(('assert', ('bin', op, a, b)))
                continue
            e = self.expr()
            if self.opt('='):                      # assignment statement  `place = value;`
                rhs = self.expr()
                self.eat(';')
                stmts.append(('assign', e, rhs))
                continue
            if self.opt(';'):
                stmts.append(('expr', e))
                continue
            if e[0] == 'if' and not (self.at(closer) or self.peek()[0] == 'eof'):
                stmts.append(('expr', e))
                continue
            return ('block', stmts, e)

    def pattern(self):
        if self.opt('['):
            names = []
            while not self.at(']'):
                names.append(self.next()[1])
                self.opt(',')
            self.eat(']')
            return ('arr', names)
        if self.opt('('):
            names = []
            while not self.at(')'):
                names.append(self.next()[1])
                self.opt(',')
            self.eat(')')
            return ('tup', names)
        k, v = self.next()
        if k != 'id':
            raise TransError("unsupported pattern %r" % v)
        path = [v]
        while self.at('::'):
            self.next()
            kk, seg = self.next()
            if kk != 'id':
                raise TransError("unsupported pattern path segment %r" % seg)
            path.append(seg)
        if self.at('{'):
            # struct pattern  `Path { f, g: name }`  (irrefutable; every field must be named, `..` is outside the subset)
            self.next()
            fields = []
            while not self.at('}'):
                if self.at('..'):
                    raise TransError("`..` in a struct pattern is outside the translated subset")
                kk, fname = self.next()
                if kk != 'id' or fname in ('ref', 'mut'):
                    raise TransError("unsupported struct pattern field %r" % fname)
                if self.opt(':'):
                    kk, bname = self.next()
                    if kk != 'id' or bname in ('ref', 'mut'):
                        raise TransError("unsupported sub-pattern %r in a struct pattern" % bname)
                else:
                    bname = fname
                fields.append((fname, bname))
                if not self.opt(','):
                    break
            self.eat('}')
            return ('spat', path, fields)
        if len(path) != 1 or self.at('('):
            raise TransError("unsupported pattern %s" % '::'.join(path))
        return ('var', v)

    def match_pattern(self):
        """Patterns of `match` arms: `true`, `false`, `Ok(p)`, `Err(p)` with p one of `()`, `_`, an identifier."""
        k, v = self.next()
        if k == 'id' and v in ('true', 'false'):
            return ('bool', v == 'true')
        if k == 'id' and v in ('Ok', 'Err'):
            self.eat('(')
            if self.opt('('):
                self.eat(')')
                sub = ('unit',)
            else:
                kk, n = self.next()
                if kk != 'id' or not re.match(r"^[a-z_][a-z0-9_]*$", n) or n in ('ref', 'mut'):
                    raise TransError("unsupported sub-pattern %r in a `match` arm" % n)
                sub = ('wild',) if n == '_' else ('var', n)
            self.eat(')')
            return ('ctor', v, sub)
        raise TransError("`match` pattern %r is outside the translated subset" % v)

    def type_(self):
        depth = 0
        while True:
            k, v = self.peek()
            if v in ('<', '(', '['):
                depth += 1
            elif v in ('>', ')', ']'):
                if depth == 0:
                    return
                depth -= 1
            elif v in ('=', ',', ';', '{') and depth == 0:
                return
            elif k == 'eof':
                return
            self.next()

    BIN = [['||'], ['&&'], ['==', '!=', '<', '>', '<=', '>='], ['|'], ['^'], ['&'], ['<<', '>>'],
           ['+', '-'], ['*', '/', '%']]

    def expr(self, lvl=0, nostruct=False):
        if lvl == len(self.BIN):
            return self.unary(nostruct)
        lhs = self.expr(lvl + 1, nostruct)
        while self.peek()[0] == 'op' and self.peek()[1] in self.BIN[lvl]:
            op = self.next()[1]
            if self.at('=') and op not in ('==', '!=', '<', '>', '<=', '>=', '&&', '||'):
                raise TransError("compound assignment `%s=` is outside the translated subset" % op)
            rhs = self.expr(lvl + 1, nostruct)
            lhs = ('bin', op, lhs, rhs)
        return lhs

    def unary(self, nostruct):
        if self.opt('!'):
            return ('not', self.unary(nostruct))
        if self.opt('-'):
            return ('neg', self.unary(nostruct))
        if self.opt('&'):
            if self.opt('mut'):
                return ('refmut', self.unary(nostruct))      # kept: only `let x = &mut dcel.<vec>[i];` is translated (stage 2)
            return self.unary(nostruct)
        if self.opt('*'):
            return ('deref', self.unary(nostruct))
        return self.postfix(self.primary(nostruct), nostruct)

    def args(self):
        a = []
        while not self.at(')'):
            a.append(self.expr())
            if not self.opt(','):
                break
        self.eat(')')
        return a

    def postfix(self, e, nostruct):
        while True:
            if self.opt('.'):
                k, name = self.next()
                if k == 'int':
                    e = ('field', e, name)
                    continue
                if k != 'id':
                    raise TransError("bad member %r" % name)
                if self.at('::'):
                    self.next()
                    self.eat('<')
                    self.type_()
                    self.eat('>')
                if self.opt('('):
                    e = ('mcall', e, name, self.args())
                else:
                    e = ('field', e, name)
            elif self.opt('?'):
                e = ('try', e)
            elif self.at('['):
                self.next()
                ix = self.expr()
                self.eat(']')
                e = ('index', e, ix)
            elif self.at('as'):
                self.next()
                self.type_()
            else:
                return e

    def primary(self, nostruct):
        k, v = self.next()
        if k == 'float':
            return ('float', v)
        if k == 'int':
            return ('int', re.sub(r"_?(usize|u32|u64|i32|i64)$", "", v))
        if k == 'str':
            return ('str', v)
        if v == '(':
            if self.opt(')'):
                return ('unit',)
            e = self.expr()
            if self.opt(','):
                items = [e]
                while not self.at(')'):
                    items.append(self.expr())
                    if not self.opt(','):
                        break
                self.eat(')')
                return ('tuple', items)
            self.eat(')')
            return e
        if v == '[':
            items = []
            while not self.at(']'):
                items.append(self.expr())
                if not self.opt(','):
                    break
            self.eat(']')
            return ('array', items)
        if v == 'if':
            c = self.expr(nostruct=True)
            self.eat('{')
            t = self.block('}')
            self.eat('}')
            if self.opt('else'):
                if self.at('if'):
                    f = self.primary(nostruct)
                    f = ('block', [], f)
                else:
                    self.eat('{')
                    f = self.block('}')
                    self.eat('}')
            else:
                f = None
            return ('if', c, t, f)
        if v == '{':
            b = self.block('}')
            self.eat('}')
            return b
        if v == 'match' and k == 'id':
            scrut = self.expr(nostruct=True)
            self.eat('{')
            arms = []
            while not self.at('}'):
                pat = self.match_pattern()
                if self.at('if'):
                    raise TransError("`match` guards are outside the translated subset")
                if self.at('|'):
                    raise TransError("or-patterns are outside the translated subset")
                self.eat('=>')
                body = self.expr()
                arms.append((pat, body))
                if not self.opt(',') and not self.at('}'):
                    if body[0] != 'block':
                        raise TransError("expected `,` after a `match` arm, found %r" % self.peek()[1])
            self.eat('}')
            return ('match', scrut, arms)
        if k == 'id' and v in ('for', 'while', 'loop', 'match', 'unsafe', 'move', 'break', 'continue', 'fn',
                               'struct', 'impl', 'use', 'const', 'static'):
            raise TransError("`%s` is outside the translated subset" % v)
        if k == 'id':
            path = [v]
            while self.at('::'):
                self.next()
                if self.opt('<'):
                    self.type_()
                    self.eat('>')
                    continue
                path.append(self.next()[1])
            if self.opt('('):
                return ('call', path, self.args())
            if self.at('{') and not nostruct and path[-1][0].isupper():
                self.next()
                fields = []
                base = None
                while not self.at('}'):
                    if self.opt('..'):             # functional update  `..base`  (must be last)
                        base = self.expr()
                        break
                    fname = self.next()[1]
                    if self.opt(':'):
                        fe = self.expr()
                    else:
                        fe = ('path', [fname])
                    fields.append((fname, fe))
                    if not self.opt(','):
                        break
                self.eat('}')
                if base is not None:
                    return ('structb', path, fields, base)
                return ('struct', path, fields)
            return ('path', path)
        raise TransError("unsupported token %r" % v)

def parse_body(text):
    p = P(tokenize(text))
    b = p.block('}')
    if p.peek()[0] != 'eof':
        raise TransError("trailing tokens after body: %r" % p.peek()[1])
    return b

# ----------------------------------------------------------------------------- emitter
def f64_bits(lit):
    lit = re.sub(r"_?f(32|64)$", "", lit)
    return struct.unpack('<Q', struct.pack('<d', float(lit)))[0]

class Emit:
    """dom: 'float' or 'nat' decides how arithmetic/comparison operators are rendered.
    voc: per-file vocabulary (method names, function names, paths, struct constructors)."""
    def __init__(self, dom, voc, ret=None, body_ids=()):
        self.dom = dom
        self.voc = voc
        self.ret = ret
        self.used = []                   # vocabulary (global Gallina) names emitted so far, in emission order
        self.body_ids = set(body_ids)    # identifiers of the Rust body (fresh temporaries avoid them)
        self.ntmp = 0

    def g(self, text):
        """Record the global names of an emitted vocabulary target (capture check in `blk`)."""
        self.used.extend(re.findall(r"[A-Za-z_][A-Za-z0-9_.']*", text))
        return text

    def fresh(self):
        while True:
            n = "tmp%d_" % self.ntmp
            self.ntmp += 1
            if n not in self.body_ids:
                return n

    def array_items(self, x):
        """The element expressions of an array-valued expression of the subset, else None.
           `[e1, .., en]`  and  `[e1, .., en].map(f)` with f a function of the call vocabulary:
           `array::map` applies f to element i and stores the result at position i; f is a pure function
           (everything in the vocabulary is), so `[e1, .., en].map(f)` is exactly `[f(e1), .., f(en)]`."""
        if x[0] == 'array':
            return list(x[1])
        if x[0] == 'mcall' and x[2] == 'map':
            items = self.array_items(x[1])
            if items is None:
                raise TransError(".map(..) on something other than an array literal")
            if len(x[3]) != 1 or x[3][0][0] != 'path':
                raise TransError(".map(..) takes one function of the vocabulary")
            fn = x[3][0][1]
            if '::'.join(fn) not in self.voc['calls']:
                raise TransError(".map(%s): function not in vocabulary" % '::'.join(fn))
            return [('call', fn, [it]) for it in items]
        return None

    def e(self, x):
        k = x[0]
        if k == 'mcall' and x[2] == 'map':
            return "[%s]" % '; '.join(self.e(a) for a in self.array_items(x))
        if k == 'refmut':
            raise TransError("`&mut` borrow in a pure function")
        if k == 'match':
            return self.match(x)
        if k == 'float':
            return "(%s %d)" % (self.g("f_of_bits"), f64_bits(x[1]))
        if k == 'int':
            return x[1] if self.dom == 'nat' else "(%s)%%Z" % x[1]
        if k == 'unit':
            return "tt"
        if k == 'deref':
            return self.e(x[1])
        if k == 'path':
            name = '::'.join(x[1])
            if name in self.voc['paths']:
                return self.g(self.voc['paths'][name])
            if len(x[1]) == 1 and re.match(r"^[a-z_][a-z0-9_]*$", name):
                return self.var(name)
            raise TransError("unknown path %s" % name)
        if k == 'not':
            return "(%s %s)" % (self.g("negb"), self.e(x[1]))
        if k == 'neg':
            if self.dom == 'float':
                return "(%s %s)" % (self.g("f_neg"), self.e(x[1]))
            raise TransError("unary minus in nat domain")
        if k == 'bin':
            op, a, b = x[1], self.e(x[2]), self.e(x[3])
            if op == '&&':
                return "(%s %s %s)" % (self.g("andb"), a, b)
            if op == '||':
                return "(%s %s %s)" % (self.g("orb"), a, b)
            tbl = self.voc['binops_' + self.dom]
            if op not in tbl:
                raise TransError("operator %s not in the %s vocabulary" % (op, self.dom))
            return "(%s %s %s)" % (self.g(tbl[op]), a, b)
        if k == 'field':
            key = '.' + x[2]
            if key not in self.voc['fields']:
                raise TransError("unknown field %s" % x[2])
            return "(%s %s)" % (self.g(self.voc['fields'][key]), self.e(x[1]))
        if k == 'mcall':
            name = x[2]
            if name not in self.voc['methods']:
                raise TransError("method .%s() not in vocabulary" % name)
            tgt = self.voc['methods'][name]
            if tgt is None:          # identity (into, clone, ...)
                if x[3]:
                    raise TransError(".%s with arguments" % name)
                return self.e(x[1])
            return "(%s)" % ' '.join([self.g(tgt), self.e(x[1])] + [self.e(a) for a in x[3]])
        if k == 'call':
            name = '::'.join(x[1])
            if name not in self.voc['calls']:
                raise TransError("call to %s not in vocabulary" % name)
            tgt = self.voc['calls'][name]
            if not x[2]:
                return self.g(tgt)
            return "(%s)" % ' '.join([self.g(tgt)] + [self.e(a) for a in x[2]])
        if k == 'struct':
            name = '::'.join(x[1])
            if not self.voc['structs'].get(name):
                raise TransError("struct literal %s not in vocabulary" % name)
            ctor, order = self.voc['structs'][name]
            d = dict(x[2])
            if len(d) != len(x[2]) or sorted(d) != sorted(order):
                raise TransError("struct %s: fields %s" % (name, sorted(f for f, _ in x[2])))
            return "(%s)" % ' '.join([self.g(ctor)] + [self.e(d[f]) for f in order])
        if k == 'if':
            if x[3] is None:
                raise TransError("`if` without else used as a value")
            return "(if %s then %s else %s)" % (self.e(x[1]), self.blk(x[2]), self.blk(x[3]))
        if k == 'block':
            return self.blk(x)
        if k == 'tuple':
            return "(%s)" % ', '.join(self.e(a) for a in x[1])
        if k == 'array':
            return "[%s]" % '; '.join(self.e(a) for a in x[1])
        if k == 'try':
            raise TransError("`?` outside statement position")
        raise TransError("unsupported expression kind %s" % k)

    def var(self, n):
        return {'type': 'type_', 'end': 'end_', 'in': 'in_', 'at': 'at_', 'from': 'from_', 'to': 'to_'}.get(n, n)

    def match(self, x):
        """`match s { arms }` over bool or Result, as an expression (s is evaluated once in both languages).
           * `match b { true => x, false => y }` (arms in either order) is exactly `if b { x } else { y }`.
           * `match r { Ok(p) => x, Err(q) => y }` (either order) is the Gallina match on `result`; p, q are `()` / `_`
             (no binding; `()` is the only value of the unit type, so the pattern is irrefutable) or an identifier
             (binds the payload in that arm only).  Both constructors must be covered exactly once."""
        scrut, arms = x[1], x[2]
        kinds = sorted(set(p[0] for p, _ in arms))
        if kinds == ['bool']:
            d = dict((p[1], body) for p, body in arms)
            if len(arms) != 2 or sorted(d) != [False, True]:
                raise TransError("`match` on a bool must have exactly the arms `true` and `false`")
            return "(if %s then %s else %s)" % (self.e(scrut), self.arm(d[True], []), self.arm(d[False], []))
        if kinds == ['ctor']:
            d = dict((p[1], (p[2], body)) for p, body in arms)
            if len(arms) != 2 or sorted(d) != ['Err', 'Ok']:
                raise TransError("`match` on a Result must have exactly the arms `Ok(..)` and `Err(..)`")
            parts = []
            for c in ('Err', 'Ok'):                                # same layout as the translation of `?`
                sub, body = d[c]
                if sub[0] == 'var':
                    parts.append("%s %s => %s" % (c, self.var(sub[1]), self.arm(body, [self.var(sub[1])])))
                else:
                    parts.append("%s _ => %s" % (c, self.arm(body, [])))
            return "(match %s with %s end)" % (self.e(scrut), ' | '.join(parts))
        raise TransError("`match` arms mix bool and Result patterns")

    def arm(self, body, bound):
        start = len(self.used)
        text = self.blk(body) if body[0] == 'block' else self.e(body)
        self.no_capture(bound, start)
        return text

    def no_capture(self, names, start):
        """A local binder must not capture a vocabulary name used in its scope (emitted since `start`)."""
        scope = set(self.used[start:])
        for n in names:
            if n != '_' and n in scope:
                raise TransError("local variable `%s` would capture the vocabulary name %s" % (n, n))

    def mentions(self, x, name):
        if isinstance(x, tuple):
            if len(x) == 2 and x[0] == 'path' and x[1] == [name]:
                return True
            return any(self.mentions(y, name) for y in x)
        if isinstance(x, list):
            return any(self.mentions(y, name) for y in x)
        return False

    def let_chain(self, binds, out):
        for n, t in reversed(binds):
            out = "(let %s := %s in %s)" % (n, t, out)
        return out

    def let_struct(self, pat, ex, out, start):
        """`let Path { f1, f2: n2 } = e;`  binds each named variable to the field of the value of e read at that point:
           `let f1 := (acc_f1 e) in let n2 := (acc_f2 e) in ..`.  e is evaluated once: it is used directly when it is a
           variable that none of the new names shadows, otherwise it is first bound to a fresh temporary."""
        name = '::'.join(pat[1])
        if not self.voc['structs'].get(name):
            raise TransError("struct pattern %s not in vocabulary" % name)
        _, order = self.voc['structs'][name]
        fields = pat[2]
        if len(set(f for f, _ in fields)) != len(fields) or sorted(f for f, _ in fields) != sorted(order):
            raise TransError("struct pattern %s: fields %s" % (name, sorted(f for f, _ in fields)))
        if ex[0] == 'try':
            raise TransError("`?` under a struct pattern")
        names = [self.var(n) for _, n in fields if n != '_']
        if len(set(names)) != len(names):
            raise TransError("struct pattern %s binds a name twice" % name)
        for n in names:
            if not re.match(r"^[a-z_][a-z0-9_]*$", n):
                raise TransError("struct pattern binds `%s`" % n)
        self.no_capture(names, start)
        src = ex[1] if ex[0] == 'deref' else ex
        simple = src[0] == 'path' and len(src[1]) == 1 and re.match(r"^[a-z_][a-z0-9_]*$", src[1][0]) \
            and self.var(src[1][0]) not in names and '::'.join(src[1]) not in self.voc['paths']
        base = self.var(src[1][0]) if simple else self.fresh()
        binds = []
        for f, n in fields:
            if n == '_':
                continue
            key = '.' + f
            if key not in self.voc['fields']:
                raise TransError("unknown field %s" % f)
            acc = self.voc['fields'][key]
            if acc in [b for b, _ in binds]:
                raise TransError("local variable `%s` would capture the vocabulary name %s" % (acc, acc))
            binds.append((self.var(n), "(%s %s)" % (self.g(acc), base)))
        out = self.let_chain(binds, out)
        if not simple:
            out = "(let %s := %s in %s)" % (base, self.e(ex), out)
        return out

    def let_array(self, pat, ex, out, start):
        """`let [n1, .., nk] = [e1, .., ek];`  (also with `.map(f)`, see array_items).  Rust evaluates e1 .. ek, then binds.
           All ei are pure, so when no ej (j > i) mentions ni this is exactly the sequence `let n1 := e1 in .. let nk := ek in`
           (the form the translator emits for consecutive `let`s); otherwise the values go through fresh temporaries."""
        items = self.array_items(ex)
        if items is None:
            raise TransError("array pattern against something other than an array literal")
        names = pat[1]
        if len(items) != len(names):
            raise TransError("array pattern of %d names against %d elements" % (len(names), len(items)))
        for n in names:
            if not re.match(r"^[a-z_][a-z0-9_]*$", n):
                raise TransError("array pattern element `%s`" % n)
        real = [self.var(n) for n in names if n != '_']
        if len(set(real)) != len(real):
            raise TransError("array pattern binds a name twice")
        self.no_capture(real, start)
        seq = all(not self.mentions(items[j], names[i])
                  for i in range(len(names)) for j in range(i + 1, len(names)) if names[i] != '_')
        if seq:
            binds = [(self.var(n), it) for n, it in zip(names, items) if n != '_']
            # the right-hand sides are emitted last-to-first, like `blk` does, so that the capture check of an
            # earlier binder sees the vocabulary names of the later right-hand sides (they are in its scope)
            for n, it in reversed(binds):
                self.no_capture([n], start)
                out = "(let %s := %s in %s)" % (n, self.e(it), out)
            return out
        tmps = [self.fresh() for _ in names]
        out = self.let_chain([(self.var(n), t) for n, t in zip(names, tmps) if n != '_'], out)
        for t, it in reversed(list(zip(tmps, items))):
            out = "(let %s := %s in %s)" % (t, self.e(it), out)
        return out

    def blk(self, b):
        assert b[0] == 'block'
        stmts, fin = b[1], b[2]
        if fin is None:
            raise TransError("block without value")
        start = len(self.used)           # everything emitted from here on lies in the scope of this block's binders
        out = self.e(fin)
        for st in reversed(stmts):
            if st[0] == 'let':
                pat, ex = st[1], st[2]
                if pat[0] == 'spat':
                    out = self.let_struct(pat, ex, out, start)
                elif pat[0] == 'arr':
                    out = self.let_array(pat, ex, out, start)
                elif ex[0] == 'try':
                    self.no_capture(self.pat_names(pat), start)
                    out = "(match %s with Err e_ => Err e_ | Ok %s => %s end)" % (self.e(ex[1]), self.pat(pat), out)
                else:
                    self.no_capture(self.pat_names(pat), start)
                    out = "(let %s := %s in %s)" % (self.pat(pat), self.e(ex), out)
            elif st[0] == 'expr':
                ex = st[1]
                if ex[0] == 'try':
                    out = "(match %s with Err e_ => Err e_ | Ok _ => %s end)" % (self.e(ex[1]), out)
                elif ex[0] == 'if' and ex[3] is None:
                    # early return: if c { return v; }  rest
                    tb = ex[2]
                    out = "(if %s then %s else %s)" % (self.e(ex[1]), self.blk(tb), out)
                else:
                    raise TransError("expression statement without effect in the subset")
            elif st[0] == 'assert':
                out = "(if %s then %s else %s)" % (self.e(st[1]), out, self.g(self.voc['panic']))
            else:
                raise TransError("statement kind `%s` is outside the pure subset" % st[0])
        return out

    def pat_names(self, p):
        if p[0] == 'var':
            return [self.var(p[1])]
        if p[0] == 'tup':
            return [self.var(n) for n in p[1]]
        return []

    def pat(self, p):
        if p[0] == 'var':
            return self.var(p[1])
        if p[0] == 'tup':
            return "'(%s)" % ', '.join(self.var(n) for n in p[1])
        if p[0] == 'arr':
            raise TransError("array pattern")
        raise TransError("pattern")

# ----------------------------------------------------------------------------- stage 2: DCEL primitives
# The loop-free primitives of dcel_operations.rs are translated in state-passing style against the API
# of Dcel/Raw.v: the Rust `dcel: &mut Dcel` is the Gallina variable `dcel`; every mutating statement
# rebinds it (`let dcel := set_next dcel h e in`), every read uses the current binding, statements are
# emitted strictly in source order.  Values are typed while translating (a small re-check of what
# rustc already checked; it makes method/field resolution unambiguous and errors precise):
#   'vh' 'eh' 'uh' 'fh'   vertex / directed edge / undirected edge / face handle, fixed or dynamic
#                         (all rendered as `nat`; a dynamic handle is its index, its navigation
#                          methods read the current `dcel` -- sound because the borrow checker
#                          forbids a mutation while a dynamic handle or an entry reference is alive)
#   'nat' usize   'bool'   'unit'   'vdata' (the vertex payload V)   'default' (X::default())
#   'hrec' HalfEdgeEntry   'edge' EdgeEntry = hrec * hrec   'face' FaceEntry = option nat
#   'vent' VertexEntry = vdata * option nat      ('opt', T)      ('tup', (T1, .., Tn))  (arrays [T; 2] too)
# Anything not listed in the tables below is a TransError.
D_HANDLES = ('vh', 'eh', 'uh', 'fh')
D_RUST_TYPES = {'FixedVertexHandle': 'vh', 'FixedDirectedEdgeHandle': 'eh', 'FixedUndirectedEdgeHandle': 'uh',
                'FixedFaceHandle': 'fh', 'V': 'vdata', 'Dcel': 'dcel', 'usize': 'nat', 'bool': 'bool'}
D_PATHS = {'OUTER_FACE_HANDLE': ('0', 'fh'), 'None': ('None', ('opt', None))}
D_DYN = {'directed_edge': 'eh', 'vertex': 'vh'}                 # dcel.directed_edge(h): dynamic handle = index
D_COUNTS = ('num_vertices', 'num_undirected_edges', 'num_directed_edges', 'num_faces')
D_VECS = {'vertices': 'num_vertices', 'edges': 'num_undirected_edges', 'faces': 'num_faces'}
H_FIELDS = {'next': ('h_next', 'eh', 'set_next'), 'prev': ('h_prev', 'eh', 'set_prev'),
            'face': ('h_face', 'fh', 'set_face'), 'origin': ('h_org', 'vh', 'set_origin')}
H_ORDER = ['next', 'prev', 'face', 'origin']                    # argument order of `mkh`
D_METHODS = {                                                   # (receiver type, method) -> (format | None = identity, type)
    ('eh', 'next'): ('(e_next dcel %s)', 'eh'), ('eh', 'prev'): ('(e_prev dcel %s)', 'eh'),
    ('eh', 'rev'): ('(e_rev %s)', 'eh'), ('eh', 'from'): ('(e_origin dcel %s)', 'vh'),
    ('eh', 'to'): ('(e_to dcel %s)', 'vh'), ('eh', 'face'): ('(e_face dcel %s)', 'fh'),
    ('eh', 'as_undirected'): ('(as_undirected %s)', 'uh'),
    ('uh', 'as_directed'): ('(normalized %s)', 'eh'), ('uh', 'normalized'): ('(normalized %s)', 'eh'),
    ('uh', 'not_normalized'): ('(not_normalized %s)', 'eh'),
    ('vh', 'out_edge'): ('(v_out_edge dcel %s)', ('opt', 'eh')),
}
for _h in D_HANDLES:
    D_METHODS[(_h, 'fix')] = (None, _h)
    D_METHODS[(_h, 'adjust_inner_outer')] = (None, _h)
    D_METHODS[(_h, 'index')] = (None, 'nat')
D_CALLS = {                                                     # path -> (argument types, format | None, type)
    'FixedDirectedEdgeHandle::new_normalized': (['nat'], '(normalized %s)', 'eh'),
    'FixedUndirectedEdgeHandle::new': (['nat'], None, 'uh'),
    'FixedFaceHandle::new': (['nat'], None, 'fh'),
    'FixedVertexHandle::new': (['nat'], None, 'vh'),
    'DE::default': ([], 'tt', 'default'), 'UE::default': ([], 'tt', 'default'),
    'F::default': ([], 'tt', 'default'), 'Default::default': ([], 'tt', 'default'),
}
D_VEC_FIELDS = {('vertices', 'out_edge'): ('v_out_edge', 'set_out_edge'),        # (vec, field) -> (read, write) of Raw.v
                ('faces', 'adjacent_edge'): ('f_adjacent', 'set_adjacent_edge')}
D_NAT_CMP = {'<': 'Nat.ltb %s %s', '<=': 'Nat.leb %s %s', '>': 'Nat.ltb %(b)s %(a)s', '>=': 'Nat.leb %(b)s %(a)s'}
D_RESERVED = set("""dcel dcel0 prim_panic half_edge e_next e_prev e_face e_origin e_rev e_to normalized not_normalized
  as_undirected v_out_edge f_adjacent set_half_edge set_next set_prev set_face set_origin set_out_edge
  set_adjacent_edge push_edge push_face push_vertex num_vertices num_undirected_edges num_directed_edges
  num_faces mkh h_next h_prev h_face h_org mkvd fst snd negb andb orb Some None tt nat bool unit vdata Nat Raw
  if then else let in match with end fun forall exists fix cofix as at return where using Type Prop Set
  struct for IF mod to from type""".split())

def d_is_dcel(x):
    return x == ('path', ['dcel'])

def d_vec_of(x):
    """`dcel.vertices` / `dcel.edges` / `dcel.faces` -> the field name, else None."""
    if x[0] == 'field' and d_is_dcel(x[1]) and x[2] in D_VECS:
        return x[2]
    return None

def d_hem(x):
    """`dcel.half_edge_mut(h)` -> the AST of h, else None."""
    if x[0] == 'mcall' and d_is_dcel(x[1]) and x[2] == 'half_edge_mut' and len(x[3]) == 1:
        return x[3][0]
    return None

def d_mutates(x):
    """Does the AST contain an assignment or a `.push(..)`?"""
    if isinstance(x, tuple):
        if x and x[0] == 'assign':
            return True
        if x and x[0] == 'mcall' and x[2] == 'push':
            return True
        return any(d_mutates(y) for y in x)
    if isinstance(x, list):
        return any(d_mutates(y) for y in x)
    return False

def d_tystr(t):
    if isinstance(t, tuple):
        if t[0] == 'opt':
            return "Option<%s>" % d_tystr(t[1])
        return "(%s)" % ', '.join(d_tystr(u) for u in t[1])
    return str(t)

def d_unify(a, b, what):
    """Types must agree (Option<?> from `None` agrees with every Option)."""
    if a == b:
        return a
    if isinstance(a, tuple) and isinstance(b, tuple) and a[0] == b[0]:
        if a[0] == 'opt':
            if a[1] is None:
                return b
            if b[1] is None:
                return a
            return ('opt', d_unify(a[1], b[1], what))
        if len(a[1]) == len(b[1]):
            return ('tup', tuple(d_unify(u, v, what) for u, v in zip(a[1], b[1])))
    raise TransError("%s: type %s where %s is expected" % (what, d_tystr(a), d_tystr(b)))

def d_coq_ty(t):
    if t in D_HANDLES or t == 'nat':
        return 'nat'
    if t in ('bool', 'unit', 'vdata'):
        return t
    if isinstance(t, tuple) and t[0] == 'tup':
        return "(%s)" % ' * '.join(d_coq_ty(u) for u in t[1])
    raise TransError("type %s cannot appear in a primitive's signature" % d_tystr(t))

def d_coq_default(t):
    if t in D_HANDLES or t == 'nat':
        return '0'
    if t == 'bool':
        return 'false'
    if t == 'unit':
        return 'tt'
    if isinstance(t, tuple) and t[0] == 'tup':
        return "(%s)" % ', '.join(d_coq_default(u) for u in t[1])
    raise TransError("no default result for type %s" % d_tystr(t))

def d_skip_generics(p):
    depth = 1
    while depth:
        k, v = p.next()
        if k == 'eof':
            raise TransError("unbalanced generics")
        if v == '<':
            depth += 1
        elif v == '>':
            depth -= 1
        elif v == '>>':
            depth -= 2

def d_rust_type(p):
    if p.opt('&'):
        p.opt('mut')
        return ('ref', d_rust_type(p))
    if p.opt('('):
        items = []
        while not p.at(')'):
            items.append(d_rust_type(p))
            if not p.opt(','):
                break
        p.eat(')')
        return ('tup', tuple(items)) if items else 'unit'
    if p.opt('['):
        t = d_rust_type(p)
        p.eat(';')
        k, n = p.next()
        p.eat(']')
        if k != 'int' or n != '2':
            raise TransError("array type of length %s (only [T; 2] is in the subset)" % n)
        return ('tup', (t, t))
    k, v = p.next()
    if k != 'id' or v not in D_RUST_TYPES:
        raise TransError("type %s is outside the DCEL vocabulary" % v)
    if p.opt('<'):
        d_skip_generics(p)
    return D_RUST_TYPES[v]

def parse_dcel_sig(sig):
    """`fn name<..>(dcel: &mut Dcel<..>, a: T, ..) -> R [where ..]`  ->  ([(a, type)], R)."""
    p = P(tokenize(sig))
    p.eat('fn')
    p.next()
    if p.opt('<'):
        d_skip_generics(p)
    p.eat('(')
    params = []
    while not p.at(')'):
        k, name = p.next()
        if k != 'id' or name == 'mut':
            raise TransError("parameter pattern %r" % name)
        p.eat(':')
        params.append((name, d_rust_type(p)))
        if not p.opt(','):
            break
    p.eat(')')
    ret = d_rust_type(p) if p.opt('->') else 'unit'
    if not (p.peek()[0] == 'eof' or p.at('where')):
        raise TransError("unexpected %r after the signature" % p.peek()[1])
    if not params or params[0] != ('dcel', ('ref', 'dcel')):
        raise TransError("first parameter must be `dcel: &mut Dcel<..>`")
    for name, ty in params[1:]:
        if not (ty in D_HANDLES or ty == 'vdata'):
            raise TransError("parameter %s: type %s" % (name, d_tystr(ty)))
    return params[1:], ret

class DcelEmit:
    def __init__(self, ret):
        self.ret = ret
        self.used_panic = False

    # ---- names
    def bind(self, name, ty, env):
        if name == '_':
            return '_'
        if name == 'dcel' or not re.match(r"^[a-z_][a-z0-9_]*$", name):
            raise TransError("cannot bind the name `%s`" % name)
        coq = name + '_' if name in D_RESERVED else name
        for other, (c, _) in env.items():
            if c == coq and other != name:
                raise TransError("variable names %s / %s collide after renaming" % (name, other))
        env[name] = (coq, ty)
        return coq

    def bindpat(self, pat, ty, env):
        if pat[0] == 'var':
            return self.bind(pat[1], ty, env)
        if pat[0] not in ('tup', 'arr'):
            raise TransError("pattern kind `%s` is outside the DCEL subset" % pat[0])
        names = pat[1]                                # 'tup' and 'arr' patterns: both are pairs
        if not (isinstance(ty, tuple) and ty[0] == 'tup' and len(ty[1]) == len(names)):
            raise TransError("pattern (%s) against a value of type %s" % (', '.join(names), d_tystr(ty)))
        return "(%s)" % ', '.join(self.bind(n, t, env) for n, t in zip(names, ty[1]))

    def panic(self):
        self.used_panic = True
        return "(prim_panic dcel0 %s)" % d_coq_default(self.ret)

    # ---- expressions: (Gallina text, type); they only read the current `dcel`
    def typed(self, x, env, want, what):
        t, ty = self.ex(x, env)
        d_unify(ty, want, what)
        return t

    def hrec_lit(self, x, env):
        fields = x[2]
        base = self.typed(x[3], env, 'hrec', "struct base") if x[0] == 'structb' else None
        d = {}
        for f, fe in fields:
            if f not in H_FIELDS or f in d:
                raise TransError("HalfEdgeEntry: field %s" % f)
            d[f] = self.typed(fe, env, H_FIELDS[f][1], "HalfEdgeEntry.%s" % f)
        out = []
        for f in H_ORDER:
            if f in d:
                out.append(d[f])
            elif base is not None:
                out.append("(%s %s)" % (H_FIELDS[f][0], base))
            else:
                raise TransError("HalfEdgeEntry: field %s missing" % f)
        return "(mkh %s)" % ' '.join(out)

    def fields_exactly(self, x, names):
        if x[0] != 'struct':
            raise TransError("`..base` in %s" % x[1][-1])
        d = dict(x[2])
        if len(d) != len(x[2]) or sorted(d) != sorted(names):
            raise TransError("%s: fields %s" % (x[1][-1], sorted(f for f, _ in x[2])))
        return d

    def edge_lit(self, x, env):
        """EdgeEntry::new(a, b)  /  EdgeEntry { entries: [a, b], <default data> }  ->  (a, b), else None."""
        if x[0] == 'call' and x[1] == ['EdgeEntry', 'new']:
            if len(x[2]) != 2:
                raise TransError("EdgeEntry::new with %d arguments" % len(x[2]))
            return tuple(self.typed(a, env, 'hrec', "EdgeEntry::new") for a in x[2])
        if x[0] in ('struct', 'structb') and x[1] == ['EdgeEntry']:
            d = self.fields_exactly(x, ['entries', 'directed_data', 'undirected_data'])
            # the per-edge data must be the defaults: Raw.push_edge appends the flag `false`
            dd = d['directed_data']
            if dd[0] == 'array' and len(dd[1]) == 2:
                for y in dd[1]:
                    self.typed(y, env, 'default', "EdgeEntry.directed_data")
            else:
                self.typed(dd, env, 'default', "EdgeEntry.directed_data")
            self.typed(d['undirected_data'], env, 'default', "EdgeEntry.undirected_data")
            en = d['entries']
            if en[0] != 'array' or len(en[1]) != 2:
                raise TransError("EdgeEntry.entries must be a two-element array literal")
            return tuple(self.typed(a, env, 'hrec', "EdgeEntry.entries") for a in en[1])
        return None

    def vent_lit(self, x, env):
        if x[0] in ('struct', 'structb') and x[1] == ['VertexEntry']:
            d = self.fields_exactly(x, ['data', 'out_edge'])
            return (self.typed(d['data'], env, 'vdata', "VertexEntry.data"),
                    self.typed(d['out_edge'], env, ('opt', 'eh'), "VertexEntry.out_edge"))
        return None

    def edge_parts(self, x, env):
        lit = self.edge_lit(x, env)
        if lit is not None:
            return lit
        t = self.typed(x, env, 'edge', "dcel.edges.push")
        return "(fst %s)" % t, "(snd %s)" % t

    def vent_parts(self, x, env):
        lit = self.vent_lit(x, env)
        if lit is not None:
            return lit
        t = self.typed(x, env, 'vent', "dcel.vertices.push")
        return "(fst %s)" % t, "(snd %s)" % t

    def ex(self, x, env):
        k = x[0]
        if k == 'int':
            return x[1], 'nat'
        if k == 'unit':
            return 'tt', 'unit'
        if k == 'deref':
            return self.ex(x[1], env)
        if k == 'path':
            name = '::'.join(x[1])
            if name == 'dcel':
                raise TransError("`dcel` used as a value")
            if name in env:
                if isinstance(env[name][1], tuple) and env[name][1][0] == 'hmut':      # reading through `let x = dcel.half_edge_mut(h)`
                    return "(half_edge dcel %s)" % env[name][1][1], 'hrec'
                if isinstance(env[name][1], tuple) and env[name][1][0] == 'vecmut':
                    raise TransError("the entry reference `%s` is used as a value (only its translated field is in the vocabulary)" % name)
                return env[name]
            if name in D_PATHS:
                return D_PATHS[name]
            raise TransError("unknown path %s" % name)
        if k == 'not':
            return "(negb %s)" % self.typed(x[1], env, 'bool', "operand of !"), 'bool'
        if k == 'bin':
            op = x[1]
            a, aty = self.ex(x[2], env)
            b, bty = self.ex(x[3], env)
            if op in ('&&', '||'):
                d_unify(aty, 'bool', op)
                d_unify(bty, 'bool', op)
                return "(%s %s %s)" % ('andb' if op == '&&' else 'orb', a, b), 'bool'
            if op in ('==', '!='):
                d_unify(aty, bty, op)
                if not (aty in D_HANDLES or aty == 'nat'):
                    raise TransError("%s on values of type %s" % (op, d_tystr(aty)))
                t = "(Nat.eqb %s %s)" % (a, b)
                return (t if op == '==' else "(negb %s)" % t), 'bool'
            if op == '+':                               # usize addition (no overflow at these sizes)
                d_unify(aty, 'nat', op)
                d_unify(bty, 'nat', op)
                return "(%s + %s)" % (a, b), 'nat'
            if op in ('<', '<=', '>', '>='):
                d_unify(aty, 'nat', op)
                d_unify(bty, 'nat', op)
                if op in ('>', '>='):
                    a, b = b, a
                return "(%s %s %s)" % ('Nat.ltb' if op in ('<', '>') else 'Nat.leb', a, b), 'bool'
            raise TransError("operator %s is not in the DCEL vocabulary" % op)
        if k == 'field':
            recv, name = x[1], x[2]
            if recv[0] == 'index':
                vec = d_vec_of(recv[1])
                if vec is None:
                    raise TransError("indexing something other than dcel.vertices / dcel.faces")
                i = self.typed(recv[2], env, 'nat', "index")
                if (vec, name) == ('faces', 'adjacent_edge'):
                    return "(f_adjacent dcel %s)" % i, ('opt', 'eh')
                if (vec, name) == ('vertices', 'out_edge'):
                    return "(v_out_edge dcel %s)" % i, ('opt', 'eh')
                raise TransError("dcel.%s[..].%s is not in the vocabulary" % (vec, name))
            al = self.vec_alias(recv, env)
            if al is not None:                               # x.f  with  x = &mut dcel.<vec>[i]:  reads dcel.<vec>[i].f
                vec, iv = al
                if (vec, name) not in D_VEC_FIELDS:
                    raise TransError("dcel.%s[..].%s is not in the vocabulary" % (vec, name))
                return "(%s dcel %s)" % (D_VEC_FIELDS[(vec, name)][0], iv), ('opt', 'eh')
            t, ty = self.ex(recv, env)
            if ty == 'hrec' and name in H_FIELDS:
                return "(%s %s)" % (H_FIELDS[name][0], t), H_FIELDS[name][1]
            raise TransError("field .%s of a value of type %s" % (name, d_tystr(ty)))
        if k == 'mcall':
            recv, name, args = x[1], x[2], x[3]
            if d_is_dcel(recv):
                if name in ('half_edge', 'half_edge_mut') and len(args) == 1:
                    return "(half_edge dcel %s)" % self.typed(args[0], env, 'eh', "dcel.%s" % name), 'hrec'
                if name in D_DYN and len(args) == 1:
                    return self.typed(args[0], env, D_DYN[name], "dcel.%s" % name), D_DYN[name]
                if name in D_COUNTS and not args:
                    return "(%s dcel)" % name, 'nat'
                raise TransError("dcel.%s(%d args) is not in the vocabulary" % (name, len(args)))
            vec = d_vec_of(recv)
            if vec is not None:
                if name == 'len' and not args:
                    return "(%s dcel)" % D_VECS[vec], 'nat'
                if name == 'is_empty' and not args:
                    return "(Nat.eqb (%s dcel) 0)" % D_VECS[vec], 'bool'
                if name == 'push':
                    raise TransError("dcel.%s.push(..) in expression position" % vec)
                raise TransError("dcel.%s.%s() is not in the vocabulary" % (vec, name))
            if name == 'expect':
                raise TransError("`.expect(..)` is only translated as the whole right-hand side of a `let`")
            t, ty = self.ex(recv, env)
            key = (ty if not isinstance(ty, tuple) else None, name)
            if key not in D_METHODS or args:
                raise TransError("method .%s(%d args) on a value of type %s is not in the vocabulary"
                                 % (name, len(args), d_tystr(ty)))
            fmt, rty = D_METHODS[key]
            return (t if fmt is None else fmt % t), rty
        if k == 'call':
            name = '::'.join(x[1])
            if name == 'Some' and len(x[2]) == 1:
                t, ty = self.ex(x[2][0], env)
                return "(Some %s)" % t, ('opt', ty)
            if name == 'EdgeEntry::new':
                return "(%s, %s)" % self.edge_lit(x, env), 'edge'
            if name in D_CALLS:
                tys, fmt, rty = D_CALLS[name]
                if len(tys) != len(x[2]):
                    raise TransError("%s with %d arguments" % (name, len(x[2])))
                ts = tuple(self.typed(a, env, ty, name) for a, ty in zip(x[2], tys))
                return (ts[0] if fmt is None else fmt % ts), rty
            raise TransError("call to %s is not in the DCEL vocabulary" % name)
        if k in ('struct', 'structb'):
            name = '::'.join(x[1])
            if name == 'HalfEdgeEntry':
                return self.hrec_lit(x, env), 'hrec'
            if name == 'EdgeEntry':
                return "(%s, %s)" % self.edge_lit(x, env), 'edge'
            if name == 'VertexEntry':
                return "(%s, %s)" % self.vent_lit(x, env), 'vent'
            if name == 'FaceEntry':
                d = self.fields_exactly(x, ['adjacent_edge', 'data'])
                self.typed(d['data'], env, 'default', "FaceEntry.data")
                return self.typed(d['adjacent_edge'], env, ('opt', 'eh'), "FaceEntry.adjacent_edge"), 'face'
            raise TransError("struct literal %s is not in the DCEL vocabulary" % name)
        if k in ('tuple', 'array'):
            if k == 'array' and len(x[1]) != 2:
                raise TransError("array literal of length %d (only pairs)" % len(x[1]))
            parts = [self.ex(a, env) for a in x[1]]
            return "(%s)" % ', '.join(p[0] for p in parts), ('tup', tuple(p[1] for p in parts))
        if k == 'refmut':
            raise TransError("`&mut` borrow other than `let x = &mut dcel.vertices[i]` / `let x = &mut dcel.faces[i]`")
        if k == 'if':
            if x[3] is None:
                raise TransError("`if` without else used as a value")
            c = self.typed(x[1], env, 'bool', "if condition")
            a, aty = self.block(x[2], env, 'pure', 0)
            b, bty = self.block(x[3], env, 'pure', 0)
            return "(if %s then %s else %s)" % (c, a, b), d_unify(aty, bty, "if branches")
        if k == 'block':
            return self.block(x, env, 'pure', 0)
        raise TransError("expression kind `%s` is outside the DCEL subset" % k)

    def vec_alias(self, x, env):
        """x is a variable bound by `let x = &mut dcel.<vec>[i];`  ->  (vec, Gallina name of the index), else None."""
        if x[0] == 'path' and len(x[1]) == 1 and x[1][0] in env:
            ty = env[x[1][0]][1]
            if isinstance(ty, tuple) and ty[0] == 'vecmut':
                return ty[1], ty[2]
        return None

    # ---- statements
    def assign(self, st, env):
        lhs, rhs = st[1], st[2]
        r, rty = self.ex(rhs, env)
        if lhs[0] == 'deref' and d_hem(lhs[1]) is not None:                # *dcel.half_edge_mut(h) = entry;
            h = self.typed(d_hem(lhs[1]), env, 'eh', "half_edge_mut")
            d_unify(rty, 'hrec', "assignment to *half_edge_mut")
            return "set_half_edge dcel %s %s" % (h, r)
        if lhs[0] == 'field' and d_hem(lhs[1]) is not None and lhs[2] in H_FIELDS:   # dcel.half_edge_mut(h).f = v;
            h = self.typed(d_hem(lhs[1]), env, 'eh', "half_edge_mut")
            d_unify(rty, H_FIELDS[lhs[2]][1], "assignment to .%s" % lhs[2])
            return "%s dcel %s %s" % (H_FIELDS[lhs[2]][2], h, r)
        def alias(x):
            if x[0] == 'path' and len(x[1]) == 1 and x[1][0] in env and isinstance(env[x[1][0]][1], tuple) and env[x[1][0]][1][0] == 'hmut':
                return env[x[1][0]][1][1]
            return None
        if lhs[0] == 'deref' and alias(lhs[1]) is not None:                 # *x = entry;   (x = dcel.half_edge_mut(h))
            d_unify(rty, 'hrec', "assignment to *half_edge_mut")
            return "set_half_edge dcel %s %s" % (alias(lhs[1]), r)
        if lhs[0] == 'field' and alias(lhs[1]) is not None and lhs[2] in H_FIELDS:   # x.f = v;
            d_unify(rty, H_FIELDS[lhs[2]][1], "assignment to .%s" % lhs[2])
            return "%s dcel %s %s" % (H_FIELDS[lhs[2]][2], alias(lhs[1]), r)
        if lhs[0] == 'field' and self.vec_alias(lhs[1], env) is not None:      # x.f = o;   (x = &mut dcel.<vec>[i])
            vec, iv = self.vec_alias(lhs[1], env)
            if (vec, lhs[2]) not in D_VEC_FIELDS:
                raise TransError("dcel.%s[..].%s is not in the vocabulary" % (vec, lhs[2]))
            d_unify(rty, ('opt', 'eh'), "assignment to .%s" % lhs[2])
            return "%s dcel %s %s" % (D_VEC_FIELDS[(vec, lhs[2])][1], iv, r)
        if lhs[0] == 'field' and lhs[1][0] == 'index' and d_vec_of(lhs[1][1]) is not None:
            vec, f = d_vec_of(lhs[1][1]), lhs[2]
            i = self.typed(lhs[1][2], env, 'nat', "index")
            if (vec, f) == ('vertices', 'out_edge'):                           # dcel.vertices[i].out_edge = o;
                d_unify(rty, ('opt', 'eh'), "assignment to .out_edge")
                return "set_out_edge dcel %s %s" % (i, r)
            if (vec, f) == ('faces', 'adjacent_edge'):                         # dcel.faces[i].adjacent_edge = o;
                d_unify(rty, ('opt', 'eh'), "assignment to .adjacent_edge")
                return "set_adjacent_edge dcel %s %s" % (i, r)
        raise TransError("assignment target is not in the DCEL vocabulary (%s)" % lhs[0])

    def push(self, e, env):
        vec = d_vec_of(e[1])
        if len(e[3]) != 1:
            raise TransError("push with %d arguments" % len(e[3]))
        a = e[3][0]
        if vec == 'edges':
            return "push_edge dcel %s %s" % self.edge_parts(a, env)
        if vec == 'faces':
            return "push_face dcel %s" % self.typed(a, env, 'face', "dcel.faces.push")
        return "push_vertex dcel %s %s" % self.vent_parts(a, env)

    def block(self, b, env, mode, ind):
        """mode 'top'  : function body, value `(dcel, result)`; asserts / expect / early return allowed
                'state': nested block that mutates, value `(dcel, v)`
                'dcel' : nested unit block that mutates, value `dcel`
                'pure' : nested block without mutation, value `v`.
           Returns (text, type of v)."""
        stmts, fin = list(b[1]), b[2]
        if fin is not None and fin[0] == 'if' and fin[3] is None:      # trailing `if c { .. }` is a statement
            stmts.append(('expr', fin))
            fin = None
        env = dict(env)
        pad = ' ' * ind
        lines, closers = [], []

        def no_pure(what):
            if mode == 'pure':
                raise TransError("%s inside a block translated as a pure value" % what)

        def top_only(what):
            if mode != 'top':
                raise TransError("%s inside a nested block" % what)

        for st in stmts:
            kind = st[0]
            if kind == 'let':
                pat, e = st[1], st[2]
                if e[0] == 'mcall' and e[2] == 'expect':                 # let x = <option>.expect("..");
                    top_only("`.expect(..)`")
                    if len(e[3]) != 1 or e[3][0][0] != 'str':
                        raise TransError("`.expect` takes one string literal")
                    t, ty = self.ex(e[1], env)
                    if not (isinstance(ty, tuple) and ty[0] == 'opt' and ty[1] is not None):
                        raise TransError("`.expect` on a value of type %s" % d_tystr(ty))
                    p = self.bindpat(pat, ty[1], env)
                    lines.append(pad + "match %s with None => %s | Some %s =>" % (t, self.panic(), p))
                    closers.append(" end")
                elif e[0] == 'if' and e[3] is not None and (d_mutates(e[2]) or d_mutates(e[3])):
                    no_pure("a mutating `if`")                          # let p = if c { muts; v } else { muts; w };
                    c = self.typed(e[1], env, 'bool', "if condition")
                    a, aty = self.block(e[2], env, 'state', ind + 4)
                    f, fty = self.block(e[3], env, 'state', ind + 4)
                    p = self.bindpat(pat, d_unify(aty, fty, "if branches"), env)
                    lines.append(pad + "let '(dcel, %s) :=\n%s  if %s then (\n%s)\n%s  else (\n%s) in"
                                 % (p, pad, c, a, pad, f))
                elif d_hem(e) is not None and pat[0] == 'var':
                    # let x = dcel.half_edge_mut(h);  -- an exclusive borrow of one entry: `x.f = v` is `dcel.half_edge_mut(h).f = v`.
                    # While x is alive Rust allows no other access to dcel, so substituting the handle is exact.
                    no_pure("a mutable borrow")
                    h = self.typed(d_hem(e), env, 'eh', "half_edge_mut")
                    if not re.match(r"^[a-z_][a-z0-9_]*$", pat[1]) or pat[1] == 'dcel':
                        raise TransError("cannot bind the name `%s`" % pat[1])
                    hv = pat[1] + "_h"                       # the handle is evaluated once, at the borrow
                    for other, (c, _) in env.items():
                        if c == hv:
                            raise TransError("variable names %s / %s collide after renaming" % (hv, other))
                    lines.append(pad + "let %s := %s in" % (hv, h))
                    env[pat[1]] = (hv, ('hmut', hv))
                elif (e[0] == 'refmut' and e[1][0] == 'index' and d_vec_of(e[1][1]) in ('vertices', 'faces')
                      and pat[0] == 'var'):
                    # let x = &mut dcel.vertices[i];  /  let x = &mut dcel.faces[i];  -- an exclusive borrow of one table entry:
                    # `x.out_edge = o` is `dcel.vertices[i].out_edge = o` (resp. `.adjacent_edge` of a face).  The index is
                    # evaluated once, at the borrow; while x is alive Rust allows no other access to dcel, so no statement
                    # in between can change what the index denotes and the substitution is exact.
                    no_pure("a mutable borrow")
                    i = self.typed(e[1][2], env, 'nat', "index")
                    if not re.match(r"^[a-z_][a-z0-9_]*$", pat[1]) or pat[1] == 'dcel':
                        raise TransError("cannot bind the name `%s`" % pat[1])
                    iv = pat[1] + "_i"
                    for other, (c, _) in env.items():
                        if c == iv:
                            raise TransError("variable names %s / %s collide after renaming" % (iv, other))
                    lines.append(pad + "let %s := %s in" % (iv, i))
                    env[pat[1]] = (iv, ('vecmut', d_vec_of(e[1][1]), iv))
                else:
                    if d_mutates(e):
                        raise TransError("mutation inside the right-hand side of a `let` (%s)" % e[0])
                    t, ty = self.ex(e, env)
                    p = self.bindpat(pat, ty, env)
                    lines.append(pad + "let %s%s := %s in" % ("" if pat[0] == 'var' else "'", p, t))
            elif kind == 'assign':
                no_pure("an assignment")
                lines.append(pad + "let dcel := %s in" % self.assign(st, env))
            elif kind == 'assert':
                top_only("an assertion")
                c = self.typed(st[1], env, 'bool', "assertion")
                lines.append(pad + "if negb %s then %s else" % (c, self.panic()))
            elif kind == 'expr':
                e = st[1]
                if e[0] == 'mcall' and e[2] == 'push' and d_vec_of(e[1]) is not None:
                    no_pure("a push")
                    lines.append(pad + "let dcel := %s in" % self.push(e, env))
                elif e[0] == 'if' and e[3] is None:
                    c = self.typed(e[1], env, 'bool', "if condition")
                    if e[2][2] is not None and not (e[2][2][0] == 'if' and e[2][2][3] is None):
                        top_only("an early `return`")                 # if c { ..; return v; }
                        a, _ = self.block(e[2], env, 'top', ind + 4)
                        lines.append(pad + "if %s then (\n%s) else" % (c, a))
                    else:                                               # if c { mutations }
                        no_pure("a conditional mutation")
                        if not d_mutates(e[2]):
                            raise TransError("`if` statement without effect")
                        a, _ = self.block(e[2], env, 'dcel', ind + 4)
                        lines.append(pad + "let dcel := if %s then (\n%s) else dcel in" % (c, a))
                else:
                    what = {'mcall': lambda: ".%s(..)" % e[2], 'call': lambda: "%s(..)" % '::'.join(e[1])}
                    raise TransError("expression statement %s is not a known mutation"
                                     % what.get(e[0], lambda: "`%s`" % e[0])())
            else:
                raise TransError("statement kind `%s`" % kind)
        if fin is None:
            v, ty = 'tt', 'unit'
        else:
            if d_mutates(fin):
                raise TransError("mutation inside the result expression")
            v, ty = self.ex(fin, env)
        if mode == 'top':
            d_unify(ty, self.ret, "result")
            final = "(dcel, %s)" % v
        elif mode == 'state':
            final = "(dcel, %s)" % v
        elif mode == 'dcel':
            d_unify(ty, 'unit', "value of a statement block")
            final = "dcel"
        else:
            final = v
        if mode == 'pure' and not lines:
            return final, ty
        text = '\n'.join(lines + [pad + final]) + ''.join(reversed(closers))
        if mode == 'pure':
            text = "(" + text.strip() + ")"
        return text, ty

def dcel_function(cname, sig, body):
    params, ret = parse_dcel_sig(sig)
    em = DcelEmit(ret)
    env = {}
    binders = ["(dcel : dcel)"]
    for name, ty in params:
        binders.append("(%s : %s)" % (em.bind(name, ty, env), d_coq_ty(ty)))
    text, _ = em.block(parse_body(body), env, 'top', 2)
    if em.used_panic:
        text = "  let dcel0 := dcel in\n" + text
    return "Definition %s %s : Raw.dcel * %s :=\n%s.\n" % (cname, ' '.join(binders), d_coq_ty(ret), text)

DCEL_PRELUDE = """From Coq Require Import ZArith List Bool Arith.
From SpadeV Require Import Obs.State Vmap.Model Dcel.Raw.
Import ListNotations.

(* State-passing translation of the loop-free primitives of dcel_operations.rs against Dcel/Raw.v.
   `dcel` is rebound by every mutating statement, in source order; reads use the current binding.
   Handles (fixed or dynamic) are their `nat` index.

   Panics.  A Rust panic (a failing assert!/assert_eq!/debug_assert!, `.expect` on None) aborts the call;
   here the function then returns `prim_panic dcel0 default`: the dcel exactly as it was on entry (`dcel0`)
   together with a default result (0 for handles, pairs of defaults, tt).  Out-of-range Vec indexing is
   covered by Raw.v (reads return a default, writes are no-ops); theorems carry range preconditions. *)
Definition prim_panic {R : Type} (d : dcel) (r : R) : dcel * R := (d, r).
"""

DCEL_OPS = 'src/delaunay_core/dcel_operations.rs'
DCEL_PRIMS = ['insert_first_vertex', 'insert_second_vertex', 'insert_into_triangle', 'split_edge',
              'split_half_edge', 'flip_cw', 'create_new_face_adjacent_to_edge',
              'create_single_face_between_edge_and_next', 'extend_line', 'split_edge_when_all_vertices_on_line']

# ----------------------------------------------------------------------------- vocabularies / SPEC
FLOAT_BIN = {'<': 'f_lt', '>': 'f_gt', '<=': 'f_le', '>=': 'f_ge', '==': 'f_eq', '!=': 'f_ne',
             '-': 'f_sub', '+': 'f_add', '*': 'f_mul'}
NAT_BIN = {'<': 'Nat.ltb', '<=': 'Nat.leb', '==': 'Nat.eqb', '-': 'Nat.sub', '+': 'Nat.add', '*': 'Nat.mul',
           '^': 'Nat.lxor', '&': 'Nat.land', '|': 'Nat.lor', '<<': 'Nat.shiftl', '>>': 'Nat.shiftr',
           '!=': 'nat_neb', '>': 'nat_gtb', '>=': 'nat_geb'}

MATH_VOC = {
    'binops_float': FLOAT_BIN, 'binops_nat': NAT_BIN, 'panic': 'panic_value',
    'paths': {'MIN_ALLOWED_VALUE': 'MIN_ALLOWED_VALUE', 'MAX_ALLOWED_VALUE': 'MAX_ALLOWED_VALUE',
              'InsertionError::NAN': 'NAN', 'InsertionError::TooSmall': 'TooSmall',
              'InsertionError::TooLarge': 'TooLarge'},
    'fields': {'.x': 'px', '.y': 'py', '.factor': 'pp_factor', '.length_2': 'pp_length_2',
               '.signed_side': 'signed_side'},
    'methods': {'into': None, 'is_nan': 'f_is_nan', 'abs': 'f_abs', 'position': 'position',
                'is_on_left_side_or_on_line': 'is_on_left_side_or_on_line',
                'is_on_right_side_or_on_line': 'is_on_right_side_or_on_line',
                'is_on_left_side': 'is_on_left_side', 'is_on_right_side': 'is_on_right_side',
                'is_on_line': 'is_on_line', 'is_before_edge': 'is_before_edge',
                'is_behind_edge': 'is_behind_edge', 'sub': 'pt_sub', 'dot': 'pt_dot', 'length2': 'pt_length2'},
    'calls': {'Err': 'Err', 'Ok': 'Ok', 'S::zero': 'f_zero', 'zero': 'f_zero',
              'validate_coordinate': 'validate_coordinate',
              'mitigate_underflow_for_coordinate': 'mitigate_underflow_for_coordinate',
              'Point2::new': 'mkpt', 'to_robust_coord': 'to_robust_coord',
              'robust::orient2d': 'robust_orient2d', 'robust::incircle': 'robust_incircle',
              'LineSideInfo::from_determinant': 'from_determinant', 'side_query': 'side_query',
              'PointProjection::new': 'mkpp'},
    'structs': {'robust::Coord': ('mkpt', ['x', 'y']), 'LineSideInfo': ('mklsi', ['signed_side']),
                'Point2': ('mkpt', ['x', 'y']), 'PointProjection': ('mkpp', ['factor', 'length_2']),
                'Self': None},
}

def voc_with(base, **over):
    v = dict(base)
    for k, val in over.items():
        d = dict(base.get(k, {}))
        d.update(val)
        v[k] = d
    return v

LSI_VOC = voc_with(MATH_VOC, structs={'LineSideInfo': ('mklsi', ['signed_side']), 'Self': ('mklsi', ['signed_side'])})
# inside `impl PointProjection`: `Self { .. }` is the struct, `Self::new` is `PointProjection::new` (the plain constructor)
PP_VOC = voc_with(MATH_VOC, structs={'Self': ('mkpp', ['factor', 'length_2'])}, calls={'Self::new': 'mkpp'})
SIZE_VOC = voc_with(MATH_VOC, methods={
    's': None, 'num_faces': 'num_faces', 'num_undirected_edges': 'num_undirected_edges',
    'num_directed_edges': 'num_directed_edges', 'num_inner_faces': 'num_inner_faces',
    'num_all_faces': 'num_all_faces', 'all_vertices_on_line': 'all_vertices_on_line'})

# (output name, prelude, [items])   item = (kind, source file, rust name, impl, coq name, params, ret type, domain, voc)
#   kind 'dcelfn': state-passing DCEL primitive; params / ret type are read from the Rust signature (fields unused)
SPEC = [
 ('Math', """From Coq Require Import ZArith Bool List.
From SpadeV Require Import Num.F64 Gen.Prelude.
Import ListNotations.
""", [
   ('const', 'src/delaunay_core/math.rs', 'MIN_ALLOWED_VALUE', None, 'MIN_ALLOWED_VALUE', None, 'F', 'float', MATH_VOC),
   ('const', 'src/delaunay_core/math.rs', 'MAX_ALLOWED_VALUE', None, 'MAX_ALLOWED_VALUE', None, 'F', 'float', MATH_VOC),
   ('fn', 'src/delaunay_core/math.rs', 'validate_coordinate', None, 'validate_coordinate', '(value : F)', 'result unit InsertionError', 'float', MATH_VOC),
   ('fn', 'src/delaunay_core/math.rs', 'validate_vertex', None, 'validate_vertex', '(vertex : pt)', 'result unit InsertionError', 'float', MATH_VOC),
   ('fn', 'src/delaunay_core/math.rs', 'mitigate_underflow_for_coordinate', None, 'mitigate_underflow_for_coordinate', '(coordinate : F)', 'F', 'float', MATH_VOC),
   ('fn', 'src/delaunay_core/math.rs', 'mitigate_underflow', None, 'mitigate_underflow', '(position : pt)', 'pt', 'float', MATH_VOC),
   ('fn', 'src/delaunay_core/math.rs', 'to_robust_coord', None, 'to_robust_coord', '(point : pt)', 'pt', 'float', MATH_VOC),
   ('fn', 'src/delaunay_core/line_side_info.rs', 'from_determinant', 'LineSideInfo', 'from_determinant', '(s : F)', 'LineSideInfo', 'float', LSI_VOC),
   ('fn', 'src/delaunay_core/line_side_info.rs', 'is_on_left_side', 'LineSideInfo', 'is_on_left_side', '(self : LineSideInfo)', 'bool', 'float', LSI_VOC),
   ('fn', 'src/delaunay_core/line_side_info.rs', 'is_on_right_side', 'LineSideInfo', 'is_on_right_side', '(self : LineSideInfo)', 'bool', 'float', LSI_VOC),
   ('fn', 'src/delaunay_core/line_side_info.rs', 'is_on_left_side_or_on_line', 'LineSideInfo', 'is_on_left_side_or_on_line', '(self : LineSideInfo)', 'bool', 'float', LSI_VOC),
   ('fn', 'src/delaunay_core/line_side_info.rs', 'is_on_right_side_or_on_line', 'LineSideInfo', 'is_on_right_side_or_on_line', '(self : LineSideInfo)', 'bool', 'float', LSI_VOC),
   ('fn', 'src/delaunay_core/line_side_info.rs', 'is_on_line', 'LineSideInfo', 'is_on_line', '(self : LineSideInfo)', 'bool', 'float', LSI_VOC),
   ('fn', 'src/delaunay_core/line_side_info.rs', 'reversed', 'LineSideInfo', 'lsi_reversed', '(self : LineSideInfo)', 'LineSideInfo', 'float', LSI_VOC),
   ('fn', 'src/delaunay_core/line_side_info.rs', 'eq', 'PartialEq for LineSideInfo', 'lsi_eq', '(self other : LineSideInfo)', 'bool', 'float',
        voc_with(LSI_VOC, binops_float={'==': 'Bool.eqb'})),
   ('section', None, 'Oracle', None, None, None, None, None, None),
   ('fn', 'src/delaunay_core/math.rs', 'side_query', None, 'side_query', '(p1 p2 query_point : pt)', 'LineSideInfo', 'float', MATH_VOC),
   ('fn', 'src/delaunay_core/math.rs', 'is_ordered_ccw', None, 'is_ordered_ccw', '(p1 p2 query_point : pt)', 'bool', 'float', MATH_VOC),
   ('fn', 'src/delaunay_core/math.rs', 'contained_in_circumference', None, 'contained_in_circumference', '(v1 v2 v3 p : pt)', 'bool', 'float', MATH_VOC),
   ('endsection', None, 'Oracle', None, None, None, None, None, None),
   ('fn', 'src/delaunay_core/math.rs', 'is_before_edge', 'PointProjection', 'is_before_edge', '(self : PointProjection)', 'bool', 'float', PP_VOC),
   ('fn', 'src/delaunay_core/math.rs', 'is_behind_edge', 'PointProjection', 'is_behind_edge', '(self : PointProjection)', 'bool', 'float', PP_VOC),
   ('fn', 'src/delaunay_core/math.rs', 'is_on_edge', 'PointProjection', 'is_on_edge', '(self : PointProjection)', 'bool', 'float', PP_VOC),
   ('fn', 'src/delaunay_core/math.rs', 'reversed', 'PointProjection', 'pp_reversed', '(self : PointProjection)', 'PointProjection', 'float', PP_VOC),
   ('fn', 'src/delaunay_core/math.rs', 'project_point', None, 'project_point', '(p1 p2 query_point : pt)', 'PointProjection', 'float', PP_VOC),
 ]),
 ('Sizes', """From Coq Require Import Arith Bool.
From SpadeV Require Import Gen.Prelude.
""", [
   ('fn', 'src/triangulation.rs', 'num_all_faces', None, 'num_all_faces', '(self : dcel_sizes)', 'nat', 'nat', SIZE_VOC),
   ('fn', 'src/triangulation.rs', 'num_inner_faces', None, 'num_inner_faces', '(self : dcel_sizes)', 'nat', 'nat', SIZE_VOC),
   ('fn', 'src/triangulation.rs', 'all_vertices_on_line', None, 'all_vertices_on_line', '(self : dcel_sizes)', 'bool', 'nat', SIZE_VOC),
   ('fn', 'src/triangulation.rs', 'convex_hull_size', None, 'convex_hull_size', '(self : dcel_sizes)', 'nat', 'nat', SIZE_VOC),
 ]),
 ('DcelOps', DCEL_PRELUDE,
  [('dcelfn', DCEL_OPS, n, None, n, None, None, 'dcel', None) for n in DCEL_PRIMS]),
]

SECTION_ORACLE = """Section Oracle.
(* `robust::orient2d` and `robust::incircle` live outside the repository: section variables. *)
Variable robust_orient2d : pt -> pt -> pt -> F.
Variable robust_incircle : pt -> pt -> pt -> pt -> F.
"""

def translate(repo, outdir):
    os.makedirs(outdir, exist_ok=True)
    report = []
    for name, prelude, items in SPEC:
        out = ["(* GENERATED by tools/rs2v.py from the sources under /repo -- do not edit. *)", prelude]
        for kind, path, rname, impl, cname, params, ret, dom, voc in items:
            if kind == 'section':
                out.append(SECTION_ORACLE)
                continue
            if kind == 'endsection':
                out.append("End Oracle.\n")
                continue
            src = open(os.path.join(repo, path)).read()
            # drop the test module so test helpers never shadow real functions
            src = re.split(r"\n#\[cfg\(test\)\]\s*\nmod test", src)[0]
            try:
                if kind == 'const':
                    ty, val = find_const(src, rname)
                    if ty != 'f64':
                        raise TransError("const %s: type %s" % (rname, ty))
                    toks = tokenize(val)
                    if toks[0][0] != 'float' or toks[1][0] != 'eof':
                        raise TransError("const %s is not a float literal" % rname)
                    out.append("Definition %s : F := f_of_bits %d. (* %s *)\n" % (cname, f64_bits(val), val))
                    report.append((path, rname, 'const'))
                    continue
                sig, body = find_fn(src, rname, impl)
                if kind == 'dcelfn':
                    out.append("(* %s :: %s *)\n%s" % (path, rname, dcel_function(cname, sig, body)))
                    report.append((path, rname, 'dcelfn'))
                    continue
                ast = parse_body(body)
                em = Emit(dom, voc, body_ids=[v for k, v in tokenize(body) if k == 'id'])
                text = em.blk(ast)
                out.append("(* %s :: %s *)\nDefinition %s %s : %s :=\n  %s.\n" % (path, rname, cname, params, ret, text))
                report.append((path, rname, 'fn'))
            except TransError as ex:
                raise TransError("%s::%s: %s" % (path, rname, ex))
        content = '\n'.join(out)
        target = os.path.join(outdir, name + '.v')
        old = open(target).read() if os.path.exists(target) else None
        if old != content:
            with open(target, 'w') as f:
                f.write(content)
    return report

if __name__ == '__main__':
    try:
        rep = translate(sys.argv[1], sys.argv[2])
    except TransError as ex:
        print("RS2V-ERROR: %s" % ex)
        sys.exit(2)
    print("rs2v: translated %d items" % len(rep))
