#!/bin/sh
# runall.sh [seed] : runs the quick check of every claimed property, prints one line each
cd /verif
SEED=${1:-20260930}
for p in $(python3 -c "import json; print(' '.join(c['property_id'] for c in json.load(open('/verif/MANIFEST.json'))['checks']))"); do
  S=$(date +%s)
  VERIF_SEED=$SEED ./verify $p --tier quick > /tmp/runall-$p.log 2>&1; RC=$?
  E=$(date +%s)
  echo "$p exit=$RC $((E-S))s viol=$(grep -c '^VIOLATION' /tmp/runall-$p.log) known=$(grep -c '^KNOWN' /tmp/runall-$p.log) $(grep '^VIOLATION' /tmp/runall-$p.log | head -1 | cut -c1-120)"
done
