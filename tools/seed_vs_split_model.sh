#!/bin/sh
# M8: does the correspondence of the add_constraint_and_split model notice a change of the LIBRARY?  Applies a patch to a scratch copy of the
# library snapshot, builds the harness against it (scratch target dir), re-runs the case files of an existing run directory and counts the
# corr verdicts on `split` operations.    usage: tools/seed_vs_split_model.sh <patch.diff> [run dir]
set -e
ROOT="$(cd "$(dirname "$0")/.." && pwd)"
PATCH="$1"; RUN="${2:-$ROOT/.cache/run/C13}"
SRC="${VERIF_REPO:-/verif-repo}"
W="$ROOT/.mut2"
rm -rf "$W/repo" "$W/run"; mkdir -p "$W/run"
mkdir -p "$W/repo" && (cd "$SRC" && tar cf - --exclude=.git --exclude=target .) | (cd "$W/repo" && tar xf -)
(cd "$W/repo" && patch -p1 -s < "$PATCH")
if [ ! -d "$W/harness" ]; then
  mkdir -p "$W/harness/.cargo"; cp -r "$ROOT/harness/src" "$ROOT/harness/Cargo.lock" "$W/harness/"
  sed "s#path = \"[^\"]*\"#path = \"$W/repo\"#" "$ROOT/harness/Cargo.toml" > "$W/harness/Cargo.toml"
  printf '[net]\noffline = true\n[build]\ntarget-dir = "%s/target"\n' "$W" > "$W/harness/.cargo/config.toml"
fi
(cd "$W/harness" && RUSTFLAGS="--cfg spade_verif -Awarnings" timeout 1500 cargo build --offline 2>&1 | tail -2)
H="$W/target/debug/spade-verif-harness"
for cf in "$RUN"/shard*.case; do
  b=$(basename "$cf" .case)
  ( "$H" "$cf" 5000 > "$W/run/$b.out" 2>/dev/null ) &
done
wait
python3 "$ROOT/tools/splitcount.py" "$W/run" | head -3
