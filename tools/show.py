#!/usr/bin/env python3
"""show.py <replay.json>: replays a case through the harness and prints each step with decoded coordinates
(debugging aid only; all judgement is in the Coq checker)."""
import sys, json, struct, subprocess, os
from fractions import Fraction
def fb(b): return struct.unpack('<d', struct.pack('<Q', int(b)))[0]
j = json.load(open(sys.argv[1]))
c = j["case"]
text = "C %s %s %s %s\n%s\n" % (c["id"], c["kind"], c["scalar"], c["hint"], "\n".join(c["ops"]))
open("/tmp/show.case", "w").write(text)
out = subprocess.run(["/verif/.cache/target/debug/spade-verif-harness", "/tmp/show.case"], capture_output=True, text=True).stdout
def orient(a,b,c): return (b[0]-a[0])*(c[1]-a[1])-(b[1]-a[1])*(c[0]-a[0])
def incircle(a,b,c,d):
    adx,ady,bdx,bdy,cdx,cdy=a[0]-d[0],a[1]-d[1],b[0]-d[0],b[1]-d[1],c[0]-d[0],c[1]-d[1]
    al,bl,cl=adx*adx+ady*ady,bdx*bdx+bdy*bdy,cdx*cdx+cdy*cdy
    return adx*(bdy*cl-cdy*bl)-ady*(bdx*cl-cdx*bl)+al*(bdx*cdy-cdx*bdy)
for line in out.splitlines():
    t = line.split()
    if t[0] == "O":
        args = []
        for a in t[3:]:
            if a.isdigit() and len(a) > 9: args.append(repr(fb(a)))
            else: args.append(a)
        print("O", t[1], t[2], " ".join(args))
    elif t[0] == "R":
        print("  R", " ".join((repr(fb(a)) if a.isdigit() and len(a) > 12 else a) for a in t[1:]))
    elif t[0] == "S" and len(t) > 8:
        nv, ne, nf, nc = map(int, t[1:5])
        i = t.index("V") + 1
        V = []
        for k in range(nv):
            V.append((Fraction(fb(t[i])), Fraction(fb(t[i+1])), t[i+2], t[i+3])); i += 4
        i = t.index("E") + 1
        E = []
        for k in range(2*ne):
            E.append(tuple(map(int, t[i:i+4]))); i += 4
        i = t.index("G") + 1
        G = t[i:i+ne]
        print("  S nv=%d ne=%d nf=%d nc=%d" % (nv, ne, nf, nc))
        if "-v" in sys.argv:
            print("    V", ["(%s,%s)" % (float(x), float(y)) for x, y, _, _ in V])
            print("    edges", ["%d:%d-%d%s" % (k, E[2*k][3], E[2*k+1][3], "*" if G[k] == "1" else "") for k in range(ne)])
        P = [(x, y) for x, y, _, _ in V]
        if nf > 1:
            for e in range(2*ne):
                if E[e][2] == 0:
                    a, b = P[E[e][3]], P[E[e^1][3]]
                    for vi, p_ in enumerate(P):
                        o = orient(a, b, p_)
                        if o > 0: print("    HULL: vertex %d %s strictly left of outer edge %d (%d->%d) orient=%s" % (vi, (float(p_[0]),float(p_[1])), e, E[e][3], E[e^1][3], float(o)))
                        if o == 0 and vi not in (E[e][3], E[e^1][3]):
                            d1 = (b[0]-a[0])*(p_[0]-a[0])+(b[1]-a[1])*(p_[1]-a[1]); l2=(b[0]-a[0])**2+(b[1]-a[1])**2
                            if 0 <= d1 <= l2: print("    HULL: vertex %d on outer edge %d interior" % (vi, e))
                else:
                    a, b, c_ = P[E[e][3]], P[E[E[e][0]][3]], P[E[E[E[e][0]][0]][3]]
                    if orient(a, b, c_) <= 0: print("    FACE %d not ccw (edge %d)" % (E[e][2], e))
            for i_ in range(nv):
                for j_ in range(i_):
                    if P[i_] == P[j_]: print("    DUP positions", i_, j_)
        for e in range(2*ne):
            if e % 2: continue
            if E[e][2] == 0 or E[e^1][2] == 0 or G[e//2] == "1": continue
            a, b = P[E[e][3]], P[E[e^1][3]]
            c_, d_ = P[E[E[e][1]][3]], P[E[E[e^1][1]][3]]
            ic = incircle(a, b, c_, d_)
            if ic > 0:
                print("    NOT-LD edge %d: %d-%d apexes %d %d incircle=%s" % (e//2, E[e][3], E[e^1][3], E[E[e][1]][3], E[E[e^1][1]][3], float(ic)))
