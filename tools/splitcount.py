#!/usr/bin/env python3
"""M8 helper: attribute corr verdicts of chkm to `split` operations.  usage: splitcount.py <run dir> [chkm binary]  (runs chkm with CHK_PASSES=1 on every shard*.out)"""
import sys, os, subprocess, glob, collections
ROOT = os.path.dirname(os.path.dirname(os.path.abspath(__file__)))
def main():
    d = sys.argv[1]
    chkm = sys.argv[2] if len(sys.argv) > 2 else os.path.join(ROOT, ".cache", "chkm")
    tot = collections.Counter()
    fails = []
    for of in sorted(glob.glob(os.path.join(d, "shard*.out"))):
        ops = {}
        cur = None
        res = {}
        for line in open(of, errors="replace"):
            t = line.split()
            if not t: continue
            if t[0] == "C": cur = t[1]
            elif t[0] == "O": ops[(cur, int(t[1]))] = t[2]; last = (cur, int(t[1]))
            elif t[0] == "R": res[last] = t[1] if len(t) > 1 else ""
        out = subprocess.run([chkm], stdin=open(of), stdout=subprocess.PIPE, env=dict(os.environ, CHK_PASSES="1")).stdout.decode()
        seen = set()
        for line in out.splitlines():
            t = line.split()
            if t and t[0] in ("P", "F") and t[3] == "corr":
                key = (t[1], int(t[2]))
                if ops.get(key) == "split":
                    tot[t[0]] += 1
                    seen.add(key)
                    if t[0] == "F": fails.append((of, t[1], t[2]))
        for key, name in ops.items():
            if name == "split" and key not in seen:
                tot["uncompared:" + res.get(key, "?")[:6]] += 1
    print(dict(tot))
    for f in fails[:40]: print("FAIL", *f)
main()
