#!/usr/bin/env python3
"""M8 reporting aid: per-kind counts of the `split` operations of a run directory (see tools/splitstats.sh, Check/SplitStats.v)."""
import sys, os, glob, subprocess, collections, struct
ROOT = os.path.dirname(os.path.dirname(os.path.abspath(__file__)))
def fb(tok): return struct.unpack("<d", struct.pack("<Q", int(tok)))[0]
def classify_coords(vs):
    """vs: list of (x, y, payload) of the state before the call -> 'coarse' | 'scaled' | 'plain'"""
    cs = [abs(c) for (x, y, d) in vs if d != 888000 for c in (x, y) if c != 0.0]
    if not cs: return "plain"
    M, m = max(cs), min(cs)
    if m >= 2.0 ** 23 and M < 2 * m: return "coarse"
    if M < 2.0 ** -130: return "tiny (2^-142..2^-137)"
    if M < 0.5 or M >= 2.0 ** 19: return "scaled"
    return "plain"
def main():
    d = sys.argv[1] if len(sys.argv) > 1 else os.path.join(ROOT, ".cache/run/C13")
    kinds = collections.Counter(); agree = collections.Counter(); bad = []
    for of in sorted(glob.glob(os.path.join(d, "shard*.out"))):
        scalar, pre = {}, {}
        cur, state, k = None, None, None
        for line in open(of, errors="replace"):
            t = line.split()
            if not t: continue
            if t[0] == "C": cur = t[1]; scalar[cur] = t[3]; state = []
            elif t[0] == "O":
                k = int(t[1])
                if t[2] == "split": pre[(cur, k)] = state
            elif t[0] == "S":
                i = t.index("V"); j = t.index("E")
                vt = t[i + 1:j]
                state = [(fb(vt[q]), fb(vt[q + 1]), int(vt[q + 2])) for q in range(0, len(vt), 4)]
        out = subprocess.run([os.path.join(ROOT, ".cache", "splitstats")], stdin=open(of), stdout=subprocess.PIPE).stdout.decode()
        for line in out.splitlines():
            t = line.split()
            if t[0] != "T": continue
            cid, row = t[1], [int(x) for x in t[2:]]
            if len(row) < 10:
                kinds["model-none(%d)" % row[1]] += 1; bad.append((of, cid, row)); continue
            k, nsplit, nerr, nex, nov, nrot, fbk, nouts, verdict, nadded = row
            tags = []
            tags.append("crossings=0" if nsplit == 0 else "crossings=1" if nsplit == 1 else "crossings>=2")
            if nerr: tags.append("split position = existing vertex (Err)")
            if nex: tags.append("through existing vertices")
            if nov: tags.append("along existing edges")
            if nrot: tags.append("rotates free edges")
            if fbk: tags.append("fallback path")
            if nouts > 1: tags.append("several model outcomes (insert location)")
            if nsplit and nadded < nsplit: tags.append("fewer vertices added than crossings")
            tags.append(scalar.get(cid, "?"))
            cc = classify_coords(pre.get((cid, k)) or [])
            if cc != "plain": tags.append(cc + " inputs")
            if any(dd == 888000 for (_, _, dd) in (pre.get((cid, k)) or [])): tags.append("state already has split vertices")
            v = {1: "agree", 0: "DISAGREE", 2: "not compared (panic/hang)"}[verdict]
            agree[v] += 1
            for g in tags + ["all"]:
                kinds[(g, v)] += 1
            if verdict == 0: bad.append((of, cid, row))
    print("split operations:", dict(agree))
    names = sorted(set(g for (g, _) in [x for x in kinds if isinstance(x, tuple)]))
    print("%-50s %8s %8s %8s" % ("kind", "agree", "DISAGREE", "uncomp."))
    for g in names:
        print("%-50s %8d %8d %8d" % (g, kinds[(g, "agree")], kinds[(g, "DISAGREE")], kinds[(g, "not compared (panic/hang)")]))
    for x in kinds:
        if not isinstance(x, tuple): print(x, kinds[x])
    for b in bad[:30]: print("BAD", *b)
main()
