#!/bin/sh
# M8 reporting aid: builds .cache/splitstats (extracted Check/SplitStats.v + ocaml/splitstats.ml) and prints per-kind counts of the
# `split` operations of a run directory (default .cache/run/C13).   usage: tools/splitstats.sh [run dir]
set -e
cd "$(dirname "$0")/.."
RUN=${1:-.cache/run/C13}
if [ ! -x .cache/splitstats ] || [ coq/theories/Check/SplitStats.vo -nt .cache/splitstats ] || [ coq/theories/Check/RunModel.vo -nt .cache/splitstats ]; then
  mkdir -p ocaml/gens .cache/ocamls
  ( cd coq && coqc -Q theories SpadeV theories/Check/SplitStats.v )
  ( cd ocaml/gens && rm -f *.ml *.mli && coqc -Q ../../coq/theories SpadeV ../../coq/theories/Check/ExtractSplitStats.v >/dev/null )
  python3 tools/codes.py ml > ocaml/gens/Codes_tbl.ml
  rm -rf .cache/ocamls/*; cp ocaml/gens/*.ml ocaml/gens/*.mli .cache/ocamls/
  cp ocaml/splitstats.ml .cache/ocamls/zz_main.ml
  ( cd .cache/ocamls && ocamlfind ocamlopt -O2 -package zarith -linkpkg -w -a $(ocamlfind ocamldep -sort *.ml *.mli 2>/dev/null | tr '\n' ' ') -o ../splitstats 2>/dev/null || \
    ocamlfind ocamlopt -package zarith -linkpkg -w -a $(ocamlfind ocamldep -sort *.ml *.mli | tr '\n' ' ') -o ../splitstats )
fi
python3 tools/splitstats.py "$RUN"
