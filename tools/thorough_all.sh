#!/bin/sh
# thorough_all.sh : run inside a `vp run --with-repo` snapshot: builds everything there against the repo snapshot and runs every thorough tier
set -u
HERE=$(pwd)
REPO=${VP_RUN_REPO:-/repo}
sed -i "s|path = \"/repo\"|path = \"$REPO\"|" harness/Cargo.toml
sed -i "s|/verif/.cache/target|$HERE/.cache/target|" harness/.cargo/config.toml
sed -i "s|/verif/|$HERE/|g" tools/known.py
export VERIF_REPO=$REPO
./setup.sh > setup.log 2>&1 || { echo "setup failed"; tail -20 setup.log; exit 1; }
for p in C01 C02 C03 C04 C05 C06 C07 C08 C09 C10 C11 C12 C13 C14 C15 C16 C17 C18 C19 C20; do
  S=$(date +%s)
  ./verify $p --tier thorough > thorough-$p.log 2>&1; RC=$?
  E=$(date +%s)
  echo "$p exit=$RC $((E-S))s viol=$(grep -c '^VIOLATION' thorough-$p.log) known=$(grep -c '^KNOWN' thorough-$p.log) $(grep '^VIOLATION' thorough-$p.log | head -2 | tr '\n' ' ' | cut -c1-200)"
done
