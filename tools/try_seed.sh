#!/bin/sh
# try_seed.sh <seed-dir> <property-id>... : apply the patch to /repo, run the quick checks, undo the patch.
set -u
D=$(realpath "$1"); shift
cd /verif
git -C /repo diff --quiet || { echo "/repo is dirty"; exit 2; }
git -C /repo apply "$D/patch.diff" || exit 2
for P in "$@"; do
  ./verify $P --tier quick > /tmp/try-$P.log 2>&1; RC=$?
  echo "$(basename $D) vs $P: exit=$RC $(grep -c '^VIOLATION' /tmp/try-$P.log) violation line(s): $(grep '^VIOLATION' /tmp/try-$P.log | head -2 | tr '\n' ' ')"
done
git -C /repo checkout -- .
