#!/bin/sh
# wave.sh <seed-dir> <property>... : confirm a seeded change in a scratch worktree, then run the quick checks against it
D=$1; shift
tools/confirm_seed.sh $D 2>&1 | tail -1
VERIF_SKIP_TRANSLATE= tools/try_seed.sh $D "$@"
