#!/usr/bin/env python3
"""xval.py <harness-output> <n-cases>: cross-validation of the OCaml extraction. The first n cases of a harness output file are
turned into Gallina terms, `Check/Run.run_case` is evaluated on them by `vm_compute` inside coqc, and the verdict counts per tag are
compared with what the extracted checker printed for the same cases. Prints `XVAL ok <cases> <verdicts>` or `XVAL MISMATCH ...`."""
import sys, os, re, subprocess
ROOT = os.path.dirname(os.path.dirname(os.path.abspath(__file__)))
sys.path.insert(0, os.path.join(ROOT, "tools"))
import codes

def is_int(s):
    return re.fullmatch(r"-?\d+", s) is not None
def tok_to_z(s):
    if is_int(s):
        return s
    if s in codes.KEYWORDS:
        return str(codes.kw_code(s))
    if len(s) >= 2 and s[0] in "VEDved" and is_int(s[1:]):
        return s[1:]
    return None
def zl(xs):
    return "[" + "; ".join("(%s)" % x for x in xs) + "]%Z"

def parse(path, n):
    cases, cur = [], None
    for line in open(path, errors="replace"):
        t = line.split()
        if not t:
            continue
        if t[0] == "C":
            if len(cases) >= n and cur is not None:
                break
            cur = {"id": t[1], "cdt": t[2] == "cdt", "f32": t[3] == "f32", "hint": codes.kw_code(t[4]), "steps": []}
        elif cur is None:
            continue
        elif t[0] == "O":
            cur["steps"].append({"op": codes.op_code(t[2]), "args": [z for z in map(tok_to_z, t[3:]) if z is not None], "res": [], "obs": None, "aux": None})
        elif t[0] == "R" and cur["steps"]:
            cur["steps"][-1]["res"] = [str(codes.kw_code("panic"))] if (len(t) > 1 and t[1] == "panic") else [z for z in map(tok_to_z, t[1:]) if z is not None]
        elif t[0] == "S" and cur["steps"]:
            cur["steps"][-1]["obs"] = [x for x in t[1:] if is_int(x)]
        elif t[0] == "Q" and cur["steps"]:
            cur["steps"][-1]["aux"] = [x for x in t[1:] if is_int(x)]
        elif t[0] == "X":
            cases.append(cur)
            cur = None
            if len(cases) >= n:
                break
    return cases

def coq_eval(args):
    """one case, one coqc: returns the per-tag verdict counts, or None when vm_compute does not finish in the time limit
    (Coq's binary Z is ~1000x slower than GMP on the 200-bit determinants of near-ulp inputs)"""
    k, c, head, wd, limit = args
    steps = []
    for s in c["steps"]:
        obs = "None" if s["obs"] is None else "(Some %s)" % zl(s["obs"])
        aux = "None" if s["aux"] is None else "(Some %s)" % zl(s["aux"])
        steps.append("mkstep (%d)%%Z %s %s %s %s" % (s["op"], zl(s["args"]), zl(s["res"]), obs, aux))
    v = list(head)
    v.append("Definition case0 : list step := [%s]." % ";\n  ".join(steps))
    v.append("Eval vm_compute in (summ (run_case (mkcfg %s %s (%d)%%Z) case0))." % (str(c["cdt"]).lower(), str(c["f32"]).lower(), c["hint"]))
    vf = os.path.join(wd, "xval_case%d.v" % k)
    open(vf, "w").write("\n".join(v) + "\n")
    try:
        p = subprocess.run(["coqc", "-noglob", "-Q", os.path.join(ROOT, "coq", "theories"), "SpadeV", vf], capture_output=True, text=True, timeout=limit)
    except subprocess.TimeoutExpired:
        return None
    if p.returncode != 0:
        return "coqc: " + p.stderr[-300:].replace("\n", " ")
    trip = re.findall(r"\(\s*(\d+),\s*(\d+),\s*(true|false)\s*\)", p.stdout)
    d = {}
    for (_, t, ok) in trip:
        nm = codes.TAGS[int(t)][0]
        a = d.setdefault(nm, [0, 0])
        a[0 if ok == "true" else 1] += 1
    return d

def main():
    path, n = sys.argv[1], int(sys.argv[2])
    limit = int(os.environ.get("VERIF_XVAL_LIMIT", "60"))
    # candidates: up to 4n of the leading cases with small dumps; the first n that finish in time are compared
    cand = [c for c in parse(path, 6 * n) if sum(len(s["obs"] or []) for s in c["steps"]) < 3000][:2 * n]
    if not cand:
        print("XVAL ok 0 0")
        return 0
    head = ["Set Printing Depth 1000000.", "Set Printing Width 400.", "From Coq Require Import ZArith List Bool.", "From SpadeV Require Import Check.Codes Check.Run.", "Import ListNotations.",
            "Definition tagn (t : tag) : nat := match t with " + " | ".join("T_%s => %d" % (t, i) for i, (t, _) in enumerate(codes.TAGS)) + " end.",
            "Definition summ (l : list verdict) : list (nat * nat * bool) := map (fun v => (fst (fst v), tagn (snd (fst v)), snd v)) l."]
    wd = os.path.join(ROOT, ".cache", "xval")
    os.makedirs(wd, exist_ok=True)
    from concurrent.futures import ThreadPoolExecutor
    with ThreadPoolExecutor(max_workers=16) as ex:
        res = list(ex.map(coq_eval, [(k, c, head, wd, limit) for k, c in enumerate(cand)]))
    for r in res:
        if isinstance(r, str):
            print("XVAL ERROR " + r)
            return 1
    skipped = sum(1 for r in res if r is None)
    pairs = [(c, r) for c, r in zip(cand, res) if r is not None][:n]
    cases = [c for c, _ in pairs]
    coq_counts = [r for _, r in pairs]
    # the extracted checker on the same cases
    sub = os.path.join(wd, "sub.out")
    ids = set(c["id"] for c in cases)
    with open(sub, "w") as f:
        keep = False
        for line in open(path, errors="replace"):
            if line.startswith("C "):
                keep = line.split()[1] in ids
            if keep:
                f.write(line)
    q = subprocess.run(os.path.join(ROOT, ".cache", "chk") + " < " + sub, shell=True, capture_output=True, text=True)
    ml = {}
    for line in q.stdout.splitlines():
        t = line.split()
        if t and t[0] == "K":
            d = {}
            for item in t[2:]:
                nm, a, b = item.split(":")
                d[nm] = [int(a), int(b)]
            ml[t[1]] = d
    total = 0
    for c, cc in zip(cases, coq_counts):
        if ml.get(c["id"], {}) != cc:
            print("XVAL MISMATCH case %s: coq %s ocaml %s" % (c["id"], cc, ml.get(c["id"])))
            return 1
        total += sum(a + b for a, b in cc.values())
    print("XVAL ok %d %d%s" % (len(cases), total, (" (%d further cases skipped: vm_compute over %ds)" % (skipped, limit)) if skipped else ""))
    return 0

if __name__ == "__main__":
    sys.exit(main())
